#!/venv/bin/python
"""Held-out evaluation: round-3 corpus (names *c-N breaking, *-ok4/-ok5 benign) or, with HELDOUT_ROUND=4..7, a later round (7: heldout7/, measured only), materialised under /tmp/variants_r<round>.
usage: tools/heldout.py prepare | run [PROP,PROP...]"""
import glob, json, os, subprocess, sys
from concurrent.futures import ThreadPoolExecutor
here = os.path.dirname(os.path.dirname(os.path.abspath(__file__)))
sys.path.insert(0, os.path.join(here, "tools"))
import importlib.util
spec = importlib.util.spec_from_file_location("sweep", os.path.join(here, "tools", "sweep.py"))
sweep = importlib.util.module_from_spec(spec); spec.loader.exec_module(sweep)
ALL = ["C%02d" % i for i in range(1, 21)]

ROUND = os.environ.get("HELDOUT_ROUND", "3")
PATTERNS = {"7": ("*g-[0-9]", "*-ok12"), "6": ("*f-[0-9]", "*-ok1[01]"), "3": ("*c-[0-9]", "*-ok[45]"), "4": ("*d-[0-9]", "*-ok[67]"), "5": ("*e-[0-9]", "*-ok[89]")}[ROUND]
V3 = "/tmp/variants_r" + ROUND
# round 7 was measured only (never merged into the replay corpora): its changes live under heldout7/
SRC = os.path.join(here, "heldout7") if ROUND == "7" else here


def names():
    s = sorted(os.path.basename(d) for d in glob.glob(os.path.join(SRC, "seeded", PATTERNS[0])))
    b = sorted(os.path.basename(d) for d in glob.glob(os.path.join(SRC, "benign", PATTERNS[1])))
    return s, b

def prepare():
    s, b = names()
    for kind, ns in (("seeded", s), ("benign", b)):
        for n in ns:
            meta = json.load(open(os.path.join(SRC, kind, n, "meta.json")))
            sweep.materialise(os.path.join(V3, kind, n), meta["base"], os.path.join(SRC, kind, n, "patch.diff"))
    print(len(s), "seeds", len(b), "benign")

def check(prop, root, tag):
    ev = os.path.join(V3, "ev", tag)
    r = subprocess.run(["/venv/bin/python", "-m", "sa.run", prop, "--root", root, "--evidence-dir", ev], cwd=here, capture_output=True, text=True)
    keys = []
    try:
        cov = json.load(open(os.path.join(ev, prop + ".json")))["coverage"]
        keys = cov["new_violations"]
    except Exception:
        pass
    err = [l for l in (r.stdout + r.stderr).splitlines() if "ANALYSIS-ERROR" in l][:1]
    return r.returncode, keys, err

def run(props):
    s, b = names()
    jobs = []
    for n in s:
        p = json.load(open(os.path.join(SRC, "seeded", n, "meta.json")))["breaks_property"]
        if p in props:
            jobs.append(("seed", n, p))
    for n in b:
        for p in props:
            jobs.append(("benign", n, p))
    def work(j):
        kind, n, p = j
        d = os.path.join(V3, "seeded" if kind == "seed" else "benign", n)
        return j, check(p, d, f"{kind}-{n}-{p}")
    with ThreadPoolExecutor(max_workers=12) as ex:
        res = list(ex.map(work, jobs))
    det = miss = sgap = fa = bgap = ok = 0
    for (kind, n, p), (rc, keys, err) in res:
        if kind == "seed":
            if rc == 1 and keys:
                det += 1
            elif rc == 2:
                sgap += 1; print(f"seed-gap {p} {n}: {(err or ['?'])[0][:160]}")
            else:
                miss += 1; print(f"MISSED   {p} {n}")
        else:
            if rc == 0:
                ok += 1
            elif rc == 1:
                fa += 1; print(f"FALSE-ALARM {p} {n}: {[k[:110] for k in keys[:3]]}")
            else:
                bgap += 1; print(f"gap      {p} {n}: {(err or ['?'])[0][:160]}")
    print(f"HELD-OUT {','.join(props)}: seeds detected={det} missed={miss} gap={sgap} | benign runs silent={ok} false-alarm={fa} gap={bgap}")

if __name__ == "__main__":
    if sys.argv[1] == "prepare":
        prepare()
    else:
        run(sys.argv[2].split(",") if len(sys.argv) > 2 else ALL)
