#!/venv/bin/python
"""Behaviour-preserving maintenance changes x every claimed check.

usage: tools/benign.py confirm SRC_DIR NAME     confirm a candidate (patch applies on HEAD, equiv.py exits 0 with and
                                                without it, package imports, test suite passes) and keep it as
                                                benign/<NAME>/ with meta.json
       tools/benign.py run [NAME...]            apply each kept change to a scratch worktree of its base and run all
                                                checks; a VIOLATION (exit 1) that the unchanged base does not give is a
                                                false alarm, exit 2 is an analysis gap; writes benign/RESULTS.json
"""
import glob, json, os, shutil, subprocess, sys, tempfile
from concurrent.futures import ProcessPoolExecutor
here = os.path.dirname(os.path.dirname(os.path.abspath(__file__)))
sys.path.insert(0, here)
from sa import registry
PROPS = sorted(registry.CHECKS)
PY = "/venv/bin/python"


def run(cmd, **kw):
    return subprocess.run(cmd, capture_output=True, text=True, **kw)


def head():
    return run(["git", "-C", "/repo", "rev-parse", "--short", "HEAD"]).stdout.strip()


def confirm(src, name):
    tmp = tempfile.mkdtemp(prefix="verif-benign-")
    wt = os.path.join(tmp, "wt")
    base = head()
    rec = {"name": name, "base": base, "kind": "behaviour-preserving"}
    try:
        run(["git", "-C", "/repo", "worktree", "add", "--detach", wt, base])
        env = dict(os.environ, PYTHONPATH=os.path.join(wt, "src"))
        eq = os.path.join(src, "equiv.py")
        r0 = run([PY, eq], env=env, cwd=tmp)
        rec["equiv_on_base"] = r0.returncode
        a = run(["git", "-C", wt, "apply", "--whitespace=nowarn", os.path.join(src, "patch.diff")])
        rec["patch_applies"] = a.returncode == 0
        if a.returncode != 0:
            rec["error"] = a.stderr[-400:]
            return rec
        r1 = run([PY, eq], env=env, cwd=tmp)
        rec["equiv_with_patch"] = r1.returncode
        if r1.returncode != 0:
            rec["error"] = (r1.stdout + r1.stderr)[-400:]
        t = run([PY, "-m", "pytest", "-q", "-p", "no:cacheprovider", "-n", "4"], env=env, cwd=wt)
        tail = (t.stdout.strip().splitlines() or [""])[-1]
        rec["tests"] = tail
        rec["tests_pass"] = t.returncode == 0
        ok = rec["equiv_on_base"] == 0 and rec["equiv_with_patch"] == 0 and rec["tests_pass"]
        rec["confirmed"] = ok
        if ok:
            dst = os.path.join(here, "benign", name)
            os.makedirs(dst, exist_ok=True)
            for f in ("patch.diff", "equiv.py", "notes.md"):
                if os.path.exists(os.path.join(src, f)):
                    shutil.copy(os.path.join(src, f), os.path.join(dst, f))
            json.dump(rec, open(os.path.join(dst, "meta.json"), "w"), indent=1)
        return rec
    finally:
        run(["git", "-C", "/repo", "worktree", "remove", "--force", wt])
        shutil.rmtree(tmp, ignore_errors=True)


def keys(root, tmp, tag):
    out = {}
    for p in PROPS:
        ev = os.path.join(tmp, "ev" + tag)
        r = run([PY, "-m", "sa.run", p, "--root", root, "--evidence-dir", ev], cwd=here)
        try:
            cov = json.load(open(os.path.join(ev, p + ".json")))["coverage"]
            out[p] = (r.returncode, set(cov["new_violations"]), [l for l in r.stdout.splitlines() if l.startswith("ANALYSIS-ERROR")][:1])
        except Exception:
            out[p] = (r.returncode, set(), [l for l in (r.stdout + r.stderr).splitlines() if "ANALYSIS-ERROR" in l][:1])
    return out


def job(d):
    meta = json.load(open(os.path.join(d, "meta.json")))
    tmp = tempfile.mkdtemp(prefix="verif-benign-")
    wt = os.path.join(tmp, "wt")
    try:
        run(["git", "-C", "/repo", "worktree", "add", "--detach", wt, meta["base"]])
        run(["git", "-C", wt, "apply", "--whitespace=nowarn", os.path.join(d, "patch.diff")])
        after = keys(wt, tmp, "1")
        res = {}
        for p in PROPS:
            rc, new, err = after[p]
            if rc != 0:
                res[p] = {"rc": rc, "keys": sorted(new), "error": err}
        return meta["name"], res
    finally:
        run(["git", "-C", "/repo", "worktree", "remove", "--force", wt])
        shutil.rmtree(tmp, ignore_errors=True)


if __name__ == "__main__":
    if sys.argv[1] == "confirm":
        print(json.dumps(confirm(sys.argv[2], sys.argv[3]), indent=1))
    else:
        dirs = sorted(d for d in glob.glob(os.path.join(here, "benign", "*")) if os.path.isdir(d))
        if len(sys.argv) > 2:
            dirs = [d for d in dirs if os.path.basename(d) in sys.argv[2:]]
        with ProcessPoolExecutor(max_workers=12) as ex:
            results = list(ex.map(job, dirs))
        run(["git", "-C", "/repo", "worktree", "prune"])
        out = {}
        for name, res in results:
            out[name] = res
            alarms = {p: v["keys"] for p, v in res.items() if v["rc"] == 1}
            gaps = {p: v["error"] for p, v in res.items() if v["rc"] == 2}
            print(f"{name:12s} alarms={alarms} gaps={gaps}")
        if len(sys.argv) <= 2:
            json.dump(out, open(os.path.join(here, "benign", "RESULTS.json"), "w"), indent=1)
