#!/venv/bin/python
"""Run checks against a scratch variant of /repo (another commit and/or a patch applied).

  tools/variant.py [--commit REV] [--patch FILE] PROP [PROP ...]

Makes a detached git worktree of /repo under a fresh temp dir (outside /repo and /verif), applies
the patch, runs `python -m sa.run PROP --root <worktree> --evidence-dir <tmp>`, prints each
verdict and removes the worktree.  Nothing in /repo or /verif/evidence is touched.
"""
import argparse, os, shutil, subprocess, sys, tempfile

BASE = "988dfdc"

def main():
    ap = argparse.ArgumentParser()
    ap.add_argument("--commit", default="HEAD")
    ap.add_argument("--patch", default=None)
    ap.add_argument("--tier", default="quick")
    ap.add_argument("-v", action="store_true")
    ap.add_argument("props", nargs="+")
    a = ap.parse_args()
    tmp = tempfile.mkdtemp(prefix="verif-variant-")
    wt = os.path.join(tmp, "wt")
    ev = os.path.join(tmp, "ev")
    rc_all = 0
    try:
        subprocess.run(["git", "-C", "/repo", "worktree", "add", "--detach", wt, a.commit], check=True,
                       stdout=subprocess.DEVNULL, stderr=subprocess.DEVNULL)
        if a.patch:
            r = subprocess.run(["git", "-C", wt, "apply", "--3way", os.path.abspath(a.patch)], capture_output=True, text=True)
            if r.returncode != 0:
                r = subprocess.run(["git", "-C", wt, "apply", os.path.abspath(a.patch)], capture_output=True, text=True)
            if r.returncode != 0 and a.commit == "HEAD":
                # the patch was written against the pinned snapshot; retry there
                print("(patch does not apply on HEAD; re-running on the pinned snapshot %s, compare with --commit %s alone)" % (BASE, BASE))
                subprocess.run(["git", "-C", wt, "reset", "-q", "--hard"], check=True)
                subprocess.run(["git", "-C", wt, "checkout", "-q", "--detach", BASE], check=True)
                r = subprocess.run(["git", "-C", wt, "apply", os.path.abspath(a.patch)], capture_output=True, text=True)
            if r.returncode != 0:
                print("PATCH-FAILED", r.stderr[:300]); return 3
        here = os.path.dirname(os.path.dirname(os.path.abspath(__file__)))
        for p in a.props:
            r = subprocess.run(["/venv/bin/python", "-m", "sa.run", p, "--root", wt, "--evidence-dir", ev, "--tier", a.tier],
                               cwd=here, capture_output=True, text=True, env={**os.environ, "PYTHONDONTWRITEBYTECODE": "1"})
            out = r.stdout.rstrip().splitlines()
            tag = {0: "PASS", 1: "VIOLATION", 2: "ANALYSIS-ERROR"}.get(r.returncode, str(r.returncode))
            print(f"{p}: {tag}")
            for ln in out:
                if a.v or ln.startswith(("  R", "ANALYSIS", "KNOWN")):
                    print("   ", ln[:400])
            if r.returncode == 2 and r.stderr:
                print(r.stderr[-600:])
            rc_all = max(rc_all, r.returncode)
    finally:
        subprocess.run(["git", "-C", "/repo", "worktree", "remove", "--force", wt], stdout=subprocess.DEVNULL, stderr=subprocess.DEVNULL)
        shutil.rmtree(tmp, ignore_errors=True)
        subprocess.run(["git", "-C", "/repo", "worktree", "prune"], stdout=subprocess.DEVNULL, stderr=subprocess.DEVNULL)
    return rc_all

if __name__ == "__main__":
    sys.exit(main())
