#!/bin/sh
# Full regression sweep of every check over the whole corpus; writes seeded/SWEEP.json (own-property verdict per seed and
# every benign run) and prints the summary lines.
cd "$(dirname "$0")/.." || exit 2
rm -f seeded/SWEEP.json
for p in C01 C02 C03 C04 C05 C06 C07 C08 C09 C10 C11 C12 C13 C14 C15 C16 C17 C18 C19 C20; do
  /venv/bin/python tools/sweep.py run $p --json seeded/SWEEP.json
done
