#!/venv/bin/python
"""Development-time validation of sa/normalise.py + sa/alpha.py (NOT part of any check): write the normalised tree of
every benign variant back to disk and run that variant's equivalence script (golden digests of real outputs) and,
optionally, the repository test-suite against it.  A failure means a normalisation pass changed behaviour."""
import ast, glob, json, os, shutil, subprocess, sys
from concurrent.futures import ProcessPoolExecutor as ThreadPoolExecutor
here = os.path.dirname(os.path.dirname(os.path.abspath(__file__)))
sys.path.insert(0, here)
V = "/tmp/variants"
OUT = "/tmp/normcheck"

def build(name):
    from sa.pm import PM
    src = os.path.join(V, "benign", name)
    dst = os.path.join(OUT, name)
    if os.path.isdir(dst):
        shutil.rmtree(dst)
    shutil.copytree(src, dst, symlinks=True)
    pm = PM(src)
    for mi in pm.modules.values():
        p = os.path.join(dst, mi.path)
        ast.fix_missing_locations(mi.tree)
        open(p, "w", encoding="utf-8").write(ast.unparse(mi.tree) + "\n")
    return dst, pm.normalise_report, pm.alpha_report

def job(name):
    try:
        dst, nr, ar = build(name)
    except Exception as e:
        return name, "BUILD-ERROR " + repr(e)[:200]
    env = dict(os.environ, PYTHONPATH=os.path.join(dst, "src"))
    r = subprocess.run(["/venv/bin/python", os.path.join(here, "benign", name, "equiv.py")], env=env, cwd="/tmp", capture_output=True, text=True)
    res = f"equiv={r.returncode}"
    if r.returncode != 0:
        res += " " + (r.stdout + r.stderr)[-300:].replace("\n", " | ")
    if "--tests" in sys.argv:
        t = subprocess.run(["/venv/bin/python", "-m", "pytest", "-q", "-p", "no:cacheprovider", "-x", "-n", "2", "/repo/tests"], env=env, cwd=dst, capture_output=True, text=True)
        res += " tests=" + (t.stdout.strip().splitlines() or ["?"])[-1][:80]
    return name, res + f" inlined={len(nr['inlined'])} renamed={ar['renamed_names']}"

if __name__ == "__main__":
    names = sorted(os.path.basename(d) for d in glob.glob(os.path.join(V, "benign", "*")))
    sel = [a for a in sys.argv[1:] if not a.startswith("--")]
    if sel:
        names = [n for n in names if n in sel]
    os.makedirs(OUT, exist_ok=True)
    with ThreadPoolExecutor(max_workers=6) as ex:
        for name, res in ex.map(job, names):
            print(name, res)
