#!/venv/bin/python
"""Cross-detection matrix: every seeded change x every claimed check (new violation keys vs its base)."""
import glob, json, os, shutil, subprocess, sys, tempfile
from concurrent.futures import ProcessPoolExecutor
here = os.path.dirname(os.path.dirname(os.path.abspath(__file__)))
sys.path.insert(0, here)
from sa import registry
PROPS = sorted(registry.CHECKS)

def run(cmd, **kw):
    return subprocess.run(cmd, capture_output=True, text=True, **kw)

def keys(root, tmp, tag):
    out = {}
    for p in PROPS:
        ev = os.path.join(tmp, "ev" + tag)
        r = run(["/venv/bin/python", "-m", "sa.run", p, "--root", root, "--evidence-dir", ev], cwd=here)
        try:
            cov = json.load(open(os.path.join(ev, p + ".json")))["coverage"]
            out[p] = (r.returncode, set(cov["new_violations"]) | set(cov["known_findings_matched"]))
        except Exception:
            out[p] = (r.returncode, set())
    return out

BASECACHE = {}
def job(d):
    meta = json.load(open(os.path.join(d, "meta.json")))
    base = meta["base"]
    tmp = tempfile.mkdtemp(prefix="verif-matrix-")
    wt = os.path.join(tmp, "wt")
    try:
        run(["git", "-C", "/repo", "worktree", "add", "--detach", wt, base])
        before = keys(wt, tmp, "0")
        run(["git", "-C", wt, "apply", os.path.join(d, "patch.diff")])
        after = keys(wt, tmp, "1")
        res = {}
        for p in PROPS:
            new = sorted(after[p][1] - before[p][1])
            if new or after[p][0] == 2:
                res[p] = {"rc": after[p][0], "rules": sorted({k.split("|")[0] for k in new})}
        return meta["name"], meta["breaks_property"], res
    finally:
        run(["git", "-C", "/repo", "worktree", "remove", "--force", wt])
        shutil.rmtree(tmp, ignore_errors=True)

if __name__ == "__main__":
    dirs = sorted(d for d in glob.glob(os.path.join(here, "seeded", "*")) if os.path.isdir(d))
    if len(sys.argv) > 1:
        dirs = [d for d in dirs if os.path.basename(d) in sys.argv[1:]]
    with ProcessPoolExecutor(max_workers=6) as ex:
        results = list(ex.map(job, dirs))
    run(["git", "-C", "/repo", "worktree", "prune"])
    mpath = os.path.join(here, "seeded", "MATRIX.json")
    out = json.load(open(mpath)) if len(sys.argv) > 1 and os.path.exists(mpath) else {}
    for name, prop, res in results:
        out[name] = {"breaks": prop, "fired": res}
        own = prop in res and res[prop]["rc"] == 1
        others = {p: v["rules"] for p, v in res.items() if p != prop}
        errs = [p for p, v in res.items() if v["rc"] == 2]
        print(f"{name:12s} breaks {prop}: own={'yes' if own else 'NO '} others={others} {'ANALYSIS-ERROR in ' + str(errs) if errs else ''}")
    json.dump(out, open(os.path.join(here, "seeded", "MATRIX.json"), "w"), indent=1)
