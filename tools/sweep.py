#!/venv/bin/python
"""Fast regression sweep of checks over materialised variant trees (scratch, under /tmp/variants).

  tools/sweep.py prepare                 materialise base trees, every seeded/<name> and benign/<name> as directories
  tools/sweep.py run PROP[,PROP..] [--benign] [--seeds] [--all-seeds] [--names a,b]
        run the check(s) on the selected variants in parallel and print a compact verdict table:
        benign: rc and new violation keys (must be rc 0);  seeds: rc (must be 1 for the seed's own property)
"""
import glob, json, os, shutil, subprocess, sys
from concurrent.futures import ThreadPoolExecutor
here = os.path.dirname(os.path.dirname(os.path.abspath(__file__)))
V = "/tmp/variants"
PY = "/venv/bin/python"


def run(cmd, **kw):
    return subprocess.run(cmd, capture_output=True, text=True, **kw)


def materialise(dst, base, patch=None):
    if os.path.isdir(dst):
        shutil.rmtree(dst)
    os.makedirs(dst)
    p = subprocess.Popen(["git", "-C", "/repo", "archive", base, "src", "pyproject.toml"], stdout=subprocess.PIPE)
    subprocess.run(["tar", "-x", "-C", dst], stdin=p.stdout, check=True)
    p.wait()
    if patch:
        r = run(["git", "apply", "--whitespace=nowarn", "--include=src/*", patch], cwd=dst)
        if r.returncode != 0:
            print("patch failed", dst, r.stderr[-200:])
            return False
    return True


def prepare():
    os.makedirs(V, exist_ok=True)
    bases = set()
    for kind in ("seeded", "benign"):
        for d in sorted(glob.glob(os.path.join(here, kind, "*"))):
            if not os.path.isdir(d):
                continue
            meta = json.load(open(os.path.join(d, "meta.json")))
            base = meta["base"]
            bases.add(base)
            materialise(os.path.join(V, kind, os.path.basename(d)), base, os.path.join(d, "patch.diff"))
    for b in bases:
        materialise(os.path.join(V, "base", b), b)
    materialise(os.path.join(V, "base", "HEAD"), "HEAD")
    print("bases", sorted(bases))


def check(prop, root, tag):
    ev = os.path.join(V, "ev", tag)
    r = run([PY, "-m", "sa.run", prop, "--root", root, "--evidence-dir", ev], cwd=here)
    keys, known = set(), set()
    try:
        cov = json.load(open(os.path.join(ev, prop + ".json")))["coverage"]
        keys = set(cov["new_violations"])
        known = set(cov["known_findings_matched"])
    except Exception:
        pass
    err = [l for l in (r.stdout + r.stderr).splitlines() if "ANALYSIS-ERROR" in l or "Traceback" in l][:2]
    return r.returncode, keys | known, err


def main():
    if sys.argv[1] == "prepare":
        prepare()
        return
    props = sys.argv[2].split(",")
    flags = sys.argv[3:]
    names = None
    if "--names" in flags:
        names = set(flags[flags.index("--names") + 1].split(","))
    want_b = "--benign" in flags or not any(f in flags for f in ("--seeds", "--all-seeds"))
    want_s = "--seeds" in flags or "--all-seeds" in flags or "--benign" not in flags
    jobs = []
    for prop in props:
        if want_b:
            for d in sorted(glob.glob(os.path.join(V, "benign", "*"))):
                n = os.path.basename(d)
                if names and n not in names:
                    continue
                jobs.append((prop, "benign", n, d, None))
        if want_s:
            for d in sorted(glob.glob(os.path.join(V, "seeded", "*"))):
                n = os.path.basename(d)
                if names and n not in names:
                    continue
                meta = json.load(open(os.path.join(here, "seeded", n, "meta.json")))
                if "--all-seeds" not in flags and meta["breaks_property"] != prop:
                    continue
                jobs.append((prop, "seed", n, d, meta))
    basekeys = {}

    def base_of(prop, base):
        k = (prop, base)
        if k not in basekeys:
            basekeys[k] = check(prop, os.path.join(V, "base", base), f"base-{base}-{prop}")[1]
        return basekeys[k]
    # precompute bases sequentially (few)
    for prop, kind, n, d, meta in jobs:
        base = meta["base"] if meta else json.load(open(os.path.join(here, "benign", n, "meta.json")))["base"]
        base_of(prop, base)

    def work(j):
        prop, kind, n, d, meta = j
        base = meta["base"] if meta else json.load(open(os.path.join(here, "benign", n, "meta.json")))["base"]
        rc, keys, err = check(prop, d, f"{kind}-{n}-{prop}")
        new = sorted(keys - basekeys[(prop, base)])
        return prop, kind, n, meta, rc, new, err
    with ThreadPoolExecutor(max_workers=15) as ex:
        res = list(ex.map(work, jobs))
    bad_b = bad_s = gap_b = gap_s = ok_b = ok_s = 0
    for prop, kind, n, meta, rc, new, err in res:
        if kind == "benign":
            if rc == 0:
                ok_b += 1
                continue
            if rc == 1:
                bad_b += 1
                print(f"FALSE-ALARM {prop} {n}: " + "; ".join(k[:150] for k in new[:6]) + (f" (+{len(new)-6})" if len(new) > 6 else ""))
            else:
                gap_b += 1
                print(f"gap         {prop} {n}: {(err or ['?'])[0][:200]}")
        else:
            own = meta["breaks_property"] == prop
            detected = rc == 1 and bool(new)
            if own:
                if detected:
                    ok_s += 1
                elif rc == 2:
                    gap_s += 1
                    print(f"seed-gap    {prop} {n}: {(err or ['?'])[0][:200]}")
                else:
                    bad_s += 1
                    print(f"MISSED      {prop} {n}: rc={rc} new={new[:3]}")
            elif rc != 0 and (new or rc == 2):
                print(f"cross       {prop} {n} (breaks {meta['breaks_property']}): rc={rc} {[k.split('|')[0] for k in new][:5]} {(err or [''])[0][:120]}")
    print(f"SUMMARY {','.join(props)}: benign ok={ok_b} false-alarm={bad_b} gap={gap_b} | own seeds detected={ok_s} missed={bad_s} gap={gap_s}")
    if "--json" in flags:
        out = flags[flags.index("--json") + 1]
        data = json.load(open(out)) if os.path.exists(out) else {}
        for prop, kind, n, meta, rc, new, err in res:
            data.setdefault(kind, {}).setdefault(n, {})[prop] = {"rc": rc, "rules": sorted({k.split("|")[0] for k in new}), "keys": new[:6]}
        json.dump(data, open(out, "w"), indent=1)


if __name__ == "__main__":
    main()
