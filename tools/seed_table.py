#!/venv/bin/python
"""Print a markdown table of the seeded changes: own-property verdict from seeded/SWEEP.json (tools/sweep.py --json),
cross-property detections from seeded/MATRIX.json (tools/matrix.py) when it covers the seed."""
import glob, json, os, re
here = os.path.dirname(os.path.dirname(os.path.abspath(__file__)))
def load(p):
    try:
        return json.load(open(os.path.join(here, "seeded", p)))
    except Exception:
        return {}
S = load("SWEEP.json").get("seed", {})
M = load("MATRIX.json")
rows = []
for m in sorted(glob.glob(os.path.join(here, "seeded", "*", "meta.json"))):
    d = json.load(open(m))
    name, own = d["name"], d["breaks_property"]
    notes = os.path.join(os.path.dirname(m), "notes.md")
    first = ""
    if os.path.exists(notes):
        for ln in open(notes):
            ln = ln.strip()
            if ln and not ln.startswith("#"):
                first = re.sub(r"[`*|]", "", ln)[:90]
                break
    sw = S.get(name, {}).get(own)
    if sw is None:
        verdict, rules = "?", ""
    elif sw["rc"] == 1 and sw["rules"]:
        verdict, rules = "VIOLATION", ", ".join(sw["rules"][:4])
    elif sw["rc"] == 2:
        verdict, rules = "analysis gap", ""
    else:
        verdict, rules = "**not detected**" if not d.get("valid_on_head") is False else "harmless on HEAD", ""
    others = sorted(p for p, v in M.get(name, {}).get("fired", {}).items() if p != own and v["rc"] == 1 and v["rules"])
    rows.append(f"| {name} | {own} | {first} | {verdict} | {rules} | {', '.join(others)} |")
print("| seed | breaks | change (first line of its notes) | own check | rules | also reported by |")
print("|---|---|---|---|---|---|")
print("\n".join(rows))
