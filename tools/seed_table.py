#!/venv/bin/python
"""Print a markdown table of the seeded changes from seeded/MATRIX.json (tools/matrix.py) and each seed's notes.md."""
import glob, json, os, re
here = os.path.dirname(os.path.dirname(os.path.abspath(__file__)))
M = json.load(open(os.path.join(here, "seeded", "MATRIX.json")))
rows = []
for m in sorted(glob.glob(os.path.join(here, "seeded", "*", "meta.json"))):
    d = json.load(open(m))
    name = d["name"]
    notes = os.path.join(os.path.dirname(m), "notes.md")
    first = ""
    if os.path.exists(notes):
        for ln in open(notes):
            ln = ln.strip()
            if ln and not ln.startswith("#"):
                first = re.sub(r"[`*|]", "", ln)[:100]
                break
    fired = M.get(name, {}).get("fired", {})
    own = d["breaks_property"]
    det = [p for p, v in sorted(fired.items()) if v["rc"] == 1 and v["rules"]]
    det = ([own] if own in det else []) + [p for p in det if p != own]
    gaps = [p for p, v in sorted(fired.items()) if v["rc"] == 2]
    rules = ", ".join(fired.get(own, {}).get("rules", [])[:4])
    cell = ", ".join(det) or ("- (harmless on HEAD)" if d.get("valid_on_head") is False else "-")
    if gaps:
        cell += f" (gap: {', '.join(gaps)})"
    rows.append(f"| {name} | {own} | {first} | {cell} | {rules} |")
print("| seed | breaks | change (first line of its notes) | detected by (own property first) | own-property rules that fired |")
print("|---|---|---|---|---|")
print("\n".join(rows))
