#!/venv/bin/python
"""Print a markdown table of the seeded changes from seeded/*/meta.json and notes.md."""
import glob, json, os, re
here = os.path.dirname(os.path.dirname(os.path.abspath(__file__)))
rows = []
for m in sorted(glob.glob(os.path.join(here, "seeded", "*", "meta.json"))):
    d = json.load(open(m))
    notes = os.path.join(os.path.dirname(m), "notes.md")
    first = ""
    if os.path.exists(notes):
        for ln in open(notes):
            ln = ln.strip()
            if ln and not ln.startswith("#"):
                first = re.sub(r"[`*|]", "", ln)[:110]
                break
    rules = []
    for p, c in d.get("checks", {}).items():
        for k in c.get("new_violation_keys", []):
            r = k.split("|")[0]
            if r not in rules:
                rules.append(r)
    det = ", ".join(d.get("detected_by", [])) or ("- (harmless on HEAD)" if d.get("valid_on_head") is False else "-")
    rows.append(f"| {d['name']} | {d['breaks_property']} | {first} | {det} | {', '.join(rules[:4])} |")
print("| seed | breaks | change (first line of its notes) | detected by | rules that fired |")
print("|---|---|---|---|---|")
print("\n".join(rows))
