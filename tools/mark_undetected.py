#!/venv/bin/python
"""After tools/final_sweep.sh: seeds whose own property's check does not report a violation are marked
`known_undetected` in their meta.json (documented losses; the thorough-tier corpus replay skips them), seeds that are
detected lose the mark."""
import glob, json, os
here = os.path.dirname(os.path.dirname(os.path.abspath(__file__)))
S = json.load(open(os.path.join(here, "seeded", "SWEEP.json"))).get("seed", {})
for m in sorted(glob.glob(os.path.join(here, "seeded", "*", "meta.json"))):
    d = json.load(open(m))
    own = d["breaks_property"]
    sw = S.get(d["name"], {}).get(own)
    if sw is None or d.get("valid_on_head") is False:
        continue
    detected = sw["rc"] == 1 and bool(sw["rules"])
    if detected and d.get("known_undetected"):
        d.pop("known_undetected", None); d.pop("known_undetected_reason", None)
        json.dump(d, open(m, "w"), indent=1); print("now detected:", d["name"])
    elif not detected:
        d["known_undetected"] = True
        d["known_undetected_reason"] = ("the property's check ends in an analysis gap (exit 2) on this change" if sw["rc"] == 2
                                        else "the property's check stays silent on this change") + " - documented loss, DESIGN II.14"
        json.dump(d, open(m, "w"), indent=1); print("UNDETECTED:", d["name"], "rc", sw["rc"])
