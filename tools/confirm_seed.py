#!/venv/bin/python
"""Confirm a seeded change and store it under /verif/seeded/<name>/.

  tools/confirm_seed.py SRC_DIR NAME PROP [PROP...]

SRC_DIR holds patch.diff, demo.py, notes.md.  In a scratch worktree of /repo (HEAD if the patch
applies there, else the pinned snapshot) it runs: demo without the change (must exit 0), applies the
change, imports the package, runs the whole test suite (must pass), runs the demo (must exit != 0),
then runs the listed checks against the changed tree and records which fired with which new keys.
"""
import json, os, shutil, subprocess, sys, tempfile
BASE = "988dfdc"
here = os.path.dirname(os.path.dirname(os.path.abspath(__file__)))
src, name, props = sys.argv[1], sys.argv[2], sys.argv[3:]
tmp = tempfile.mkdtemp(prefix="verif-seed-")
wt = os.path.join(tmp, "wt")
res = {"name": name, "breaks_property": props[0], "checked_with": props}
def run(cmd, **kw):
    return subprocess.run(cmd, capture_output=True, text=True, **kw)
def sh(cmd, cwd):
    return run(cmd, cwd=cwd, shell=True, env={**os.environ, "PYTHONPATH": os.path.join(wt, "src"), "PYTHONDONTWRITEBYTECODE": "1"})
try:
    run(["git", "-C", "/repo", "worktree", "add", "--detach", wt, "HEAD"])
    patch = os.path.abspath(os.path.join(src, "patch.diff"))
    base = "HEAD"
    if run(["git", "-C", wt, "apply", "--check", patch]).returncode != 0:
        run(["git", "-C", wt, "checkout", "-q", "--detach", BASE])
        base = BASE
        if run(["git", "-C", wt, "apply", "--check", patch]).returncode != 0:
            print("patch applies neither on HEAD nor on the snapshot"); sys.exit(3)
    res["base"] = base if base != "HEAD" else run(["git", "-C", "/repo", "rev-parse", "--short", "HEAD"]).stdout.strip()
    demo = os.path.abspath(os.path.join(src, "demo.py"))
    r0 = sh(f"timeout 900 /venv/bin/python {demo}", tmp)
    res["demo_without_change_exit"] = r0.returncode
    # baseline keys of the checks on the unchanged base
    def keys(root):
        out = {}
        for p in props:
            ev = os.path.join(tmp, "ev")
            r = run(["/venv/bin/python", "-m", "sa.run", p, "--root", root, "--evidence-dir", ev], cwd=here)
            try:
                cov = json.load(open(os.path.join(ev, p + ".json")))["coverage"]
                out[p] = (r.returncode, set(cov["new_violations"]) | set(cov["known_findings_matched"]))
            except FileNotFoundError:
                out[p] = (r.returncode, set())
        return out
    before = keys(wt)
    run(["git", "-C", wt, "apply", patch])
    imp = sh("/venv/bin/python -c 'import rtflite'", wt)
    res["imports_with_change"] = imp.returncode == 0
    t = sh("timeout 1200 /venv/bin/python -m pytest -q -p no:cacheprovider -n 8 2>&1 | tail -1", wt)
    res["tests_with_change"] = t.stdout.strip()
    r1 = sh(f"timeout 900 /venv/bin/python {demo}", tmp)
    res["demo_with_change_exit"] = r1.returncode
    res["demo_with_change_output"] = (r1.stdout + r1.stderr).strip().splitlines()[:6]
    after = keys(wt)
    det = {}
    for p in props:
        new = sorted(after[p][1] - before[p][1])
        det[p] = {"exit_before": before[p][0], "exit_after": after[p][0], "new_violation_keys": new}
    res["checks"] = det
    res["detected_by"] = [p for p in props if det[p]["new_violation_keys"] and det[p]["exit_after"] == 1]
    ok = res["demo_without_change_exit"] == 0 and res["demo_with_change_exit"] not in (0, None) and " passed" in res["tests_with_change"] and "failed" not in res["tests_with_change"] and res["imports_with_change"]
    res["confirmed"] = ok
    print(json.dumps({k: res[k] for k in ("name", "base", "confirmed", "demo_without_change_exit", "demo_with_change_exit", "tests_with_change", "detected_by")}))
    if ok:
        dst = os.path.join(here, "seeded", name)
        os.makedirs(dst, exist_ok=True)
        for f in ("patch.diff", "demo.py", "notes.md"):
            if os.path.exists(os.path.join(src, f)):
                shutil.copy(os.path.join(src, f), os.path.join(dst, f))
        notes = open(os.path.join(src, "notes.md")).read() if os.path.exists(os.path.join(src, "notes.md")) else ""
        res["what_it_needs_to_manifest"] = "see notes.md"
        res["what_was_run"] = ["demo.py on the unchanged base (exit 0)", "git apply patch.diff", "import rtflite", "full pytest suite with the change", "demo.py with the change (exit != 0)", "bin/check <props> --root <changed tree> (new violation keys vs the unchanged base)"]
        json.dump(res, open(os.path.join(dst, "meta.json"), "w"), indent=1, default=list)
finally:
    run(["git", "-C", "/repo", "worktree", "remove", "--force", wt])
    shutil.rmtree(tmp, ignore_errors=True)
    run(["git", "-C", "/repo", "worktree", "prune"])
