#!/venv/bin/python
"""Maintain KNOWN_FINDINGS.json (never called by a check; checks only read the file).

  tools/known.py open  PROP "what fails / why recorded"      # record all current new violations of PROP as open findings
  tools/known.py fixed PROP COMMIT "what failed" KEY [KEY…]  # record repaired defects (suppress nothing)
  tools/known.py list
"""
import json, os, sys
here = os.path.dirname(os.path.dirname(os.path.abspath(__file__)))
path = os.path.join(here, "KNOWN_FINDINGS.json")
data = json.load(open(path))
cmd = sys.argv[1]
if cmd == "open":
    prop, what = sys.argv[2], sys.argv[3]
    ev = json.load(open(os.path.join(here, "evidence", prop + ".json")))
    for k in ev["coverage"]["new_violations"]:
        if not any(d["key"] == k and d["property"] == prop for d in data):
            data.append({"property": prop, "key": k, "status": "open", "what": what})
            print("recorded", k)
elif cmd == "fixed":
    prop, commit, what = sys.argv[2], sys.argv[3], sys.argv[4]
    for k in sys.argv[5:]:
        data.append({"property": prop, "key": k, "status": "fixed", "commit": commit, "what": what,
                     "record": f"fixed: property={prop} {commit} {what}"})
elif cmd == "list":
    for d in data:
        print(d["status"], d["property"], d["key"][:120])
json.dump(data, open(path, "w"), indent=1)
