import sys, ast
sys.path.insert(0,'/verif')
from sa.pm import PM
root, mod, fn = sys.argv[1], sys.argv[2], sys.argv[3]
pm = PM(root)
print({k:(v if not isinstance(v,list) or len(v)<12 else v[:12]) for k,v in pm.normalise_report.items()})
print(pm.alpha_report)
fi = pm.funcs.get(fn)
print(ast.unparse(fi.node) if fi else "no such function")
