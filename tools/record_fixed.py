#!/venv/bin/python
"""Record repaired defects: run every claimed check on the pinned snapshot in a scratch worktree,
collect violation keys that no longer occur on HEAD, and write them to KNOWN_FINDINGS.json as
status=fixed entries (they suppress nothing)."""
import json, os, subprocess, sys, tempfile, shutil
here = os.path.dirname(os.path.dirname(os.path.abspath(__file__)))
sys.path.insert(0, here)
from sa import registry
BASE = "988dfdc"
# (rule prefix, substring of key) -> (commit, what failed)
MAP = [
    ("R19.3", "", "0988a88", "validators formatted their message with the non-existent cls.__field_name__ (AttributeError instead of ValueError)"),
    ("R01.5", "", "0362c57", "RTFBody(as_colheader=False): rtf_encode raised TypeError (extend(None)) in PageRenderer._render_column_headers"),
    ("R01.4", "", "1535018", "text_font_size=9.5 accepted at construction, ValidationError at encode (TextContent.size was int)"),
    ("R01.1", "", "515773d", "RTFDocument(rtf_figure=RTFFigure()) encoded to the empty string"),
    ("R01.6", "", "70cb1b6", "cell_justification 'j'/'d' accepted at construction, ValueError at encode (validated against the wrong table)"),
    ("R19.6", "", "70cb1b6", "cell_justification 'j'/'d' accepted at construction, ValueError at encode (validated against the wrong table)"),
    ("R10.1", "", "2fa902b", "code points 128-255 written raw as UTF-8 under \\ansi; code points > U+FFFF produced \\u values outside the signed 16-bit range"),
    ("R10.3", "", "2fa902b", "subline_by heading text bypassed the escaper"),
    ("R12.1", "", "a08bc1a", "multi-section and figure documents resolved colour indices without a document colour context (\\cf552 next to a 2-entry table)"),
    ("R14.1", "", "a08bc1a", "an exception during encode left the colour context of the failed document behind"),
    ("R14.7", "", "a08bc1a", "colour context left behind by a failed encode is read by the next encode on the multi-section/figure paths"),
    ("R19.1", "cell_justification", "70cb1b6", "cell_justification 'j'/'d' accepted at construction, ValueError at encode (validated against the wrong table)"),
    ("R14.5", "", "fc01838", "colour context kept in an attribute of the module-level ColorService singleton"),
    ("R15.1", "", "fc01838", "two threads encoding different documents overwrote each other's colour context"),
    ("R13.1", "", "c2970ae", "group_by: first value after a null key blanked (!= with shifted column yields null)"),
    ("R13.2", "", "c2970ae", "hierarchical group_by: child blanked when its parent changed but the child did not (levels evaluated on the already-suppressed frame)"),
    ("R17.1", "", "cfa2232", "assemble_rtf: a figure document with a colour table as non-first input lost the colour table's opening line; stray '}' closed the document early"),
    ("R06.4", "", "a2e5cbf", "page break restated A4 as \\paperw11908 (int) while the document start wrote \\paperw11909 (round)"),
    ("R16.4", "", "a2e5cbf", "figure goal size truncated: 2.3 in -> \\picwgoal3311 instead of 3312"),
    ("R07.1", "", "c29211d", "bottom table edge: non-final pages with a paragraph footnote/source got no rtf_body.border_last; a table footnote placed 'first' on a one-page document left rtf_page.border_last on the data row"),
    ("R08.2", "", "31447c0", "automatic column header kept full-table widths after page_by/subline_by column removal (3000/6000 vs 4500/9000 twips)"),
    ("R06.1", "subline", "2167c5e", "figure documents showed the subline on the first page only, ignoring page_title"),
]
tmp = tempfile.mkdtemp(prefix="verif-fixed-")
wt, ev = os.path.join(tmp, "wt"), os.path.join(tmp, "ev")
subprocess.run(["git", "-C", "/repo", "worktree", "add", "--detach", wt, BASE], check=True, stdout=subprocess.DEVNULL, stderr=subprocess.DEVNULL)
path = os.path.join(here, "KNOWN_FINDINGS.json")
data = [d for d in json.load(open(path)) if d.get("status") != "fixed"]
try:
    for prop in sorted(registry.CHECKS):
        subprocess.run(["/venv/bin/python", "-m", "sa.run", prop, "--root", wt, "--evidence-dir", ev], cwd=here, capture_output=True)
        subprocess.run(["/venv/bin/python", "-m", "sa.run", prop, "--evidence-dir", os.path.join(tmp, "ev2")], cwd=here, capture_output=True,
                       env={**os.environ})
        try:
            old = json.load(open(os.path.join(ev, prop + ".json")))["coverage"]
            new = json.load(open(os.path.join(tmp, "ev2", prop + ".json")))["coverage"]
        except FileNotFoundError:
            continue
        now = set(new["new_violations"]) | set(new["known_findings_matched"])
        for k in old["new_violations"] + old["known_findings_matched"]:
            if k in now:
                continue
            rule = k.split("|")[0]
            hit = next((m for m in MAP if rule == m[0] and m[1] in k), None)
            if hit is None:
                print("UNMAPPED", prop, k)
                continue
            data.append({"property": prop, "key": k, "status": "fixed", "commit": hit[2], "what": hit[3],
                         "record": f"fixed: property={prop} {hit[2]} {hit[3]}"})
            print("fixed", prop, hit[2], k[:90])
finally:
    subprocess.run(["git", "-C", "/repo", "worktree", "remove", "--force", wt], stdout=subprocess.DEVNULL, stderr=subprocess.DEVNULL)
    shutil.rmtree(tmp, ignore_errors=True)
json.dump(data, open(path, "w"), indent=1)
