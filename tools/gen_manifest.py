#!/venv/bin/python
"""Render MANIFEST.json from sa/registry.py and validate it against the schema."""
import json, os, sys
here = os.path.dirname(os.path.dirname(os.path.abspath(__file__)))
sys.path.insert(0, here)
from sa import registry as R

props = [json.loads(l)["id"] for l in open(os.path.join(here, "properties.jsonl"))]
checks, na = [], []
for p in props:
    c = R.CHECKS.get(p)
    if c is None:
        na.append({"property_id": p, "reason": R.NOT_APPLICABLE.get(p, R.NOT_YET)})
        continue
    checks.append({
        "property_id": p,
        "quick_cmd": f"bin/check {p} --tier quick",
        "thorough_cmd": f"bin/check {p} --tier thorough",
        "evidence_file": f"/verif/evidence/{p}.json",
        "replay_cmd_template": f"bin/check {p} --explain {{path}}",
        "engine": "sa",
        "level_claimed": {"category": "other", "text": c["text"], "design_ref": c["ref"]},
        "level_note": c["note"],
        "technique": "static analysis: " + c["technique"],
    })
m = {
    "version": 1,
    "setup_cmd": "/venv/bin/python -c \"import ast,sys,pathlib; [ast.parse(p.read_text()) for p in pathlib.Path('/repo/src/rtflite').rglob('*.py')]; import sa.run\"",
    "hooks": {
        "guard": "RTFLITE_VERIF",
        "enable": "none needed: the checks read /repo's source text and never import or run it; no hook was added to the repository",
        "baseline_off_cmd": "cd /repo && /venv/bin/python -m pytest -ra -q -p no:cacheprovider --timeout=900 --continue-on-collection-errors",
        "source_commits": [],
        "add_only": True,
    },
    "engines": [{"name": "sa", "path": "/verif/sa", "serves_properties": [c["property_id"] for c in checks],
                 "kind_free_text": "repository-specific static analysis in pure Python (ast): program model + call graph, abstract interpreter over string shapes, decision-table extraction, CFG/dominance, effect and ownership analysis, table/regex agreement"}],
    "checks": checks,
    "not_applicable": na,
    "notes": "All checks are static: they parse /repo/src/rtflite on every run, never import it. Exit 0 pass / 1 VIOLATION / 2 ANALYSIS-ERROR (anchor vanished or construct outside the analysed subset). Fixed genuine defects and open known findings are listed in KNOWN_FINDINGS.json.",
}
json.dump(m, open(os.path.join(here, "MANIFEST.json"), "w"), indent=1)
try:
    import jsonschema
    jsonschema.validate(m, json.load(open("/root/.vp/MANIFEST.schema.json")))
    print("MANIFEST.json valid:", len(checks), "checks,", len(na), "not applicable")
except ImportError:
    print("written (jsonschema not available for validation)")
