"""Abstract interpreter over the repo's syntax trees (values: constants, string shapes,
abstract objects).  Concrete where everything is constant, abstract otherwise.  Never
imports or runs repository code.  Part 1: values and expressions."""
from __future__ import annotations

import ast
import re
from dataclasses import dataclass, field
from typing import Any

from .pm import PM, FuncInfo, unparse as src
from .shapes import (EB, EPS, Alt, Flt, Int, Lit, Seq, Star, Txt, Unk, alt, factor, items_of, seq)


# ---------------------------------------------------------------- values
@dataclass
class VStr:
    sh: Any


@dataclass
class VList:          # list of strings; shape carries EB markers
    sh: Any


@dataclass
class VConst:         # None / bool / int / float / bytes
    v: Any


@dataclass
class VNum:
    kind: str         # 'int' | 'float' | 'num'
    src: str = ""


@dataclass
class VObj:
    cls: str
    fields: dict = field(default_factory=dict)


@dataclass
class VOpq:
    typ: str          # annotation-like text; '?…' when unknown
    src: str = ""


@dataclass
class VFun:
    node: Any
    env: dict
    fi: FuncInfo | None = None
    recv: Any = None


@dataclass
class VPartial:       # functools.partial(fn, *args, **kw)
    fn: Any
    args: list
    kw: dict


@dataclass
class VDict:
    d: dict


@dataclass
class VTuple:
    items: list
    is_list: bool = True


@dataclass
class VSeqObj:        # homogeneous sequence of abstract length
    elem: Any
    key: str = ""


@dataclass
class VCls:
    cls: str


class _NOC:
    def __repr__(self):
        return "NOC"


NOC = _NOC()


def pyconst(v) -> Any:
    if isinstance(v, str):
        return VStr(Lit(v))
    if isinstance(v, dict):
        return VDict({k: pyconst(x) for k, x in v.items()})
    if isinstance(v, (list, tuple)):
        return VTuple([pyconst(x) for x in v], is_list=isinstance(v, list))
    if isinstance(v, (set, frozenset)):
        return VTuple([pyconst(x) for x in sorted(v, key=repr)], is_list=True)
    return VConst(v)


def constof(v) -> Any:
    if isinstance(v, VConst):
        return v.v
    if isinstance(v, VStr):
        if isinstance(v.sh, Lit):
            return v.sh.s
        if v.sh == EPS:
            return ""
        return NOC
    if isinstance(v, VDict):
        out = {}
        for k, x in v.d.items():
            c = constof(x)
            if c is NOC:
                return NOC
            out[k] = c
        return out
    if isinstance(v, VTuple):
        xs = [constof(x) for x in v.items]
        if any(x is NOC for x in xs):
            return NOC
        return xs if v.is_list else tuple(xs)
    return NOC


SEQ_RE = re.compile(r"^(?:Sequence|MutableSequence|list|tuple|collections\.abc\.Sequence)\[(.*)\]$")


def strip_optional(t: str) -> tuple[str, bool]:
    """('X', optional?) for 'X | None' annotations (top-level split only)."""
    parts = split_union(t)
    opt = "None" in parts
    rest = [p for p in parts if p != "None"]
    return " | ".join(rest), opt


def split_union(t: str) -> list[str]:
    out, depth, cur = [], 0, ""
    for ch in t:
        if ch in "[(":
            depth += 1
        elif ch in "])":
            depth -= 1
        if ch == "|" and depth == 0:
            out.append(cur.strip())
            cur = ""
        else:
            cur += ch
    if cur.strip():
        out.append(cur.strip())
    return out


class Gap(Exception):
    """construct outside the interpreter's subset on a must-analyse path"""


class Interp:
    """One interpreter instance per analysis; `gaps` collects unsupported constructs met."""

    SANITISER = "TextContent._convert_special_chars"

    def __init__(self, pm: PM, sanitiser_axiom: bool = True, duck: dict | None = None):
        self.pm = pm
        self.stack: list[str] = []
        self.gaps: list[tuple] = []
        self.sanitiser_axiom = sanitiser_axiom
        self.duck = duck or {}
        self.calls_seen: set[str] = set()
        self.hooks: dict[str, Any] = {}       # short func name -> callable(interp, fi, recv, args, kw, node) -> value
        self.depth_limit = 40
        self.enter_numeric = False   # interpret bodies of '-> int/float' functions?

    # ---- helpers ----------------------------------------------------------
    def gap(self, kind: str, what: str, text: str = "") -> None:
        self.gaps.append((kind, what, text[:80]))

    def classes_in(self, typ: str) -> list[str]:
        return [t for t in re.findall(r"[A-Za-z_][A-Za-z_0-9]*", typ) if t in self.pm.classes]

    def from_ann(self, ann: str, s: str) -> Any:
        a = ann.replace(" ", "").strip("'\"")
        base, opt = strip_optional(a)
        if not opt:
            if a == "int":
                return VNum("int", s)
            if a == "float":
                return VNum("float", s)
            if a == "str":
                return VStr(Txt("raw", s))
        return VOpq(ann, s)

    def to_shape(self, v, why: str = "") -> Any:
        if isinstance(v, VStr):
            return v.sh
        if isinstance(v, VConst):
            if v.v is None:
                return Unk("None formatted into string: " + why)
            if isinstance(v.v, bool):
                return Lit(str(v.v))
            if isinstance(v.v, int):
                return Lit(str(v.v))
            if isinstance(v.v, float):
                return Flt(repr(v.v))
            return Lit(str(v.v))
        if isinstance(v, VNum):
            return Int(v.src or why) if v.kind == "int" else Flt(v.src or why)
        if isinstance(v, VOpq):
            t = v.typ.replace(" ", "")
            if t == "int":
                return Int(why)
            if t == "float":
                return Flt(why)
            parts = split_union(t)
            if parts and all(p in ("int", "bool") for p in parts):
                return Int(why)
            if parts and all(p in ("int", "float", "bool") for p in parts):
                return Flt(why)
            if t.startswith("str"):
                return Txt("raw", v.src or why)
            if parts and "None" in parts and all(p in ("int", "None") for p in parts):
                return alt(Int(why), Lit("None"))
            return Unk("opaque value (%s) formatted into string: %s" % (v.typ, why))
        if isinstance(v, VList):
            return v.sh
        return Unk("value %s formatted into string: %s" % (type(v).__name__, why))

    def truth(self, v) -> bool | None:
        if isinstance(v, VConst):
            return bool(v.v)
        if isinstance(v, VStr):
            if isinstance(v.sh, Lit):
                return bool(v.sh.s)
            if v.sh == EPS:
                return False
            return None
        if isinstance(v, (VObj, VFun, VCls, VPartial)):
            return True
        if isinstance(v, VTuple):
            return bool(v.items)
        if isinstance(v, VDict):
            return bool(v.d)
        return None

    # ---- expressions ------------------------------------------------------
    def ev(self, n, env) -> Any:
        meth = getattr(self, "ev_" + type(n).__name__, None)
        if meth is None:
            self.gap("expr", type(n).__name__, src(n))
            return VOpq("?expr")
        return meth(n, env)

    def ev_Constant(self, n, env):
        return pyconst(n.value)

    def ev_JoinedStr(self, n, env):
        parts = []
        for v in n.values:
            if isinstance(v, ast.Constant):
                parts.append(Lit(str(v.value)))
            else:
                val = self.ev(v.value, env)
                if v.conversion == 114:   # !r
                    parts.append(Txt("raw", "repr(%s)" % src(v.value)))
                else:
                    parts.append(self.to_shape(val, src(v.value)))
        return VStr(seq(*parts))

    def ev_FormattedValue(self, n, env):
        return VStr(self.to_shape(self.ev(n.value, env), src(n.value)))

    def ev_Name(self, n, env):
        if n.id in env:
            return env[n.id]
        if n.id in ("True", "False", "None"):
            return VConst({"True": True, "False": False, "None": None}[n.id])
        body = env.get("__classbody__")
        if body:
            ci = self.pm.classes.get(body)
            if ci is not None and (n.id in ci.class_assigns or (n.id in ci.fields and ci.fields[n.id].value is not None)):
                expr = ci.class_assigns.get(n.id) or ci.fields[n.id].value
                return self._ev_class_level(body, n.id, expr, ci.module)
        mod = env.get("__module__")
        if mod:
            r = self.pm.resolve(mod, n.id)
            if r:
                return self.resolved(r, n.id)
        return VOpq("?name:" + n.id)

    def resolved(self, r, name: str):
        kind, payload = r
        if kind == "class":
            return VCls(payload.name)
        if kind == "func":
            return VFun(payload.node, {"__module__": payload.module}, payload)
        if kind == "value":
            mi, expr = payload
            key = "value:%s.%s" % (mi.name, name)
            if key in self.stack:
                return VOpq("?recursive-const")
            self.stack.append(key)
            try:
                return self.ev(expr, {"__module__": mi.name})
            finally:
                self.stack.pop()
        if kind == "module":
            return VOpq("module:" + payload.name)
        return VOpq("ext:" + str(payload))

    def class_attr(self, cls: str, attr: str):
        for c in self.pm.mro(cls):
            ci = self.pm.classes.get(c)
            if ci is None:
                continue
            # class-level values are evaluated in the class body's scope: names bound earlier in the body are visible
            if attr in ci.class_assigns:
                return self._ev_class_level(c, attr, ci.class_assigns[attr], ci.module)
            if attr in ci.fields and ci.fields[attr].value is not None and self._is_class_constant(c, ci.fields[attr]):
                return self._ev_class_level(c, attr, ci.fields[attr].value, ci.module)
            if attr in ci.methods:
                fi = ci.methods[attr]
                return VFun(fi.node, {"__module__": fi.module}, fi, recv=VCls(cls))
            nested = f"{c}.{attr}"
            if nested in self.pm.classes:
                return VCls(nested)
        return None

    def _ev_class_level(self, cls: str, attr: str, expr, module: str):
        key = "classattr:%s.%s" % (cls, attr)
        if key in self.stack:
            return VOpq("?recursive-const")
        self.stack.append(key)
        try:
            return self.ev(expr, {"__module__": module, "__classbody__": cls})
        finally:
            self.stack.pop()

    def _is_class_constant(self, cls: str, decl) -> bool:
        """an annotated class-level assignment that is a constant of the class rather than a per-instance field:
        ClassVar[...] anywhere, or any annotated assignment in a class that is not a pydantic model / dataclass /
        NamedTuple (there the annotation declares an instance field with a default)"""
        if "ClassVar" in src(decl.annotation):
            return True
        if self.pm.is_pydantic(cls):
            return False
        ci = self.pm.classes[cls]
        if any("dataclass" in src(d) for d in ci.node.decorator_list):
            return False
        if any(b.split(".")[-1] in ("NamedTuple", "TypedDict", "Enum") for b in self.pm.mro(cls)):
            return False
        return True

    def _assigned_on_instance(self, cls: str, attr: str) -> bool:
        """some method of the class (or a base) stores to self.<attr>"""
        key = (cls, attr)
        cache = self.__dict__.setdefault("_inst_assign_cache", {})
        if key not in cache:
            hit = False
            for c in self.pm.mro(cls):
                ci = self.pm.classes.get(c)
                if ci is None:
                    continue
                for fi in ci.methods.values():
                    for x in ast.walk(fi.node):
                        if isinstance(x, ast.Attribute) and x.attr == attr and isinstance(x.ctx, ast.Store) \
                                and isinstance(x.value, ast.Name) and x.value.id in ("self", "cls"):
                            hit = True
            cache[key] = hit
        return cache[key]

    def ev_Attribute(self, n, env):
        base = self.ev(n.value, env)
        s = src(n)
        if isinstance(base, VCls):
            if n.attr in ("model_fields", "__annotations__", "__fields__") and base.cls in self.pm.classes and self.pm.is_pydantic(base.cls) \
                    and self.class_attr(base.cls, n.attr) is None:
                # the declared fields of a pydantic model, in declaration order (a finite table defined by the source)
                return VDict({k: VOpq("FieldInfo", base.cls + "." + k) for k in self.pm.all_fields(base.cls)
                              if not k.startswith("model_") and "ClassVar" not in src(self.pm.all_fields(base.cls)[k].annotation)})
            r = self.class_attr(base.cls, n.attr)
            if r is not None:
                return r
            return VOpq("?classattr:" + s)
        if isinstance(base, VObj):
            if n.attr in base.fields:
                return base.fields[n.attr]
            decl = self.pm.field_decl(base.cls, n.attr)
            if decl is not None and decl.value is not None and not self._assigned_on_instance(base.cls, n.attr):
                for c in self.pm.mro(base.cls):
                    ci = self.pm.classes.get(c)
                    if ci is not None and ci.fields.get(n.attr) is decl and self._is_class_constant(c, decl):
                        return self._ev_class_level(c, n.attr, decl.value, ci.module)
            ann = self.pm.field_ann(base.cls, n.attr)
            if ann:
                return self.from_ann(ann, s)
            fi = self.pm.find_method(base.cls, n.attr)
            if fi:
                return VFun(fi.node, {"__module__": fi.module}, fi, recv=base)
            r = self.class_attr(base.cls, n.attr)
            if r is not None:
                return r
            return VOpq("?attr:" + base.cls + "." + n.attr, s)
        if isinstance(base, VOpq):
            if base.typ.startswith("module:"):
                r = self.pm.resolve(base.typ[7:], n.attr)
                if r:
                    return self.resolved(r, n.attr)
                return VOpq("?modattr:" + s)
            for c in self.classes_in(base.typ):
                ann = self.pm.field_ann(c, n.attr)
                if ann:
                    return self.from_ann(ann, s)
            for c in self.classes_in(base.typ):
                fi = self.pm.find_method(c, n.attr)
                if fi:
                    return VFun(fi.node, {"__module__": fi.module}, fi, recv=base)
            if n.attr in ("shape",):
                return VTuple([VNum("int", s + "[0]"), VNum("int", s + "[1]")], is_list=False)
            if n.attr in ("height", "width") and "DataFrame" in base.typ:
                return VNum("int", s)
            return VOpq("?attr", s)
        if isinstance(base, VOpq) and base.typ == "ext:re" and n.attr.isupper():
            import re as _re
            if isinstance(getattr(_re, n.attr, None), int):
                return VConst(getattr(_re, n.attr))
        if isinstance(base, VConst) and type(base.v).__name__ == "Pattern" and n.attr in ("pattern", "flags"):
            return pyconst(getattr(base.v, n.attr))
        if isinstance(base, VDict) and n.attr in ("items", "keys", "values", "get", "update", "copy"):
            return VOpq("?dictmethod")
        return VOpq("?attr", s)

    def ev_BinOp(self, n, env):
        l = self.ev(n.left, env)
        r = self.ev(n.right, env)
        lc, rc = constof(l), constof(r)
        if lc is not NOC and rc is not NOC:
            try:
                val = _binop(n.op, lc, rc)
                if val is not NOC:
                    return pyconst(val)
            except Exception:
                pass
        if isinstance(n.op, ast.Add):
            if isinstance(l, VStr) or isinstance(r, VStr):
                return VStr(seq(self.to_shape(l, src(n.left)), self.to_shape(r, src(n.right))))
            if isinstance(l, (VList, VTuple)) and isinstance(r, (VList, VTuple)):
                if isinstance(l, VTuple) and isinstance(r, VTuple):
                    return VTuple(l.items + r.items, l.is_list)
                return VList(seq(self.list_shape(l), self.list_shape(r)))
        if isinstance(n.op, ast.Mult):
            for a, b, bn in ((l, r, n.right), (r, l, n.left)):
                if isinstance(a, VTuple) and isinstance(b, (VNum, VOpq)):
                    if len(a.items) == 1:
                        return VSeqObj(a.items[0], src(bn))
                    return VOpq("?list*n")
                if isinstance(a, VList):
                    return VList(Star(a.sh, src(bn)))
        if isinstance(n.op, ast.Mod) and isinstance(l, VStr):
            return VStr(Unk("%-formatting " + src(n)))
        kinds = [_numkind(x) for x in (l, r)]
        if isinstance(n.op, ast.Div):
            return VNum("float", src(n))
        if all(k == "int" for k in kinds):
            return VNum("int", src(n))
        if "float" in kinds and all(k in ("int", "float") for k in kinds):
            return VNum("float", src(n))
        return VNum("num", src(n))

    def ev_UnaryOp(self, n, env):
        v = self.ev(n.operand, env)
        if isinstance(n.op, ast.Not):
            t = self.truth(v)
            return VConst(not t) if t is not None else VOpq("bool")
        c = constof(v)
        if c is not NOC and isinstance(c, (int, float)):
            return VConst(-c if isinstance(n.op, ast.USub) else c)
        return v

    def ev_BoolOp(self, n, env):
        vals = []
        for e in n.values:
            v = self.ev(e, env)
            t = self.truth(v)
            vals.append((v, t))
            if isinstance(n.op, ast.And) and t is False:
                return v if len(vals) == 1 or all(x[1] is True for x in vals[:-1]) else VOpq("bool")
            if isinstance(n.op, ast.Or) and t is True:
                if all(x[1] is False for x in vals[:-1]):
                    return v
                r = vals[0][0]
                for x, _ in vals[1:]:
                    r = self.join_val(r, x)
                return r
        if all(t is not None for _, t in vals):
            return vals[-1][0]
        if isinstance(n.op, ast.Or):
            cands = [v for v, t in vals if t is not False]
            r = cands[0]
            for x in cands[1:]:
                r = self.join_val(r, x)
            return r
        # And with unknowns: result is last value or a falsy earlier one
        return self.join_val(vals[-1][0], VOpq("bool")) if isinstance(vals[-1][0], VOpq) else VOpq("bool")

    def ev_Compare(self, n, env):
        if len(n.ops) == 1:
            l = self.ev(n.left, env)
            r = self.ev(n.comparators[0], env)
            lc, rc = constof(l), constof(r)
            op = n.ops[0]
            if lc is not NOC and rc is not NOC:
                try:
                    return VConst(_cmp(op, lc, rc))
                except Exception:
                    pass
            if isinstance(op, (ast.Is, ast.IsNot)) and rc is None:
                if isinstance(l, (VObj, VStr, VList, VNum, VTuple, VDict, VSeqObj, VFun, VCls)):
                    return VConst(isinstance(op, ast.IsNot))
                if isinstance(l, VOpq) and not l.typ.startswith("?") and l.typ not in ("bool",):
                    t = l.typ.replace(" ", "")
                    if "None" not in t and "Any" not in t and "Optional" not in t:
                        return VConst(isinstance(op, ast.IsNot))
            if isinstance(op, (ast.In, ast.NotIn)) and isinstance(r, VDict) and lc is not NOC:
                return VConst((lc in r.d) == isinstance(op, ast.In))
        return VOpq("bool")

    def ev_IfExp(self, n, env):
        t = self.truth(self.ev(n.test, env))
        if t is True:
            return self.ev(n.body, env)
        if t is False:
            return self.ev(n.orelse, env)
        return self.join_val(self.ev(n.body, env), self.ev(n.orelse, env))

    def join_val(self, a, b):
        if a is b:
            return a
        if isinstance(a, VSeqObj) and isinstance(b, VTuple) and not b.items:
            return a
        if isinstance(b, VSeqObj) and isinstance(a, VTuple) and not a.items:
            return b
        if isinstance(a, VSeqObj) and isinstance(b, VSeqObj):
            return VSeqObj(self.join_val(a.elem, b.elem), a.key)
        if isinstance(a, VStr) and isinstance(b, VStr):
            return VStr(factor(a.sh, b.sh))
        if isinstance(a, (VList, VTuple)) and isinstance(b, (VList, VTuple)) and \
                (isinstance(a, VList) or isinstance(b, VList) or self.is_strlist(a) or self.is_strlist(b)):
            if isinstance(a, VTuple) and isinstance(b, VTuple) and constof(a) is not NOC and constof(a) == constof(b):
                return a
            return VList(factor(self.list_shape(a), self.list_shape(b)))
        if isinstance(a, VTuple) and isinstance(b, VTuple) and len(a.items) == len(b.items):
            return VTuple([self.join_val(x, y) for x, y in zip(a.items, b.items)], a.is_list)
        if isinstance(a, VNum) and isinstance(b, VNum):
            return VNum(a.kind if a.kind == b.kind else "num", a.src)
        if isinstance(a, VConst) and isinstance(b, VConst):
            if a.v == b.v and type(a.v) is type(b.v):
                return a
            if isinstance(a.v, bool) and isinstance(b.v, bool):
                return VOpq("bool")
            if isinstance(a.v, int) and isinstance(b.v, int):
                return VNum("int")
        if isinstance(a, VNum) and isinstance(b, VConst) and isinstance(b.v, (int, float)) and not isinstance(b.v, bool):
            return VNum(a.kind if (a.kind == "int") == isinstance(b.v, int) else "num", a.src)
        if isinstance(b, VNum) and isinstance(a, VConst):
            return self.join_val(b, a)
        if isinstance(a, VObj) and isinstance(b, VObj) and a.cls == b.cls:
            return VObj(a.cls, {k: self.join_val(a.fields[k], b.fields[k]) for k in a.fields if k in b.fields})
        if isinstance(a, VOpq) and isinstance(b, VOpq) and a.typ == b.typ:
            return a
        if isinstance(a, VStr) and isinstance(b, VConst) and b.v is None:
            return VOpq("str | None", "joined")
        if isinstance(b, VStr) and isinstance(a, VConst) and a.v is None:
            return VOpq("str | None", "joined")
        ta = self.typename(a)
        tb = self.typename(b)
        if ta == tb:
            return a if isinstance(a, VOpq) else VOpq(ta)
        parts = []
        for p in split_union(ta) + split_union(tb):
            if p not in parts:
                parts.append(p)
        return VOpq(" | ".join(parts))

    def typename(self, v) -> str:
        if isinstance(v, VOpq):
            return v.typ
        if isinstance(v, VObj):
            return v.cls
        if isinstance(v, VConst):
            return "None" if v.v is None else type(v.v).__name__
        if isinstance(v, VStr):
            return "str"
        if isinstance(v, VNum):
            return v.kind if v.kind != "num" else "float"
        if isinstance(v, (VList,)):
            return "list[str]"
        return "?" + type(v).__name__

    def is_strlist(self, v) -> bool:
        return isinstance(v, VTuple) and v.is_list and bool(v.items) and all(isinstance(x, VStr) for x in v.items)

    def ev_List(self, n, env):
        # a display is a concatenation of segments: plain elements and spliced (*x) sequences.
        # All-concrete -> VTuple; otherwise the segments are joined in the list-of-strings domain
        # (VList) or, for sequences of objects, in the homogeneous-sequence domain (VSeqObj).
        segs: list = []          # ('one', value, node) | ('many', value, node)
        for e in n.elts:
            if isinstance(e, ast.Starred):
                v = self.ev(e.value, env)
                if isinstance(v, VTuple):
                    segs.extend(("one", x, e.value) for x in v.items)
                else:
                    segs.append(("many", v, e.value))
            else:
                segs.append(("one", self.ev(e, env), e))
        return self.concat_segments(segs, n, is_list=isinstance(n, ast.List))

    def concat_segments(self, segs, n, is_list: bool = True):
        """value of a sequence assembled from single elements ('one', v, node) and spliced sequences ('many', v, node)"""
        segs = [x for (k, v, nd) in segs for x in ([("one", i, nd) for i in v.items] if k == "many" and isinstance(v, VTuple) else [(k, v, nd)])]
        if all(k == "one" for k, _, _ in segs):
            return VTuple([v for _, v, _ in segs], is_list=is_list)
        many = [v for k, v, _ in segs if k == "many"]
        if all(isinstance(v, VSeqObj) and not isinstance(v.elem, (VStr, VNum)) for v in many) and \
                not any(k == "one" and isinstance(v, VStr) for k, v, _ in segs):
            elems = [v.elem if k == "many" else v for k, v, _ in segs]
            return VSeqObj(self._join_all(elems), many[0].key)
        def strseq(v) -> bool:
            if isinstance(v, (VList, VSeqObj)):
                return True
            if isinstance(v, VOpq):
                m = SEQ_RE.match(strip_optional(v.typ.replace(" ", ""))[0] or "")
                return bool(m and m.group(1) == "str")
            return False
        if all(strseq(v) for v in many):
            parts = []
            for k, v, node in segs:
                if k == "one":
                    parts.append(self.to_shape(v, src(node)))
                    parts.append(EB())
                else:
                    parts.append(self.list_shape(v, src(node)))
            return VList(seq(*parts))
        return VOpq("?starred-list", src(n))

    ev_Tuple = ev_List

    def ev_Set(self, n, env):
        return VTuple([self.ev(e, env) for e in n.elts], is_list=True)

    def ev_Dict(self, n, env):
        d = {}
        for k, v in zip(n.keys, n.values):
            if k is None:
                inner = self.ev(v, env)
                if isinstance(inner, VDict):
                    d.update(inner.d)
                    continue
                return VOpq("?dict-splat")
            kc = constof(self.ev(k, env))
            if kc is NOC:
                return VOpq("?dict-nonconst-key")
            d[kc] = self.ev(v, env)
        return VDict(d)

    def ev_Subscript(self, n, env):
        base = self.ev(n.value, env)
        rec = self.record_items(base)
        if rec is not None:
            base = VTuple(rec, is_list=False)
        if isinstance(n.slice, ast.Slice):
            bc = constof(base)
            if bc is not NOC:
                lo = constof(self.ev(n.slice.lower, env)) if n.slice.lower else None
                hi = constof(self.ev(n.slice.upper, env)) if n.slice.upper else None
                st = constof(self.ev(n.slice.step, env)) if n.slice.step else None
                if NOC not in (lo, hi, st):
                    try:
                        return pyconst(bc[lo:hi:st])
                    except Exception:
                        pass
            if isinstance(base, VStr):
                return VStr(Txt("raw", "slice of " + src(n.value))) if not _is_hex(base) else VStr(Txt("hex", src(n)))
            if isinstance(base, (VSeqObj, VList)):
                return base
            if isinstance(base, VTuple):
                return VSeqObj(self._join_all(base.items), src(n)) if base.items else base
            return VOpq(base.typ if isinstance(base, VOpq) else "?slice", src(n))
        k = constof(self.ev(n.slice, env))
        if isinstance(base, VDict):
            if k is not NOC and k in base.d:
                return base.d[k]
            vals = list(base.d.values())
            if vals and all(isinstance(v, VStr) for v in vals):
                return VStr(alt(*[v.sh for v in vals]))
            if vals:
                return self._join_all(vals)
            return VOpq("?dictval")
        if isinstance(base, VTuple):
            if isinstance(k, int) and not isinstance(k, bool) and -len(base.items) <= k < len(base.items):
                return base.items[k]
            if base.items:
                return self._join_all(base.items)
            return VOpq("?empty-index")
        if isinstance(base, VSeqObj):
            return base.elem
        if isinstance(base, VStr):
            bc = constof(base)
            if bc is not NOC and isinstance(k, int):
                try:
                    return pyconst(bc[k])
                except Exception:
                    pass
            return VStr(Txt("raw", "char of " + src(n.value)))
        if isinstance(base, VList):
            return VStr(Unk("index into list of strings " + src(n)))
        if isinstance(base, VOpq):
            t, _ = strip_optional(base.typ.replace(" ", ""))
            m = SEQ_RE.match(t)
            if m:
                inner = m.group(1).split(",")[0] if t.startswith("tuple") else m.group(1)
                return self.from_ann(inner, src(n))
            return VOpq("?sub", src(n))
        return VOpq("?sub", src(n))

    def record_items(self, v):
        """field values, in declaration order, of a NamedTuple-like record object (None if v is not one)"""
        if isinstance(v, VObj) and v.cls in self.pm.classes and \
                any(b.split(".")[-1] == "NamedTuple" for b in self.pm.mro(v.cls)):
            names = list(self.pm.all_fields(v.cls))
            if names and all(k in v.fields for k in names):
                return [v.fields[k] for k in names]
        return None

    def _join_all(self, vals):
        if len(vals) > 8 and all(isinstance(v, VStr) for v in vals):
            return VStr(alt(*[v.sh for v in vals]))
        r = vals[0]
        for x in vals[1:]:
            r = self.join_val(r, x)
        return r

    def ev_Lambda(self, n, env):
        return VFun(n, dict(env), None)

    def ev_NamedExpr(self, n, env):
        v = self.ev(n.value, env)
        env[n.target.id] = v
        return v

    def ev_Starred(self, n, env):
        return self.ev(n.value, env)

    def ev_Slice(self, n, env):
        return VOpq("slice")

    # ---- iteration --------------------------------------------------------
    def iter_elem(self, itv, itnode):
        """('concrete', [values]) or ('abstract', element value)"""
        if isinstance(itv, VTuple):
            return ("concrete", itv.items)
        if isinstance(itv, VSeqObj):
            return ("abstract", itv.elem)
        if isinstance(itv, VList):
            return ("abstract", VStr(Unk("iterating a list of built strings")))
        if isinstance(itv, VStr):
            c = constof(itv)
            if c is not NOC and len(c) <= 64:
                return ("concrete", [pyconst(ch) for ch in c])
            return ("abstract", VStr(Txt("char", "char of " + src(itnode))))
        if isinstance(itv, VDict):
            return ("concrete", [pyconst(k) for k in itv.d])
        if isinstance(itv, VOpq):
            t, _ = strip_optional(itv.typ.replace(" ", ""))
            m = SEQ_RE.match(t)
            if m:
                return ("abstract", self.from_ann(m.group(1), "elem of " + src(itnode)))
            if t == "range":
                return ("abstract", VNum("int", "index"))
        return ("abstract", VOpq("?elem", "elem of " + src(itnode)))

    def ev_comp(self, n, env, elt, kind="list"):
        return self._comp(n, 0, dict(env), elt, kind)

    def _comp(self, n, gi, env, elt, kind):
        g = n.generators[gi]
        last = gi == len(n.generators) - 1
        itv = self.ev(g.iter, env)
        ik, el = self.iter_elem(itv, g.iter)
        if ik == "concrete" and len(el) <= 4096:
            out = []
            abstract_filter = False
            for e in el:
                env2 = dict(env)
                self.bind(g.target, e, env2)
                keep, maybe = True, False
                for c in g.ifs:
                    t = self.truth(self.ev(c, env2))
                    if t is False:
                        keep = False
                        break
                    if t is None:
                        maybe = True
                if not keep:
                    continue
                if last:
                    if kind == "dict":
                        if maybe:
                            return VOpq("?dictcomp-undecided-filter", src(n))
                        k = constof(self.ev(elt[0], env2))
                        if k is NOC:
                            return VOpq("?dictcomp")
                        v = self.ev(elt[1], env2)
                        out.append((k, v))
                        continue
                    v = self.ev(elt, env2)
                else:
                    v = self._comp(n, gi + 1, env2, elt, kind)
                    if isinstance(v, VTuple):
                        out.extend(v.items)
                        continue
                    return VOpq("?nested-comp")
                if maybe:
                    abstract_filter = True
                    out.append(("maybe", v))
                else:
                    out.append(v)
            if kind == "dict":
                return VDict(dict(out))
            if abstract_filter:
                parts = []
                for x in out:
                    if isinstance(x, tuple):
                        parts.append(alt(seq(self.to_shape(x[1], src(elt)), EB()), EPS))
                    else:
                        parts.append(seq(self.to_shape(x, src(elt)), EB()))
                return VList(seq(*parts))
            return VTuple(out, is_list=True)
        if isinstance(itv, VList) and last and kind != "dict" and isinstance(g.target, ast.Name) \
                and isinstance(elt, ast.Name) and elt.id == g.target.id \
                and all(_is_presence_test(c, g.target.id) for c in g.ifs):
            return itv      # dropping empty/None elements does not change the concatenation
        if not last or kind == "dict":
            if kind == "dict":
                return VOpq("dict", src(n))
            return VOpq("?multi-gen-comp", src(n))
        env2 = dict(env)
        self.bind(g.target, el, env2)
        v = self.ev(elt, env2)
        if isinstance(v, VStr):
            body = self.to_shape(v, src(elt))
            if g.ifs:
                return VList(Star(alt(seq(body, EB()), EPS), src(g.iter) + " if …"))
            return VList(Star(seq(body, EB()), src(g.iter)))
        if isinstance(v, VList):
            return VList(Star(v.sh, src(g.iter)))
        return VSeqObj(v, src(g.iter) + (" if …" if g.ifs else ""))

    def ev_ListComp(self, n, env):
        return self.ev_comp(n, env, n.elt)

    def ev_GeneratorExp(self, n, env):
        return self.ev_comp(n, env, n.elt)

    def ev_SetComp(self, n, env):
        return self.ev_comp(n, env, n.elt)

    def ev_DictComp(self, n, env):
        return self.ev_comp(n, env, (n.key, n.value), kind="dict")

    # ---- binding ----------------------------------------------------------
    def bind(self, target, val, env) -> None:
        if isinstance(target, ast.Name):
            env[target.id] = val
        elif isinstance(target, (ast.Tuple, ast.List)):
            rec = self.record_items(val)
            if rec is not None:
                val = VTuple(rec, is_list=False)
            if isinstance(val, VTuple) and len(val.items) == len(target.elts):
                for t, v in zip(target.elts, val.items):
                    self.bind(t, v, env)
            else:
                for t in target.elts:
                    self.bind(t, VOpq("?unpack", src(target)), env)
        elif isinstance(target, ast.Attribute):
            base = self.ev(target.value, env)
            if isinstance(base, VObj):
                base.fields[target.attr] = val
        elif isinstance(target, ast.Subscript):
            base = self.ev(target.value, env)
            k = constof(self.ev(target.slice, env)) if not isinstance(target.slice, ast.Slice) else NOC
            if isinstance(base, VDict) and k is not NOC:
                base.d[k] = val
            elif isinstance(base, VTuple) and isinstance(k, int) and -len(base.items) <= k < len(base.items):
                base.items[k] = val

    def list_shape(self, v, why: str = ""):
        if isinstance(v, VList):
            return v.sh
        if isinstance(v, VTuple):
            parts = []
            for x in v.items:
                parts.append(self.to_shape(x, why))
                parts.append(EB())
            return seq(*parts)
        if isinstance(v, VSeqObj):
            if isinstance(v.elem, (VStr, VNum)):
                return Star(seq(self.to_shape(v.elem, why), EB()), v.key or why)
            return Unk("sequence of non-strings used as list of strings: " + why)
        if isinstance(v, VOpq):
            t, opt = strip_optional(v.typ.replace(" ", ""))
            m = SEQ_RE.match(t)
            if m and m.group(1) == "str":
                body = Star(seq(Txt("raw", v.src or why), EB()), v.src or why)
                return alt(body, Unk("None used as list: " + why)) if opt else body
            return Unk("opaque (%s) used as list of strings: %s" % (v.typ, why))
        if isinstance(v, VConst) and v.v is None:
            return Unk("None used as list of strings: " + why)
        return Unk("not a list: %s %s" % (type(v).__name__, why))

    def join(self, sepv, lv, why):
        sep = constof(sepv)
        if sep is NOC or not isinstance(sep, str):
            return VStr(Unk("join with non-constant separator " + why))
        sh = self.list_shape(lv, why)
        return VStr(_join_shape(sh, sep))


def _is_presence_test(c, name: str) -> bool:
    if isinstance(c, ast.Name) and c.id == name:
        return True
    if isinstance(c, ast.Compare) and isinstance(c.left, ast.Name) and c.left.id == name and len(c.ops) == 1 \
            and isinstance(c.ops[0], ast.IsNot) and isinstance(c.comparators[0], ast.Constant) \
            and c.comparators[0].value is None:
        return True
    return False


def _is_hex(v) -> bool:
    return isinstance(v, VStr) and isinstance(v.sh, Txt) and v.sh.kind == "hex"


def _join_shape(sh, sep: str):
    """shape of sep.join(list) for a list shape with EB markers (exact for the forms we build)."""
    its = items_of(sh)
    # concrete list: e1 EB e2 EB ... -> e1 sep e2 ...
    out = []
    n = len(its)
    # a single Star(body+EB): zero or more elements
    def elem_join(star: Star):
        b = items_of(star.body)
        if b and isinstance(b[-1], EB):
            core = seq(*b[:-1])
            return alt(EPS, seq(core, Star(seq(Lit(sep), core), star.key)))
        # body is Alt(elem EB | eps) (filtered comprehension) or nested list shapes
        return Star(_replace_eb(star.body, sep, trailing=True), star.key)
    if n == 1 and isinstance(its[0], Star):
        return elem_join(its[0])
    # general: replace EB by sep except a final one; optional/star parts keep a trailing sep
    # and we compensate by treating 'sep' placement approximately (sound for brace/lexical folds
    # because sep itself is a constant literal).
    last_eb = max((i for i, x in enumerate(its) if isinstance(x, EB)), default=-1)
    for i, x in enumerate(its):
        if isinstance(x, EB):
            if i != last_eb or i != n - 1:
                out.append(Lit(sep))
        else:
            out.append(_replace_eb(x, sep, trailing=(i < n - 1)))
    return seq(*out)


def _replace_eb(sh, sep: str, trailing: bool):
    if isinstance(sh, EB):
        return Lit(sep)
    if isinstance(sh, Seq):
        return seq(*[_replace_eb(x, sep, trailing) for x in sh.items])
    if isinstance(sh, Alt):
        return alt(*[_replace_eb(x, sep, trailing) for x in sh.items])
    if isinstance(sh, Star):
        return Star(_replace_eb(sh.body, sep, trailing), sh.key)
    return sh


def _numkind(x) -> str:
    if isinstance(x, VNum):
        return x.kind
    if isinstance(x, VConst):
        if isinstance(x.v, bool):
            return "int"
        if isinstance(x.v, int):
            return "int"
        if isinstance(x.v, float):
            return "float"
    if isinstance(x, VOpq) and x.typ.replace(" ", "") in ("int", "float"):
        return x.typ.strip()
    return "num"


def _binop(op, a, b):
    if isinstance(op, ast.Add):
        return a + b
    if isinstance(op, ast.Sub):
        return a - b
    if isinstance(op, ast.Mult):
        if isinstance(a, (list, str, tuple)) and isinstance(b, int) and b > 100000:
            return NOC
        return a * b
    if isinstance(op, ast.Div):
        return a / b
    if isinstance(op, ast.FloorDiv):
        return a // b
    if isinstance(op, ast.Mod):
        if isinstance(a, str):
            return NOC
        return a % b
    if isinstance(op, ast.Pow):
        return a ** b if abs(b) < 64 else NOC
    if isinstance(op, ast.BitOr):
        return a | b
    if isinstance(op, ast.BitAnd):
        return a & b
    return NOC


def _cmp(op, a, b):
    if isinstance(op, ast.Eq):
        return a == b
    if isinstance(op, ast.NotEq):
        return a != b
    if isinstance(op, ast.Is):
        return a is b or (a == b and isinstance(a, (bool, type(None))))
    if isinstance(op, ast.IsNot):
        return not (a is b or (a == b and isinstance(a, (bool, type(None)))))
    if isinstance(op, ast.In):
        return a in b
    if isinstance(op, ast.NotIn):
        return a not in b
    if isinstance(op, ast.Lt):
        return a < b
    if isinstance(op, ast.LtE):
        return a <= b
    if isinstance(op, ast.Gt):
        return a > b
    if isinstance(op, ast.GtE):
        return a >= b
    raise ValueError(op)
