"""Program model: parsed modules, classes, functions, imports, simple type facts.

Nothing from the analysed repository is imported or executed; everything is read
from the syntax trees of ``<root>/src/rtflite/**/*.py``.
"""
from __future__ import annotations

import ast
import pathlib
from dataclasses import dataclass, field
from typing import Any, Iterator


class AnalysisError(Exception):
    """The analysis cannot be carried out (anchor vanished, construct outside subset)."""


@dataclass
class FuncInfo:
    short: str            # 'Class.method', 'func', 'Class.method.<locals>.inner'
    module: str           # dotted module name
    node: ast.AST         # FunctionDef / AsyncFunctionDef / Lambda
    cls: str | None       # owning class short name (None for module-level)
    decorators: list[str]
    path: str             # file path relative to repo root
    parent: "FuncInfo | None" = None

    @property
    def name(self) -> str:
        return self.node.name if hasattr(self.node, "name") else "<lambda>"

    @property
    def is_static(self) -> bool:
        return "staticmethod" in self.decorators

    @property
    def is_classmethod(self) -> bool:
        return "classmethod" in self.decorators or any(
            d.startswith("field_validator") for d in self.decorators
        )

    def where(self, node: ast.AST | None = None) -> str:
        n = node if node is not None else self.node
        return f"{self.path}:{getattr(n, 'lineno', 0)}"

    def validator_fields(self) -> tuple[list[str], str] | None:
        """([fields], mode) if decorated with field_validator(...)."""
        for d in self.node.decorator_list:
            if isinstance(d, ast.Call) and _dotted(d.func).endswith("field_validator"):
                flds = [a.value for a in d.args if isinstance(a, ast.Constant)]
                mode = "after"
                for k in d.keywords:
                    if k.arg == "mode" and isinstance(k.value, ast.Constant):
                        mode = k.value.value
                return flds, mode
        return None

    def model_validator_mode(self) -> str | None:
        for d in self.node.decorator_list:
            if isinstance(d, ast.Call) and _dotted(d.func).endswith("model_validator"):
                for k in d.keywords:
                    if k.arg == "mode" and isinstance(k.value, ast.Constant):
                        return k.value.value
                return "after"
        return None


@dataclass
class ClassInfo:
    name: str
    module: str
    node: ast.ClassDef
    bases: list[str]
    path: str
    fields: dict[str, ast.AnnAssign] = field(default_factory=dict)
    class_assigns: dict[str, ast.AST] = field(default_factory=dict)
    methods: dict[str, FuncInfo] = field(default_factory=dict)


@dataclass
class ModuleInfo:
    name: str
    path: str             # relative to repo root
    tree: ast.Module
    src: str
    imports: dict[str, tuple[str, str | None]] = field(default_factory=dict)
    assigns: dict[str, ast.AST] = field(default_factory=dict)   # module-level NAME = value
    is_pkg: bool = False


def _dotted(n: ast.AST) -> str:
    if isinstance(n, ast.Name):
        return n.id
    if isinstance(n, ast.Attribute):
        return _dotted(n.value) + "." + n.attr
    if isinstance(n, ast.Call):
        return _dotted(n.func)
    return "?"


def dotted(n: ast.AST) -> str:
    return _dotted(n)


def unparse(n: ast.AST | None) -> str:
    if n is None:
        return ""
    try:
        return ast.unparse(n)
    except Exception:  # pragma: no cover
        return "?"


class PM:
    """Program model of one checkout of rtflite."""

    PKG = "rtflite"

    def __init__(self, root: str | pathlib.Path = "/repo"):
        self.root = pathlib.Path(root)
        self.src_root = self.root / "src" / self.PKG
        if not self.src_root.is_dir():
            raise AnalysisError(f"source root {self.src_root} not found")
        self.modules: dict[str, ModuleInfo] = {}
        self.classes: dict[str, ClassInfo] = {}
        self.funcs: dict[str, FuncInfo] = {}
        self.func_by_node: dict[int, FuncInfo] = {}
        self._load()

    # ------------------------------------------------------------------ loading
    def _load(self) -> None:
        for p in sorted(self.src_root.rglob("*.py")):
            rel = p.relative_to(self.src_root).with_suffix("")
            parts = list(rel.parts)
            is_pkg = parts[-1] == "__init__"
            if is_pkg:
                parts = parts[:-1]
            name = ".".join([self.PKG] + parts)
            src = p.read_text(encoding="utf-8")
            try:
                tree = ast.parse(src, filename=str(p))
            except SyntaxError as e:
                raise AnalysisError(f"cannot parse {p}: {e}") from e
            mi = ModuleInfo(name, str(p.relative_to(self.root)), tree, src, is_pkg=is_pkg)
            self.modules[name] = mi
        import os
        if os.environ.get("VERIF_NO_NORMALISE") != "1":
            from . import normalise
            self.normalise_report = normalise.normalise(self.modules, self.PKG)
        if os.environ.get("VERIF_NO_ALPHA") != "1":
            from . import alpha
            self.alpha_report = alpha.normalise(self.modules, self.PKG)
        for mi in self.modules.values():
            self._index_module(mi)

    def _index_module(self, mi: ModuleInfo) -> None:
        for n in ast.walk(mi.tree):
            for c in ast.iter_child_nodes(n):
                c._parent = n  # type: ignore[attr-defined]
        # imports anywhere in the module (function-level imports are common here)
        for n in ast.walk(mi.tree):
            if isinstance(n, ast.ImportFrom):
                base = self._resolve_from(mi, n)
                for a in n.names:
                    mi.imports.setdefault(a.asname or a.name, (base, a.name))
            elif isinstance(n, ast.Import):
                for a in n.names:
                    mi.imports.setdefault((a.asname or a.name).split(".")[0], (a.name, None))
        for n in mi.tree.body:
            if isinstance(n, ast.Assign) and len(n.targets) == 1 and isinstance(n.targets[0], ast.Name):
                mi.assigns[n.targets[0].id] = n.value
            elif isinstance(n, ast.AnnAssign) and isinstance(n.target, ast.Name) and n.value is not None:
                mi.assigns[n.target.id] = n.value
            elif isinstance(n, ast.ClassDef):
                self._index_class(mi, n, None)
            elif isinstance(n, (ast.FunctionDef, ast.AsyncFunctionDef)):
                self._index_func(mi, n, None, None, n.name)

    def _index_class(self, mi: ModuleInfo, n: ast.ClassDef, outer: str | None) -> None:
        cname = n.name if outer is None else f"{outer}.{n.name}"
        ci = ClassInfo(cname, mi.name, n, [_dotted(b) for b in n.bases], mi.path)
        self.classes[cname] = ci
        for b in n.body:
            if isinstance(b, ast.AnnAssign) and isinstance(b.target, ast.Name):
                ci.fields[b.target.id] = b
                if b.value is not None:
                    ci.class_assigns[b.target.id] = b.value
            elif isinstance(b, ast.Assign) and len(b.targets) == 1 and isinstance(b.targets[0], ast.Name):
                ci.class_assigns[b.targets[0].id] = b.value
            elif isinstance(b, (ast.FunctionDef, ast.AsyncFunctionDef)):
                fi = self._index_func(mi, b, cname, None, f"{cname}.{b.name}")
                ci.methods[b.name] = fi
            elif isinstance(b, ast.ClassDef):
                self._index_class(mi, b, cname)

    def _index_func(self, mi, n, cls, parent, short) -> FuncInfo:
        decos = [_dotted(d) for d in n.decorator_list]
        fi = FuncInfo(short, mi.name, n, cls, decos, mi.path, parent)
        # a later definition with the same short name (other module) gets a qualified key
        key = short if short not in self.funcs else f"{mi.name}:{short}"
        self.funcs[key] = fi
        self.func_by_node[id(n)] = fi
        for sub in ast.walk(n):
            if sub is n:
                continue
            if isinstance(sub, (ast.FunctionDef, ast.AsyncFunctionDef)) and self._owner_func(sub) is n:
                self._index_func(mi, sub, cls, fi, f"{short}.<locals>.{sub.name}")
        return fi

    @staticmethod
    def _owner_func(n: ast.AST):
        p = getattr(n, "_parent", None)
        while p is not None and not isinstance(p, (ast.FunctionDef, ast.AsyncFunctionDef, ast.Lambda)):
            p = getattr(p, "_parent", None)
        return p

    def _resolve_from(self, mi: ModuleInfo, n: ast.ImportFrom) -> str:
        if n.level == 0:
            return n.module or ""
        parts = mi.name.split(".")
        if not mi.is_pkg:
            parts = parts[:-1]
        if n.level > 1:
            parts = parts[: len(parts) - (n.level - 1)]
        if n.module:
            parts = parts + n.module.split(".")
        return ".".join(parts)

    # ------------------------------------------------------------------ lookup
    def func(self, short: str) -> FuncInfo:
        fi = self.funcs.get(short)
        if fi is None:
            raise AnalysisError(f"anchor function '{short}' not found in {self.src_root}")
        return fi

    def has_func(self, short: str) -> bool:
        return short in self.funcs

    def cls(self, name: str) -> ClassInfo:
        ci = self.classes.get(name)
        if ci is None:
            raise AnalysisError(f"anchor class '{name}' not found")
        return ci

    def module(self, name: str) -> ModuleInfo:
        mi = self.modules.get(name)
        if mi is None:
            raise AnalysisError(f"anchor module '{name}' not found")
        return mi

    def mro(self, cls: str) -> list[str]:
        """Linearisation good enough for this repo (left-to-right DFS, de-duplicated)."""
        out: list[str] = []

        def rec(c: str) -> None:
            if c in out:
                return
            out.append(c)
            ci = self.classes.get(c)
            if ci:
                for b in ci.bases:
                    rec(b.split(".")[-1] if b not in self.classes else b)

        rec(cls)
        return out

    def subclasses(self, cls: str) -> list[str]:
        return [c for c in self.classes if cls in self.mro(c)]

    def is_pydantic(self, cls: str) -> bool:
        return "BaseModel" in self.mro(cls)

    def find_method(self, cls: str, name: str) -> FuncInfo | None:
        for c in self.mro(cls):
            ci = self.classes.get(c)
            if ci and name in ci.methods:
                return ci.methods[name]
        return None

    def field_decl(self, cls: str, fld: str) -> ast.AnnAssign | None:
        for c in self.mro(cls):
            ci = self.classes.get(c)
            if ci and fld in ci.fields:
                return ci.fields[fld]
        return None

    def field_ann(self, cls: str, fld: str) -> str | None:
        d = self.field_decl(cls, fld)
        return unparse(d.annotation) if d is not None else None

    def all_fields(self, cls: str) -> dict[str, ast.AnnAssign]:
        out: dict[str, ast.AnnAssign] = {}
        for c in reversed(self.mro(cls)):
            ci = self.classes.get(c)
            if ci:
                out.update(ci.fields)
        return out

    def resolve(self, module: str, name: str, _depth: int = 0) -> tuple[str, Any] | None:
        """Resolve a bare name used in `module` to ('class', ClassInfo) | ('func', FuncInfo)
        | ('value', (ModuleInfo, ast expr)) | ('module', ModuleInfo) | ('ext', dotted)."""
        if _depth > 8:
            return None
        mi = self.modules.get(module)
        if mi is None:
            return None
        for ci in self.classes.values():
            if ci.module == module and ci.name == name:
                return ("class", ci)
        for fi in self.funcs.values():
            if fi.module == module and fi.short == name:
                return ("func", fi)
        if name in mi.assigns:
            return ("value", (mi, mi.assigns[name]))
        if name in mi.imports:
            base, attr = mi.imports[name]
            if attr is None:
                if base in self.modules:
                    return ("module", self.modules[base])
                return ("ext", base)
            sub = f"{base}.{attr}"
            if sub in self.modules:
                return ("module", self.modules[sub])
            if base in self.modules:
                r = self.resolve(base, attr, _depth + 1)
                if r is not None:
                    return r
                return None
            return ("ext", f"{base}.{attr}")
        return None

    def iter_funcs(self) -> Iterator[FuncInfo]:
        return iter(self.funcs.values())

    def owner(self, node: ast.AST) -> FuncInfo | None:
        p = self._owner_func(node)
        while p is not None and id(p) not in self.func_by_node:
            p = self._owner_func(p)
        return self.func_by_node.get(id(p)) if p is not None else None

    def module_of_path(self, path: str) -> ModuleInfo | None:
        for mi in self.modules.values():
            if mi.path == path:
                return mi
        return None


# ---------------------------------------------------------------------- helpers
def walk_no_nested(node: ast.AST) -> Iterator[ast.AST]:
    """ast.walk that does not descend into nested function/class definitions."""
    stack = list(reversed(list(ast.iter_child_nodes(node))))
    while stack:
        n = stack.pop()
        yield n
        if isinstance(n, (ast.FunctionDef, ast.AsyncFunctionDef, ast.ClassDef, ast.Lambda)):
            continue
        stack.extend(reversed(list(ast.iter_child_nodes(n))))      # source (pre-)order


def calls_in(node: ast.AST, nested: bool = True) -> list[ast.Call]:
    it = ast.walk(node) if nested else walk_no_nested(node)
    return sorted((n for n in it if isinstance(n, ast.Call)), key=lambda c: (c.lineno, c.col_offset))


def parent(n: ast.AST) -> ast.AST | None:
    return getattr(n, "_parent", None)


def ancestors(n: ast.AST) -> Iterator[ast.AST]:
    p = parent(n)
    while p is not None:
        yield p
        p = parent(p)


def in_loop(n: ast.AST, stop: ast.AST | None = None) -> bool:
    for a in ancestors(n):
        if a is stop:
            return False
        if isinstance(a, (ast.For, ast.While, ast.ListComp, ast.GeneratorExp, ast.SetComp, ast.DictComp)):
            return True
        if isinstance(a, (ast.FunctionDef, ast.AsyncFunctionDef, ast.Lambda)):
            return False
    return False
