"""Thorough tier, part 2: replay of the committed change corpora against the tree under analysis.

  /verif/benign/<name>/patch.diff   behaviour-preserving maintenance changes (each confirmed by an equivalence script
                                    and the test-suite, see benign/<name>/meta.json): the check must not report a
                                    violation on any of them (an analysis gap, exit 2, is tolerated and counted)
  /verif/seeded/<name>/patch.diff   changes that break the property named in meta.json: the property's own check must
                                    report a violation

Every patch is applied to a scratch copy of the CURRENT tree (a patch that no longer applies is skipped and listed);
the rules then run on the patched copy exactly as the quick tier does.  Nothing is executed from the repository.
"""
from __future__ import annotations

import json
import os
import pathlib
import shutil
import subprocess
import sys
import tempfile
from concurrent.futures import ProcessPoolExecutor

from .pm import AnalysisError

HERE = pathlib.Path(__file__).resolve().parent.parent


def _job(args):
    kind, name, prop, root = args
    d = HERE / kind / name
    tmp = tempfile.mkdtemp(prefix="verif-corpus-")
    try:
        tree = pathlib.Path(tmp) / "tree"
        (tree / "src").mkdir(parents=True)
        shutil.copytree(pathlib.Path(root) / "src" / "rtflite", tree / "src" / "rtflite",
                        ignore=shutil.ignore_patterns("__pycache__", "*.ttf", "*.otf", "fonts"))
        r = subprocess.run(["git", "apply", "--whitespace=nowarn", "--include=src/*", str(d / "patch.diff")], cwd=str(tree), capture_output=True, text=True)
        if r.returncode != 0:
            return {"kind": kind, "name": name, "status": "skipped", "why": "patch does not apply to this tree"}
        ev = os.path.join(tmp, "ev")
        c = subprocess.run([sys.executable, "-m", "sa.run", prop, "--root", str(tree), "--evidence-dir", ev, "--tier", "quick"], cwd=str(HERE),
                           capture_output=True, text=True, env={**os.environ, "PYTHONDONTWRITEBYTECODE": "1", "VERIF_TIER": "quick"})
        try:
            cov = json.load(open(os.path.join(ev, prop + ".json")))["coverage"]
        except Exception:
            cov = {}
        keys = list(cov.get("new_violations", [])) + list(cov.get("known_findings_matched", []))
        return {"kind": kind, "name": name, "status": "ran", "rc": c.returncode, "keys": keys}
    finally:
        shutil.rmtree(tmp, ignore_errors=True)


def run(ctx) -> None:
    prop = ctx.prop
    root = str(ctx.pm.root)
    base = {f.key for f in ctx.findings}
    jobs = []
    for d in sorted((HERE / "benign").glob("*/patch.diff")):
        try:
            bmeta = json.loads((d.parent / "meta.json").read_text())
        except Exception:
            bmeta = {}
        if prop in (bmeta.get("replay_excluded_for") or {}):
            ctx.instance("CORPUS", f"benign/{d.parent.name}", f"excluded from the replay for {prop}: {bmeta['replay_excluded_for'][prop]}", nontrivial=False)
            continue
        jobs.append(("benign", d.parent.name, prop, root))
    for d in sorted((HERE / "seeded").glob("*/meta.json")):
        try:
            meta = json.loads(d.read_text())
        except Exception:
            continue
        if meta.get("breaks_property") == prop and meta.get("valid_on_head", True) is not False and not meta.get("known_undetected"):
            jobs.append(("seeded", d.parent.name, prop, root))
    if not jobs:
        return
    with ProcessPoolExecutor(max_workers=min(16, len(jobs))) as ex:
        results = list(ex.map(_job, jobs))
    stats = {"benign": 0, "benign_silent": 0, "benign_gap": 0, "benign_skipped": 0, "seeded": 0, "seeded_detected": 0, "seeded_skipped": 0}
    false_alarms, lost = [], []
    for r in results:
        k = r["kind"]
        if r["status"] == "skipped":
            stats[k + "_skipped"] += 1
            ctx.instance("CORPUS", f"{k}/{r['name']}", f"skipped: {r['why']}", nontrivial=False)
            continue
        stats[k] += 1
        new = sorted(set(r["keys"]) - base)
        if k == "benign":
            if r["rc"] == 1 and new:
                false_alarms.append((r["name"], new[:2]))
                ctx.instance("CORPUS", f"benign/{r['name']}", f"FALSE ALARM on a behaviour-preserving change: {new[:2]}")
            elif r["rc"] == 2:
                stats["benign_gap"] += 1
                ctx.instance("CORPUS", f"benign/{r['name']}", "behaviour-preserving change: analysis gap (exit 2), no violation reported")
            else:
                stats["benign_silent"] += 1
                ctx.instance("CORPUS", f"benign/{r['name']}", "behaviour-preserving change: silent")
        else:
            if r["rc"] == 1 and new:
                stats["seeded_detected"] += 1
                ctx.instance("CORPUS", f"seeded/{r['name']}", f"property-breaking change detected by {sorted({x.split('|')[0] for x in new})}")
            else:
                lost.append((r["name"], r["rc"]))
                ctx.instance("CORPUS", f"seeded/{r['name']}", f"property-breaking change NOT detected (exit {r['rc']})")
    ctx.extra["corpus"] = stats
    if false_alarms:
        raise AnalysisError(f"corpus replay: {len(false_alarms)} behaviour-preserving change(s) raise a violation of {prop}: {false_alarms[:3]}")
    if lost:
        raise AnalysisError(f"corpus replay: {len(lost)} property-breaking change(s) of {prop} are no longer detected: {lost[:3]}")
