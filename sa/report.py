"""Findings, rule-instance bookkeeping, known-findings file, evidence writer."""
from __future__ import annotations

import hashlib
import json
import os
import pathlib
import re
import time
from dataclasses import dataclass, field
from typing import Any

from .pm import PM, AnalysisError

VERIF = pathlib.Path(__file__).resolve().parent.parent
KNOWN = VERIF / "KNOWN_FINDINGS.json"
EVIDENCE_DIR = VERIF / "evidence"


def norm(text: str) -> str:
    """Normalise an expression/statement text for use in a finding key."""
    return re.sub(r"\s+", " ", text).strip()


@dataclass
class Finding:
    prop: str
    rule: str
    key: str          # narrow, stable key: rule|construct|normalised offending expression
    where: str        # file:line
    msg: str
    detail: dict = field(default_factory=dict)


@dataclass
class Instance:
    rule: str
    where: str
    desc: str
    nontrivial: bool = True


class Ctx:
    """One check run: program model + collected instances/findings."""

    def __init__(self, prop: str, pm: PM, tier: str = "quick", seed: int = 0):
        self.prop = prop
        self.pm = pm
        self.tier = tier
        self.seed = seed
        self.findings: list[Finding] = []
        self.instances: list[Instance] = []
        self.explanations: list[str] = []
        self.assumptions: list[str] = []
        self.not_decided: list[str] = []
        self.suppressions: list[dict] = []
        self.extra: dict[str, Any] = {}
        self.floors: dict[str, tuple[int, int]] = {}
        self.deferred_errors: list[str] = []
        self.t0 = time.time()

    # -- bookkeeping ------------------------------------------------------------
    def explain(self, text: str) -> None:
        self.explanations.append(text)

    def assume(self, text: str) -> None:
        if text not in self.assumptions:
            self.assumptions.append(text)

    def undecided(self, text: str) -> None:
        self.not_decided.append(text)

    def instance(self, rule: str, where: str, desc: str, nontrivial: bool = True) -> None:
        self.instances.append(Instance(rule, where, norm(desc)[:300], nontrivial))

    def violation(self, rule: str, construct: str, offending: str, where: str, msg: str, **detail) -> None:
        key = f"{rule}|{construct}|{norm(offending)[:200]}"
        if any(f.key == key for f in self.findings):
            return
        self.findings.append(Finding(self.prop, rule, key, where, msg, detail))

    def gap(self, rule: str, msg: str) -> None:
        """the construct a rule reasons about could not be re-identified: not evidence of a violation"""
        self.deferred_errors.append(f"rule {rule}: {msg}")

    def suppress(self, rule: str, construct: str, reason: str) -> None:
        self.suppressions.append({"rule": rule, "construct": construct, "reason": reason})

    def floor(self, rule: str, minimum: int) -> None:
        """Fail closed if fewer than `minimum` instances of `rule` were evaluated."""
        n = sum(1 for i in self.instances if i.rule == rule)
        self.floors[rule] = (n, minimum)
        if n < minimum:
            # deferred: a violation found elsewhere in the run takes precedence over this
            self.deferred_errors.append(
                f"rule {rule}: only {n} instance(s) matched, {minimum} confirmed by reading "
                "(anchor moved or pattern no longer recognised)"
            )


def load_known() -> list[dict]:
    if not KNOWN.exists():
        return []
    return json.loads(KNOWN.read_text())


def finish(ctx: Ctx, error: str | None = None) -> int:
    """Print verdict lines, write evidence, return exit code."""
    known = [k for k in load_known() if k.get("property") == ctx.prop]
    open_keys = {k["key"]: k for k in known if k.get("status", "open") == "open"}
    viol_dir = EVIDENCE_DIR / "violations"
    new: list[Finding] = []
    matched: list[Finding] = []
    for f in ctx.findings:
        if f.key in open_keys:
            matched.append(f)
        else:
            new.append(f)
    for f in matched:
        print(f"KNOWN-FINDING: property={ctx.prop} {f.rule} {f.where} {f.msg}")
    stale = [k for k in open_keys if not any(f.key == k for f in matched)]
    lines = []
    if error is None and ctx.deferred_errors and not new:
        error = "; ".join(ctx.deferred_errors)
    if error is not None and new:
        # something is demonstrably wrong in the analysed tree: report it rather than the analysis gap
        print(f"  (analysis incomplete: {error})")
        ctx.extra["analysis_incomplete"] = error
        error = None
    if error is None:
        viol_dir.mkdir(parents=True, exist_ok=True)
        for old in viol_dir.glob(f"{ctx.prop}-*.json"):
            old.unlink()
        for f in new:
            h = hashlib.sha1(f.key.encode()).hexdigest()[:10]
            p = viol_dir / f"{ctx.prop}-{h}.json"
            p.write_text(json.dumps({
                "property": f.prop, "rule": f.rule, "key": f.key, "where": f.where,
                "message": f.msg, "detail": f.detail,
                "root": str(ctx.pm.root),
            }, indent=1, default=str))
            print(f"  {f.rule} {f.where}: {f.msg}")
            lines.append(f"VIOLATION property={ctx.prop} replay={p}")
    for ln in lines:
        print(ln)
    # ---- evidence
    rules = sorted({i.rule for i in ctx.instances})
    distinct = len({(i.rule, i.where, i.desc) for i in ctx.instances if i.nontrivial})
    samples = []
    per_rule: dict[str, int] = {}
    for i in ctx.instances:
        per_rule[i.rule] = per_rule.get(i.rule, 0) + 1
        if per_rule[i.rule] <= 4:
            samples.append({"rule": i.rule, "where": i.where, "instance": i.desc})
    nr = getattr(ctx.pm, "normalise_report", None) or {}
    ar = getattr(ctx.pm, "alpha_report", None) or {}
    normalisation = {
        "constants_propagated": nr.get("constants", []),
        "parameters_specialised_to_default": nr.get("specialised_params", []),
        "helpers_inlined": nr.get("inlined", []),
        "helpers_not_inlined": nr.get("not_inlined", [])[:20],
        "helpers_dissolved": nr.get("dissolved", []),
        "functions_renamed_back": nr.get("renamed_functions", []),
        "locals_renamed_back": ar.get("renamed_names", 0),
        "parameters_renamed_back": ar.get("renamed_params", 0),
    }
    for sp in nr.get("specialised_params", []):
        if sp.endswith("[public]"):
            ctx.assume("new opt-in parameter analysed at its default value (no call site in the package passes it): " + sp)
    ev = {
        "property_id": ctx.prop,
        "tier": ctx.tier,
        "seed": ctx.seed,
        "level": "other",
        "coverage": {
            "explanation": " ".join(ctx.explanations) or "static rules over the syntax tree of src/rtflite",
            "evaluations": len(ctx.instances),
            "distinct_nontrivial": distinct,
            "rule": "one evaluation = one rule instance (a call site, guard, table row, path or "
                    "obligation found in the current source); distinct = distinct (rule, location, "
                    "normal form); non-trivial = involves at least one non-literal construct",
            "samples": samples[:60],
            "rules_applied": rules,
            "instances_per_rule": per_rule,
            "instance_floors": {r: {"found": a, "floor": b} for r, (a, b) in ctx.floors.items()},
            "modules_parsed": len(ctx.pm.modules),
            "functions_indexed": len(ctx.pm.funcs),
            "known_findings_matched": [f.key for f in matched],
            "known_findings_not_reproduced": stale,
            "new_violations": [f.key for f in new],
            "suppressions": ctx.suppressions,
            "not_decided": ctx.not_decided,
            "analysed_root": str(ctx.pm.root),
            "normalisation": normalisation,
            **ctx.extra,
        },
        "assumptions": ctx.assumptions,
        "wall_s": round(time.time() - ctx.t0, 3),
        "violations": len(new),
    }
    if error is not None:
        ev["coverage"]["analysis_error"] = error
    evp = EVIDENCE_DIR / f"{ctx.prop}.json"
    if os.environ.get("VERIF_NO_EVIDENCE") != "1":
        evp.parent.mkdir(parents=True, exist_ok=True)
        evp.write_text(json.dumps(ev, indent=1, default=str) + "\n")
    if error is not None:
        print(f"ANALYSIS-ERROR property={ctx.prop} {error}")
        return 2
    n_inst = len(ctx.instances)
    print(f"{ctx.prop}: {n_inst} rule instances over {len(rules)} rules; "
          f"{len(new)} violation(s), {len(matched)} known finding(s)"
          + (f", {len(stale)} listed finding(s) no longer reproduced" if stale else ""))
    return 1 if new else 0
