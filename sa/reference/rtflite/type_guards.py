"""Type guards for RTF components to handle Union types safely."""

from collections.abc import Sequence
from typing import Any, TypeGuard

from .input import RTFBody, RTFColumnHeader


def is_single_header(
    header: RTFColumnHeader | Sequence[RTFColumnHeader | None] | None,
) -> TypeGuard[RTFColumnHeader]:
    """Check if header is a single RTFColumnHeader instance."""
    return header is not None and not isinstance(header, (list, tuple))


def is_single_body(body: RTFBody | Sequence[RTFBody] | None) -> TypeGuard[RTFBody]:
    """Check if body is a single RTFBody instance."""
    return body is not None and not isinstance(body, (list, tuple))


def is_list_header(
    header: RTFColumnHeader | Sequence[RTFColumnHeader | None] | None,
) -> TypeGuard[Sequence[RTFColumnHeader | None]]:
    """Check if header is a sequence of RTFColumnHeader instances."""
    return isinstance(header, (list, tuple))


def is_list_body(
    body: RTFBody | Sequence[RTFBody] | None,
) -> TypeGuard[Sequence[RTFBody]]:
    """Check if body is a sequence of RTFBody instances."""
    return isinstance(body, (list, tuple))


def is_nested_header_list(
    header: Any,
) -> TypeGuard[list[list[RTFColumnHeader | None]]]:
    """Check if header is a nested list of RTFColumnHeader instances."""
    return isinstance(header, list) and len(header) > 0 and isinstance(header[0], list)


def is_flat_header_list(
    header: Any,
) -> TypeGuard[list[RTFColumnHeader | None]]:
    """Check if header is a flat list of RTFColumnHeader instances."""
    return isinstance(header, list) and (
        len(header) == 0 or not isinstance(header[0], list)
    )
