"""RTF Document Service - handles all document-level operations."""


class RTFDocumentService:
    """Service for handling RTF document operations including pagination and layout."""

    def __init__(self):
        from .encoding_service import RTFEncodingService

        self.encoding_service = RTFEncodingService()

    def get_pagination_strategy(self, document):
        """Get the appropriate pagination strategy for the document.

        Returns:
            PaginationStrategy instance
        """
        from ..pagination.strategies import StrategyRegistry

        # Determine strategy
        strategy_name = "default"
        if document.rtf_body.subline_by:
            strategy_name = "subline"
        elif document.rtf_body.page_by:
            strategy_name = "page_by"

        # Get strategy class
        strategy_cls = StrategyRegistry.get(strategy_name)
        return strategy_cls()

    def calculate_additional_rows_per_page(self, document) -> int:
        """Calculate additional rows needed per page for headers, footnotes, sources."""
        additional_rows = 0

        # Count subline_by header (appears on each page)
        if document.rtf_body.subline_by:
            additional_rows += 1  # Each subline_by header consumes 1 row

        # Count column headers (repeat on each page)
        if document.rtf_column_header:
            # Handle nested column headers for multi-section documents
            if isinstance(document.rtf_column_header[0], list):
                # Nested format: count all non-None headers across all sections
                for section_headers in document.rtf_column_header:
                    if section_headers:  # Skip [None] sections
                        for header in section_headers:
                            if header and header.text is not None:
                                additional_rows += 1
            else:
                # Flat format: original logic
                for header in document.rtf_column_header:
                    if header is not None and header.text is not None:
                        additional_rows += 1

        # Count footnote rows
        if document.rtf_footnote and document.rtf_footnote.text:
            additional_rows += 1

        # Count source rows
        if document.rtf_source and document.rtf_source.text:
            additional_rows += 1

        return additional_rows

    def generate_page_break(self, document) -> str:
        """Generate proper RTF page break sequence."""
        return self.encoding_service.encode_page_break(
            document.rtf_page,
            lambda: self.encoding_service.encode_page_margin(document.rtf_page),
        )
