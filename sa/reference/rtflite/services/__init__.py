"""RTF services module.

This module provides service classes that handle complex business logic
for RTF document generation, separating concerns from the main document class.
"""

from .encoding_service import RTFEncodingService
from .text_conversion_service import TextConversionService

__all__ = [
    "RTFEncodingService",
    "TextConversionService",
]
