"""
Text conversion service for the RTF encoding pipeline.

This service provides a clean interface for text conversion operations
within the RTF document generation process. It integrates the text
conversion functionality with the broader service architecture.
"""

from collections.abc import Mapping, Sequence

from ..text_conversion import LaTeXSymbolMapper, TextConverter


class TextConversionService:
    """
    Service for handling text conversion operations in RTF documents.

    This service provides a unified interface for text conversion that
    can be used throughout the RTF encoding pipeline. It handles the
    conversion of LaTeX commands to Unicode characters with proper
    error handling and logging capabilities.
    """

    def __init__(self):
        """Initialize the text conversion service."""
        self.converter = TextConverter()
        self.symbol_mapper = LaTeXSymbolMapper()

    def convert_text_content(
        self, text: str | Sequence[str] | None, enable_conversion: bool = True
    ) -> str | Sequence[str] | None:
        """
        Convert text content with LaTeX commands to Unicode.

        This method handles various text input formats commonly found
        in RTF components and applies conversion consistently.

        Args:
            text: Text content to convert (string, list of strings, or None)
            enable_conversion: Whether to enable LaTeX to Unicode conversion

        Returns:
            Converted text in the same format as input

        Examples:
            >>> service = TextConversionService()
            >>> service.convert_text_content("\\alpha test", True)
            "\\u03b1 test"

            >>> service.convert_text_content(["\\alpha", "\\beta"], True)
            ["\\u03b1", "\\u03b2"]
        """
        if not enable_conversion or text is None:
            return text

        if isinstance(text, str):
            return self._convert_single_text(text)
        elif isinstance(text, list):
            return self._convert_text_list(text)
        else:
            # Handle other types by converting to string first
            return self._convert_single_text(str(text))

    def _convert_single_text(self, text: str) -> str:
        """
        Convert a single text string.

        Args:
            text: Text string to convert

        Returns:
            Converted text string
        """
        if not text:
            return text

        try:
            return self.converter.convert_latex_to_unicode(text)
        except Exception as e:
            # Log the error but don't fail the conversion
            # In a production environment, this would use proper logging
            print(f"Warning: Text conversion failed for '{text}': {e}")
            return text

    def _convert_text_list(self, text_list: Sequence[str]) -> list[str]:
        """
        Convert a list of text strings.

        Args:
            text_list: List of text strings to convert

        Returns:
            List of converted text strings
        """
        return [self._convert_single_text(item) for item in text_list]

    def get_supported_symbols(self) -> Sequence[str]:
        """
        Get a list of all supported LaTeX symbols.

        Returns:
            List of supported LaTeX commands
        """
        return self.symbol_mapper.get_all_supported_commands()

    def get_symbol_categories(self) -> Mapping[str, Sequence[str]]:
        """
        Get LaTeX symbols organized by category.

        Returns:
            Dictionary mapping categories to symbol lists
        """
        return self.symbol_mapper.get_commands_by_category()

    def validate_latex_commands(self, text: str) -> Mapping[str, object]:
        """
        Validate LaTeX commands in text and provide feedback.

        This method analyzes text for LaTeX commands and reports
        which ones will be converted and which ones are unsupported.

        Args:
            text: Text to validate

        Returns:
            Dictionary with validation results
        """
        if not text:
            return {
                "valid_commands": [],
                "invalid_commands": [],
                "validation_status": "empty_text",
            }

        stats = self.converter.get_conversion_statistics(text)

        # Extract valid commands from the stats (need to capture the converted
        # commands themselves)
        import re

        latex_pattern = re.compile(r"\\[a-zA-Z]+(?:\{[^}]*\})?")
        all_commands = latex_pattern.findall(text)

        valid_commands = []
        for cmd in all_commands:
            if self.symbol_mapper.has_mapping(cmd):
                valid_commands.append(cmd)

        return {
            "valid_commands": valid_commands,
            "invalid_commands": stats.get("unconverted", []),
            "total_commands": stats.get("total_commands", 0),
            "conversion_rate": stats.get("conversion_rate", 0),
            "validation_status": "analyzed",
        }

    def convert_with_validation(
        self, text: str, enable_conversion: bool = True
    ) -> Mapping[str, object]:
        """
        Convert text and return both result and validation information.

        This method provides comprehensive information about the conversion
        process, useful for debugging and quality assurance.

        Args:
            text: Text to convert
            enable_conversion: Whether to enable conversion

        Returns:
            Dictionary with converted text and validation info
        """
        if not enable_conversion:
            return {
                "original_text": text,
                "converted_text": text,
                "conversion_enabled": False,
                "validation": {"status": "conversion_disabled"},
            }

        validation = self.validate_latex_commands(text)
        converted_text = self.convert_text_content(text, enable_conversion)

        return {
            "original_text": text,
            "converted_text": converted_text,
            "conversion_enabled": True,
            "validation": validation,
            "conversion_applied": converted_text != text,
        }
