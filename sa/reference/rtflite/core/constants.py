"""RTF constants and magic numbers consolidated in a single source of truth.

This module eliminates magic numbers scattered throughout the codebase and provides
clear documentation for all RTF-related constants used in the library.
"""

from collections.abc import Mapping
from typing import Final


class RTFConstants:
    """Core RTF constants for measurements, formatting, and control codes."""

    # === Measurement Constants ===
    TWIPS_PER_INCH: Final[int] = 1440
    """Number of twips in one inch. RTF uses twips as the base unit."""

    POINTS_PER_INCH: Final[int] = 72
    """Number of points in one inch."""

    LINE_SPACING_FACTOR: Final[int] = 240
    """Factor used for line spacing calculations in RTF."""

    # === Default Dimensions ===
    DEFAULT_BORDER_WIDTH: Final[int] = 15
    """Default border width in twips."""

    DEFAULT_CELL_HEIGHT: Final[float] = 0.15
    """Default cell height in inches."""

    DEFAULT_SPACE_BEFORE: Final[int] = 15
    """Default space before paragraph in points."""

    DEFAULT_SPACE_AFTER: Final[int] = 15
    """Default space after paragraph in points."""

    # === Font Sizes ===
    DEFAULT_FONT_SIZE: Final[float] = 9
    """Default font size in points."""

    # === RTF Control Codes ===
    class Control:
        """RTF control word constants."""

        # Text formatting
        SUPER: Final[str] = "\\super "
        SUB: Final[str] = "\\sub "
        LINE_BREAK: Final[str] = "\\line "
        PAGE_BREAK: Final[str] = "\\page"

        # Document structure
        RTF_HEADER: Final[str] = "{\\rtf1\\ansi"
        FONT_TABLE_START: Final[str] = "{\\fonttbl"
        COLOR_TABLE_START: Final[str] = "{\\colortbl"

        # Page formatting
        PAGE_NUMBER: Final[str] = "\\chpgn "
        TOTAL_PAGES: Final[str] = "\\totalpage "
        PAGE_FIELD: Final[str] = "{\\field{\\*\\fldinst NUMPAGES }} "

        # Paragraph formatting
        PARAGRAPH_START: Final[str] = "\\pard"
        CELL_END: Final[str] = "\\cell"
        ROW_END: Final[str] = "\\row"

    # === Format Codes ===
    FORMAT_CODES: Final[Mapping[str, str]] = {
        "": "",
        "b": "\\b",  # Bold
        "i": "\\i",  # Italic
        "u": "\\ul",  # Underline
        "s": "\\strike",  # Strikethrough
        "^": "\\super",  # Superscript
        "_": "\\sub",  # Subscript
    }

    # === Text Justification Codes ===
    TEXT_JUSTIFICATION_CODES: Final[Mapping[str, str]] = {
        "": "",
        "l": "\\ql",  # Left
        "c": "\\qc",  # Center
        "r": "\\qr",  # Right
        "d": "\\qd",  # Distributed
        "j": "\\qj",  # Justified
    }

    # === Row Justification Codes ===
    ROW_JUSTIFICATION_CODES: Final[Mapping[str, str]] = {
        "": "",
        "l": "\\trql",  # Left
        "c": "\\trqc",  # Center
        "r": "\\trqr",  # Right
    }

    # === Border Style Codes ===
    BORDER_CODES: Final[Mapping[str, str]] = {
        "single": "\\brdrs",
        "double": "\\brdrdb",
        "thick": "\\brdrth",
        "dotted": "\\brdrdot",
        "dashed": "\\brdrdash",
        "small-dash": "\\brdrdashsm",
        "dash-dotted": "\\brdrdashd",
        "dash-dot-dotted": "\\brdrdashdd",
        "triple": "\\brdrtriple",
        "wavy": "\\brdrwavy",
        "double-wavy": "\\brdrwavydb",
        "striped": "\\brdrengrave",
        "embossed": "\\brdremboss",
        "engraved": "\\brdrengrave",
        "frame": "\\brdrframe",
        "": "",  # No border
    }

    # === Vertical Alignment Codes ===
    VERTICAL_ALIGNMENT_CODES: Final[Mapping[str, str]] = {
        "top": "\\clvertalt",
        "center": "\\clvertalc",
        "bottom": "\\clvertalb",
        "merge_first": "\\clvertalc\\clvmgf",
        "merge_rest": "\\clvertalc\\clvmrg",
        "": "",
    }

    # === Character Conversion Mapping ===
    RTF_CHAR_MAPPING: Final[Mapping[str, str]] = {
        "^": "\\super ",
        "_": "\\sub ",
        ">=": "\\geq ",
        "<=": "\\leq ",
        "\n": "\\line ",
        "\\pagenumber": "\\chpgn ",
        "\\totalpage": "\\totalpage ",
        "\\pagefield": "{\\field{\\*\\fldinst NUMPAGES }} ",
    }


class RTFDefaults:
    """Default values for RTF document configuration."""

    # === Page Settings ===
    ORIENTATION: Final[str] = "portrait"
    BORDER_FIRST: Final[str] = "double"
    BORDER_LAST: Final[str] = "double"
    USE_COLOR: Final[bool] = False

    # === Text Settings ===
    TEXT_FONT: Final[int] = 1
    TEXT_ALIGNMENT: Final[str] = "l"  # Left
    TEXT_HYPHENATION: Final[bool] = True
    TEXT_CONVERT: Final[bool] = True  # Enable LaTeX to Unicode conversion

    # === Table Settings ===
    TABLE_ALIGNMENT: Final[str] = "c"  # Center

    # === Color Defaults ===
    @classmethod
    def get_default_colors(cls) -> Mapping[str, str]:
        """Get all colors from the comprehensive color table."""
        from rtflite.dictionary.color_table import name_to_rtf

        return name_to_rtf

    # Provide DEFAULT_COLORS as a cached property for backward compatibility
    _default_colors_cache = None

    @classmethod
    def DEFAULT_COLORS(cls) -> Mapping[str, str]:
        """Get all colors from the comprehensive color table (cached)."""
        if cls._default_colors_cache is None:
            cls._default_colors_cache = cls.get_default_colors()
        return cls._default_colors_cache


class RTFMeasurements:
    """Utility class for RTF measurement conversions."""

    @staticmethod
    def inch_to_twip(inches: float) -> int:
        """Convert inches to twips.

        Args:
            inches: Length in inches

        Returns:
            Length in twips (1/1440 of an inch)
        """
        return round(inches * RTFConstants.TWIPS_PER_INCH)

    @staticmethod
    def twip_to_inch(twips: int) -> float:
        """Convert twips to inches.

        Args:
            twips: Length in twips

        Returns:
            Length in inches
        """
        return twips / RTFConstants.TWIPS_PER_INCH

    @staticmethod
    def point_to_halfpoint(points: float) -> int:
        """Convert points to half-points for RTF font sizes.

        Args:
            points: Font size in points

        Returns:
            Font size in half-points (RTF format)
        """
        return int(points * 2)
