"""Core rtflite infrastructure and constants."""

from .config import RTFConfiguration
from .constants import RTFConstants, RTFDefaults

__all__ = ["RTFConstants", "RTFDefaults", "RTFConfiguration"]
