"""Configuration architecture for RTF document generation.

This module provides a centralized configuration system that replaces scattered
settings throughout the codebase with a hierarchical, type-safe approach.
"""

from dataclasses import dataclass

from .constants import RTFConstants, RTFDefaults


@dataclass(frozen=True)
class PageConfiguration:
    """Configuration for page layout and dimensions."""

    orientation: str = RTFDefaults.ORIENTATION
    width: float | None = None  # inches
    height: float | None = None  # inches
    margins: tuple[float, float, float, float, float, float] | None = (
        None  # left, right, top, bottom, header, footer
    )

    @classmethod
    def create_default(cls) -> "PageConfiguration":
        """Create default page configuration."""
        return cls()

    @classmethod
    def create_landscape(cls) -> "PageConfiguration":
        """Create landscape page configuration."""
        return cls(orientation="landscape")


@dataclass(frozen=True)
class FontConfiguration:
    """Configuration for font settings."""

    default_font: int = RTFDefaults.TEXT_FONT
    default_size: float = RTFConstants.DEFAULT_FONT_SIZE
    charset: int = 1  # Default charset for r2rtf compatibility

    @classmethod
    def create_default(cls) -> "FontConfiguration":
        """Create default font configuration."""
        return cls()


@dataclass(frozen=True)
class ColorConfiguration:
    """Configuration for color settings."""

    use_color: bool = RTFDefaults.USE_COLOR
    color_table: dict[str, str] | None = None

    def __post_init__(self):
        if self.color_table is None:
            object.__setattr__(self, "color_table", RTFDefaults.DEFAULT_COLORS())

    @classmethod
    def create_default(cls) -> "ColorConfiguration":
        """Create default color configuration."""
        return cls()


@dataclass(frozen=True)
class BorderConfiguration:
    """Configuration for border settings."""

    default_style: str = "single"
    default_width: int = RTFConstants.DEFAULT_BORDER_WIDTH
    first_row_style: str = RTFDefaults.BORDER_FIRST
    last_row_style: str = RTFDefaults.BORDER_LAST

    @classmethod
    def create_default(cls) -> "BorderConfiguration":
        """Create default border configuration."""
        return cls()


@dataclass(frozen=True)
class TextConfiguration:
    """Configuration for text formatting and conversion."""

    default_alignment: str = RTFDefaults.TEXT_ALIGNMENT
    enable_hyphenation: bool = RTFDefaults.TEXT_HYPHENATION
    enable_latex_conversion: bool = RTFDefaults.TEXT_CONVERT
    space_before: float = RTFConstants.DEFAULT_SPACE_BEFORE
    space_after: float = RTFConstants.DEFAULT_SPACE_AFTER

    @classmethod
    def create_default(cls) -> "TextConfiguration":
        """Create default text configuration."""
        return cls()


@dataclass(frozen=True)
class RTFConfiguration:
    """Master configuration container for RTF document generation."""

    page: PageConfiguration
    fonts: FontConfiguration
    colors: ColorConfiguration
    borders: BorderConfiguration
    text: TextConfiguration

    @classmethod
    def create_default(cls) -> "RTFConfiguration":
        """Create default RTF configuration."""
        return cls(
            page=PageConfiguration.create_default(),
            fonts=FontConfiguration.create_default(),
            colors=ColorConfiguration.create_default(),
            borders=BorderConfiguration.create_default(),
            text=TextConfiguration.create_default(),
        )

    @classmethod
    def create_pharmaceutical_standard(cls) -> "RTFConfiguration":
        """Create configuration optimized for pharmaceutical reporting."""
        return cls(
            page=PageConfiguration(orientation="portrait"),
            fonts=FontConfiguration(default_font=1, default_size=9),
            colors=ColorConfiguration(use_color=False),
            borders=BorderConfiguration(
                first_row_style="double",
                last_row_style="double",
                default_style="single",
            ),
            text=TextConfiguration(
                enable_latex_conversion=True,
                enable_hyphenation=True,
                default_alignment="l",
            ),
        )

    @classmethod
    def create_landscape(cls) -> "RTFConfiguration":
        """Create landscape-oriented configuration."""
        config = cls.create_default()
        return cls(
            page=PageConfiguration.create_landscape(),
            fonts=config.fonts,
            colors=config.colors,
            borders=config.borders,
            text=config.text,
        )
