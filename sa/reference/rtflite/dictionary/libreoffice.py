"""LibreOffice-related constants and configurations."""

# Default paths to search for LibreOffice executable by platform
DEFAULT_PATHS = {
    "Darwin": [
        "/opt/homebrew/bin/soffice",
        "/Applications/LibreOffice.app/Contents/MacOS/soffice",
    ],
    "Linux": [
        "/tmp/soffice",
        "/tmp/libreoffice",
        "/usr/bin/soffice",
        "/usr/bin/libreoffice",
        "/snap/bin/libreoffice",
        "/opt/libreoffice/program/soffice",
    ],
    "Windows": [
        r"C:\Program Files\LibreOffice\program\soffice.com",
        r"C:\Program Files (x86)\LibreOffice\program\soffice.com",
        r"C:\Program Files (x86)\LIBREO~1\program\soffice.com",
    ],
}

# Minimum required LibreOffice version
MIN_VERSION = "7.1"
