"""
Text conversion module for LaTeX to Unicode conversion.

This module provides functionality to convert LaTeX mathematical symbols
and commands to their Unicode equivalents, matching the behavior of the
r2rtf package.

The main entry point is the `convert_text` function which handles the
text_convert parameter found throughout RTF components.
"""

from .converter import TextConverter
from .symbols import LaTeXSymbolMapper


# Main public interface
def convert_text(text: str | None, enable_conversion: bool = True) -> str | None:
    """
    Convert LaTeX symbols in text to Unicode characters.

    This function provides the main text conversion interface used throughout
    the RTF encoding pipeline. It respects the enable_conversion flag to
    allow selective enabling/disabling of conversion.

    Args:
        text: Input text that may contain LaTeX commands
        enable_conversion: Whether to perform LaTeX to Unicode conversion

    Returns:
        Text with LaTeX commands converted to Unicode (if enabled)

    Examples:
        >>> convert_text("Area: \\pm 0.05", True)
        "Area: +/- 0.05"

        >>> convert_text("\\alpha + \\beta", False)
        "\\alpha + \\beta"
    """
    if not enable_conversion or not text:
        return text

    converter = TextConverter()
    return converter.convert_latex_to_unicode(text)


__all__ = [
    "convert_text",
    "TextConverter",
    "LaTeXSymbolMapper",
]
