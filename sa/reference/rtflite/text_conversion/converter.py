"""
Text conversion engine for LaTeX to Unicode conversion.

This module implements the core conversion logic that processes text containing
LaTeX commands and converts them to Unicode characters. It focuses on
readability and maintainability rather than performance.
"""

import re
from re import Pattern

from .symbols import LaTeXSymbolMapper


class TextConverter:
    """
    Converts LaTeX commands in text to Unicode characters.

    This class handles the parsing and conversion of LaTeX mathematical
    commands within text strings. It's designed for clarity and ease of
    maintenance rather than maximum performance.
    """

    def __init__(self):
        """Initialize the converter with symbol mapping."""
        self.symbol_mapper = LaTeXSymbolMapper()
        self._latex_pattern = self._create_latex_pattern()

    def _create_latex_pattern(self) -> Pattern[str]:
        """
        Create the regular expression pattern for matching LaTeX commands.

        This pattern matches:
        - Simple commands: \\alpha, \\beta, \\pm
        - Commands with braces: \\mathbb{R}, \\mathcal{L}
        - Commands with optional parameters (future extension)

        Returns:
            Compiled regular expression pattern
        """
        # Pattern explanation:
        # \\           - Literal backslash (escaped)
        # [a-zA-Z]+    - One or more letters (command name)
        # (?:          - Non-capturing group for optional braces
        #   \{[^}]*\}  - Opening brace, any content except }, closing brace
        # )?           - Make the brace group optional
        pattern = r"\\[a-zA-Z]+(?:\{[^}]*\})?"
        return re.compile(pattern)

    def convert_latex_to_unicode(self, text: str) -> str:
        """
        Convert all LaTeX commands in text to Unicode characters.

        This method processes the input text and replaces any LaTeX commands
        with their Unicode equivalents. Commands without mappings are left
        unchanged.

        Args:
            text: Input text potentially containing LaTeX commands

        Returns:
            Text with LaTeX commands converted to Unicode

        Examples:
            >>> converter = TextConverter()
            >>> converter.convert_latex_to_unicode("\\alpha + \\beta = \\gamma")
            "alpha + beta = gamma"

            >>> converter.convert_latex_to_unicode("Mean \\pm SD")
            "Mean +/- SD"

            >>> converter.convert_latex_to_unicode("Set \\mathbb{R}")
            "Set R"
        """
        if not text:
            return text

        def replace_latex_command(match) -> str:
            """Replace a single LaTeX command match with Unicode."""
            latex_command = match.group(0)
            return self._convert_single_command(latex_command)

        # Apply the conversion to all matches
        converted_text = self._latex_pattern.sub(replace_latex_command, text)
        return converted_text

    def _convert_single_command(self, latex_command: str) -> str:
        """
        Convert a single LaTeX command to Unicode.

        This method handles the conversion logic for individual commands,
        including special cases for commands with braces.

        Args:
            latex_command: The LaTeX command to convert

        Returns:
            Unicode character or original command if no mapping exists
        """
        # Handle commands with braces (e.g., \\mathbb{R})
        if "{" in latex_command and "}" in latex_command:
            return self._handle_braced_command(latex_command)

        # Handle simple commands (e.g., \\alpha, \\pm)
        return self.symbol_mapper.get_unicode_char(latex_command)

    def _handle_braced_command(self, latex_command: str) -> str:
        """
        Handle LaTeX commands that contain braces.

        Commands like \\mathbb{R} or \\mathcal{L} need special handling
        to extract the argument and look up the full command.

        Args:
            latex_command: LaTeX command with braces

        Returns:
            Unicode character or original command
        """
        # Try the full command as-is first (for exact matches)
        unicode_result = self.symbol_mapper.get_unicode_char(latex_command)
        if unicode_result != latex_command:  # Found a mapping
            return unicode_result

        # If no exact match, we could implement more sophisticated parsing
        # For now, return the original command
        return latex_command

    def get_conversion_statistics(self, text: str) -> dict:
        """
        Get statistics about LaTeX commands in the text.

        This is useful for debugging and understanding conversion coverage.

        Args:
            text: Text to analyze

        Returns:
            Dictionary with conversion statistics
        """
        if not text:
            return {"total_commands": 0, "converted": 0, "unconverted": []}

        matches = self._latex_pattern.findall(text)
        converted = []
        unconverted = []

        for command in matches:
            if self.symbol_mapper.has_mapping(command):
                converted.append(command)
            else:
                unconverted.append(command)

        return {
            "total_commands": len(matches),
            "converted": len(converted),
            "unconverted": unconverted,
            "conversion_rate": len(converted) / len(matches) if matches else 0,
        }
