"""
LaTeX symbol mapping functionality.

This module provides a clean interface for mapping LaTeX commands to Unicode
characters. It organizes the symbols into logical categories for better
maintainability and readability.
"""

from collections.abc import Mapping, Sequence

from ..dictionary.unicode_latex import latex_to_char, latex_to_unicode, unicode_to_int


class LaTeXSymbolMapper:
    """
    Manages LaTeX to Unicode symbol mappings.

    This class provides a clean interface for converting individual LaTeX
    commands to their Unicode equivalents. It encapsulates the symbol
    lookup logic and provides helpful methods for symbol management.
    """

    def __init__(self):
        """Initialize the symbol mapper with the standard LaTeX mappings."""
        self.latex_to_unicode = latex_to_unicode
        self.unicode_to_int = unicode_to_int
        self.latex_to_char = latex_to_char  # Optimized single-lookup mapping

    def get_unicode_char(self, latex_command: str) -> str:
        """
        Convert a single LaTeX command to its Unicode character.

        Args:
            latex_command: LaTeX command (e.g., "\\alpha", "\\pm", "\\mathbb{R}")

        Returns:
            Unicode character if the command is found, otherwise the original command

        Examples:
            >>> mapper = LaTeXSymbolMapper()
            >>> mapper.get_unicode_char("\\alpha")
            "alpha"
            >>> mapper.get_unicode_char("\\pm")
            "+/-"
            >>> mapper.get_unicode_char("\\unknown")
            "\\unknown"
        """
        # Optimized: single dictionary lookup instead of double lookup
        return self.latex_to_char.get(latex_command, latex_command)

    def has_mapping(self, latex_command: str) -> bool:
        """
        Check if a LaTeX command has a Unicode mapping.

        Args:
            latex_command: LaTeX command to check

        Returns:
            True if the command has a mapping, False otherwise
        """
        # Optimized: use the single-lookup dictionary for consistency
        return latex_command in self.latex_to_char

    def get_all_supported_commands(self) -> Sequence[str]:
        """
        Get a list of all supported LaTeX commands.

        Returns:
            List of all LaTeX commands that can be converted
        """
        # Optimized: use the single-lookup dictionary
        return list(self.latex_to_char.keys())

    def get_commands_by_category(self) -> Mapping[str, Sequence[str]]:
        """
        Organize LaTeX commands by category for better understanding.

        Returns:
            Dictionary mapping categories to lists of commands
        """
        # Optimized categorization with pre-defined sets for O(1) lookup
        greek_letters = {
            "\\alpha",
            "\\beta",
            "\\gamma",
            "\\delta",
            "\\epsilon",
            "\\varepsilon",
            "\\zeta",
            "\\eta",
            "\\theta",
            "\\vartheta",
            "\\iota",
            "\\kappa",
            "\\varkappa",
            "\\lambda",
            "\\mu",
            "\\nu",
            "\\xi",
            "\\pi",
            "\\varpi",
            "\\rho",
            "\\varrho",
            "\\sigma",
            "\\varsigma",
            "\\tau",
            "\\upsilon",
            "\\phi",
            "\\varphi",
            "\\chi",
            "\\psi",
            "\\omega",
            "\\Gamma",
            "\\Delta",
            "\\Theta",
            "\\Lambda",
            "\\Xi",
            "\\Pi",
            "\\Sigma",
            "\\Upsilon",
            "\\Phi",
            "\\Psi",
            "\\Omega",
        }

        operators = {
            "\\pm",
            "\\mp",
            "\\times",
            "\\div",
            "\\cdot",
            "\\sum",
            "\\prod",
            "\\int",
            "\\oint",
            "\\partial",
            "\\nabla",
            "\\infty",
            "\\propto",
            "\\approx",
            "\\equiv",
            "\\neq",
            "\\leq",
            "\\geq",
            "\\ll",
            "\\gg",
            "\\subset",
            "\\supset",
            "\\in",
            "\\notin",
            "\\cup",
            "\\cap",
            "\\setminus",
            "\\oplus",
            "\\otimes",
        }

        accents = {
            "\\hat",
            "\\bar",
            "\\dot",
            "\\ddot",
            "\\dddot",
            "\\ddddot",
            "\\tilde",
            "\\grave",
            "\\acute",
            "\\check",
            "\\breve",
            "\\vec",
            "\\overline",
            "\\underline",
        }

        categories: dict[str, list[str]] = {
            "Greek Letters": [],
            "Mathematical Operators": [],
            "Blackboard Bold": [],
            "Accents": [],
            "Other": [],
        }

        # Optimized: use single dictionary and set lookups
        for command in self.latex_to_char:
            if command in greek_letters:
                categories["Greek Letters"].append(command)
            elif command in operators:
                categories["Mathematical Operators"].append(command)
            elif "\\mathbb{" in command:
                categories["Blackboard Bold"].append(command)
            elif command in accents:
                categories["Accents"].append(command)
            else:
                categories["Other"].append(command)

        return categories
