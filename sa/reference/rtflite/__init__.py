"""rtflite: A Python library for creating RTF documents."""

from .assemble import assemble_docx, assemble_rtf, concatenate_docx
from .attributes import TableAttributes
from .convert import LibreOfficeConverter
from .core.config import RTFConfiguration
from .core.constants import RTFConstants
from .encode import RTFDocument
from .encoding import RTFEncodingEngine
from .input import (
    RTFBody,
    RTFColumnHeader,
    RTFFigure,
    RTFFootnote,
    RTFPage,
    RTFPageFooter,
    RTFPageHeader,
    RTFSource,
    RTFSubline,
    RTFTitle,
)
from .pagination import PageBreakCalculator, RTFPagination
from .strwidth import get_string_width

__version__ = "0.0.1"

__all__ = [
    "RTFDocument",
    "RTFEncodingEngine",
    "RTFConfiguration",
    "RTFConstants",
    "RTFBody",
    "RTFPage",
    "RTFTitle",
    "RTFColumnHeader",
    "RTFFootnote",
    "RTFSource",
    "RTFFigure",
    "RTFPageHeader",
    "RTFPageFooter",
    "RTFSubline",
    "TableAttributes",
    "RTFPagination",
    "PageBreakCalculator",
    "get_string_width",
    "LibreOfficeConverter",
    "assemble_rtf",
    "assemble_docx",
    "concatenate_docx",
]
