from .core import PageBreakCalculator, RTFPagination
from .strategies import (
    PageContext,
    PaginationContext,
    PaginationStrategy,
    StrategyRegistry,
)

__all__ = [
    "PageBreakCalculator",
    "RTFPagination",
    "PageContext",
    "PaginationContext",
    "PaginationStrategy",
    "StrategyRegistry",
]
