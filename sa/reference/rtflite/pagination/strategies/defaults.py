from typing import cast

from ..core import PageBreakCalculator, RTFPagination
from .base import PageContext, PaginationContext, PaginationStrategy


class DefaultPaginationStrategy(PaginationStrategy):
    """Default pagination strategy based on row counts and page size."""

    def paginate(self, context: PaginationContext) -> list[PageContext]:
        # Initialize calculator
        assert context.rtf_page.width is not None
        assert context.rtf_page.height is not None
        assert context.rtf_page.margin is not None
        assert context.rtf_page.nrow is not None
        assert context.rtf_page.orientation is not None

        pagination_config = RTFPagination(
            page_width=context.rtf_page.width,
            page_height=context.rtf_page.height,
            margin=context.rtf_page.margin,
            nrow=context.rtf_page.nrow,
            orientation=context.rtf_page.orientation,
        )
        calculator = PageBreakCalculator(pagination=pagination_config)

        # Calculate metadata
        metadata = calculator.calculate_row_metadata(
            df=context.df,
            col_widths=context.col_widths,
            table_attrs=context.table_attrs,
            removed_column_indices=context.removed_column_indices,
            additional_rows_per_page=context.additional_rows_per_page,
        )

        # Create PageContext objects
        pages = []
        import polars as pl

        # Get unique pages and sort them
        unique_pages = metadata["page"].unique().sort()
        total_pages = len(unique_pages)

        for page_num in unique_pages:
            # Filter metadata for this page
            page_rows = metadata.filter(pl.col("page") == page_num)

            if page_rows.height == 0:
                continue

            start_row = cast(int, page_rows["row_index"].min())
            end_row = cast(int, page_rows["row_index"].max())

            # Slice the original dataframe
            # Note: end_row is inclusive index, slice takes length
            page_df = context.df.slice(start_row, end_row - start_row + 1)

            # 1-based page number for display
            display_page_num = int(page_num)

            pages.append(
                PageContext(
                    page_number=display_page_num,
                    total_pages=total_pages,
                    data=page_df,
                    is_first_page=(display_page_num == 1),
                    is_last_page=(display_page_num == total_pages),
                    col_widths=context.col_widths,
                    needs_header=(
                        context.rtf_body.pageby_header or display_page_num == 1
                    ),
                    table_attrs=context.table_attrs,
                )
            )

        return pages
