from .base import PaginationStrategy


class StrategyRegistry:
    """Registry for pagination strategies."""

    _strategies: dict[str, type[PaginationStrategy]] = {}

    @classmethod
    def register(cls, name: str, strategy_cls: type[PaginationStrategy]) -> None:
        """Register a new strategy."""
        cls._strategies[name] = strategy_cls

    @classmethod
    def get(cls, name: str) -> type[PaginationStrategy]:
        """Get a strategy by name."""
        if name not in cls._strategies:
            raise ValueError(f"Strategy '{name}' not found in registry.")
        return cls._strategies[name]

    @classmethod
    def list_strategies(cls) -> list[str]:
        """List all registered strategies."""
        return list(cls._strategies.keys())
