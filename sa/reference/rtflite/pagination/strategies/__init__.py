from .base import PageContext, PaginationContext, PaginationStrategy
from .registry import StrategyRegistry

__all__ = ["PageContext", "PaginationContext", "PaginationStrategy", "StrategyRegistry"]
