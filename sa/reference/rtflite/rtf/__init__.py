"""RTF syntax generation module.

This module provides centralized RTF syntax generation capabilities,
separating RTF formatting knowledge from business logic and supporting
multiple content types including tables, text, and future figures/lists.
"""

from .syntax import RTFDocumentAssembler, RTFSyntaxGenerator

__all__ = [
    "RTFSyntaxGenerator",
    "RTFDocumentAssembler",
]
