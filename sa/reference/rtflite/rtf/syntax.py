"""RTF syntax generation utilities."""

from collections.abc import Mapping, Sequence
from typing import Any

from ..core.constants import RTFConstants


class RTFSyntaxGenerator:
    """Central RTF syntax generator for common RTF operations."""

    @staticmethod
    def generate_document_start() -> str:
        """Generate RTF document start code."""
        return "{\\rtf1\\ansi\\deff0"

    @staticmethod
    def generate_document_end() -> str:
        """Generate RTF document end code."""
        return "}"

    @staticmethod
    def generate_font_table() -> str:
        """Generate RTF font table using system fonts.

        Returns:
            RTF font table string
        """
        from ..row import Utils

        font_types = Utils._font_type()
        font_rtf = [f"\\f{i}" for i in range(10)]
        font_style = font_types["style"]
        font_name = font_types["name"]
        font_charset = font_types["charset"]

        font_table = RTFConstants.Control.FONT_TABLE_START
        for rtf, style, name, charset in zip(
            font_rtf, font_style, font_name, font_charset, strict=True
        ):
            font_table = (
                font_table + "{" + rtf + style + charset + "\\fprq2 " + name + ";}\n"
            )
        font_table += "}"
        return font_table

    @staticmethod
    def generate_color_table(used_colors: Sequence[str] | None = None) -> str:
        """Generate RTF color table using comprehensive 657-color support.

        Args:
            used_colors: List of color names used in the document.
                If None, includes all 657 colors.

        Returns:
            RTF color table string
        """
        from ..services.color_service import color_service

        return color_service.generate_rtf_color_table(used_colors)

    @staticmethod
    def generate_page_settings(
        width: float,
        height: float,
        margins: Sequence[float],
        orientation: str = "portrait",
    ) -> str:
        """Generate RTF page settings.

        Args:
            width: Page width in inches
            height: Page height in inches
            margins: Margins [left, right, top, bottom, header, footer] in inches
            orientation: Page orientation ('portrait' or 'landscape')

        Returns:
            RTF page settings string
        """
        from ..row import Utils

        # Convert to twips
        width_twips = int(Utils._inch_to_twip(width))
        height_twips = int(Utils._inch_to_twip(height))

        margin_twips = [int(Utils._inch_to_twip(m)) for m in margins]

        # Add landscape command if needed
        landscape_cmd = "\\landscape " if orientation == "landscape" else ""

        return (
            f"\\paperw{width_twips}\\paperh{height_twips}{landscape_cmd}\n"
            f"\\margl{margin_twips[0]}\\margr{margin_twips[1]}"
            f"\\margt{margin_twips[2]}\\margb{margin_twips[3]}"
            f"\\headery{margin_twips[4]}\\footery{margin_twips[5]}"
        )

    @staticmethod
    def generate_page_break() -> str:
        """Generate RTF page break."""
        return "\\page"

    @staticmethod
    def generate_paragraph_break() -> str:
        """Generate RTF paragraph break."""
        return "\\par"

    @staticmethod
    def generate_line_break() -> str:
        """Generate RTF line break."""
        return "\\line"


class RTFDocumentAssembler:
    """Assembles complete RTF documents from components."""

    def __init__(self):
        self.syntax = RTFSyntaxGenerator()

    def assemble_document(self, components: Mapping[str, Any]) -> str:
        """Assemble a complete RTF document from components.

        Args:
            components: Dictionary containing document components

        Returns:
            Complete RTF document string
        """
        parts = []

        # Document start
        parts.append(self.syntax.generate_document_start())

        # Font table
        if "fonts" in components:
            parts.append(self.syntax.generate_font_table(components["fonts"]))

        # Page settings
        if "page_settings" in components:
            settings = components["page_settings"]
            parts.append(
                self.syntax.generate_page_settings(
                    settings["width"],
                    settings["height"],
                    settings["margins"],
                    settings.get("orientation", "portrait"),
                )
            )

        # Content sections
        content_sections = [
            "page_header",
            "page_footer",
            "title",
            "subline",
            "column_headers",
            "body",
            "footnotes",
            "sources",
        ]

        for section in content_sections:
            if section in components and components[section]:
                if isinstance(components[section], list):
                    parts.extend(components[section])
                else:
                    parts.append(components[section])

        # Document end
        parts.append(self.syntax.generate_document_end())

        # Join with newlines, filtering out None/empty values
        return "\n".join(str(part) for part in parts if part)
