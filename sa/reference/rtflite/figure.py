"""RTF Figure handling utilities.

This module provides functions for reading and processing images
for embedding in RTF documents.
"""

import mimetypes
from collections.abc import Sequence
from pathlib import Path


def rtf_read_figure(
    file_paths: str | Path | Sequence[str | Path],
) -> tuple[Sequence[bytes], Sequence[str]]:
    """Read image files and return their binary data with format information.

    This function reads image files from disk and prepares them for embedding
    in RTF documents. It supports PNG, JPEG, and EMF formats.

    Args:
        file_paths: Single file path or list of file paths to image files

    Returns:
        Tuple of (figure_data, figure_formats) where:
            - figure_data: List of image binary data as bytes
            - figure_formats: List of format strings ('png', 'jpeg', 'emf')

    Raises:
        FileNotFoundError: If any image file cannot be found
        ValueError: If image format is not supported
    """
    # Ensure file_paths is a list
    if isinstance(file_paths, (str, Path)):
        file_paths = [file_paths]

    figure_data = []
    figure_formats = []

    for file_path in file_paths:
        path = Path(file_path)

        # Check if file exists
        if not path.exists():
            raise FileNotFoundError(f"Image file not found: {file_path}")

        # Determine format and read data
        img_format = _determine_image_format(path)
        data = _read_image_data(path)

        figure_data.append(data)
        figure_formats.append(img_format)

    return figure_data, figure_formats


def _determine_image_format(path: Path) -> str:
    """Determine image format from file extension or MIME type."""
    extension = path.suffix.lower()
    format_map = {".png": "png", ".jpg": "jpeg", ".jpeg": "jpeg", ".emf": "emf"}

    if extension in format_map:
        return format_map[extension]

    # Fallback to MIME type detection
    mime_type, _ = mimetypes.guess_type(str(path))
    mime_to_format = {"image/png": "png", "image/jpeg": "jpeg", "image/jpg": "jpeg"}

    if mime_type in mime_to_format:
        return mime_to_format[mime_type]

    raise ValueError(
        f"Unsupported image format: {extension}. Supported formats: PNG, JPEG, EMF"
    )


def _read_image_data(path: Path) -> bytes:
    """Read binary data from image file."""
    with open(path, "rb") as f:
        return f.read()
