from collections.abc import Mapping
from typing import Literal

FontName = Literal[
    "Times New Roman",
    "Times New Roman Greek",
    "Arial Greek",
    "Arial",
    "Helvetica",
    "Calibri",
    "Georgia",
    "Cambria",
    "Courier New",
    "Symbol",
]

FontNumber = Literal[1, 2, 3, 4, 5, 6, 7, 8, 9, 10]


class FontMapping:
    """Centralized font mapping for RTF document generation."""

    @staticmethod
    def get_font_table() -> Mapping:
        """Get complete font table with all properties."""
        return {
            "type": list(range(1, 11)),
            "name": [
                "Times New Roman",
                "Times New Roman Greek",
                "Arial Greek",
                "Arial",
                "Helvetica",
                "Calibri",
                "Georgia",
                "Cambria",
                "Courier New",
                "Symbol",
            ],
            "style": [
                "\\froman",
                "\\froman",
                "\\fswiss",
                "\\fswiss",
                "\\fswiss",
                "\\fswiss",
                "\\froman",
                "\\ffroman",
                "\\fmodern",
                "\\ftech",
            ],
            "rtf_code": [f"\\f{i}" for i in range(10)],
            "family": [
                "Times",
                "Times",
                "ArialMT",
                "ArialMT",
                "Helvetica",
                "Calibri",
                "Georgia",
                "Cambria",
                "Courier",
                "Times",
            ],
            "charset": [
                "\\fcharset1",
                "\\fcharset161",
                "\\fcharset161",
                "\\fcharset0",
                "\\fcharset1",
                "\\fcharset1",
                "\\fcharset1",
                "\\fcharset1",
                "\\fcharset0",
                "\\fcharset2",
            ],
        }

    @staticmethod
    def get_font_name_to_number_mapping() -> Mapping[FontName, int]:
        """Get mapping from font names to font numbers."""
        return {
            "Times New Roman": 1,
            "Times New Roman Greek": 2,
            "Arial Greek": 3,
            "Arial": 4,
            "Helvetica": 5,
            "Calibri": 6,
            "Georgia": 7,
            "Cambria": 8,
            "Courier New": 9,
            "Symbol": 10,
        }

    @staticmethod
    def get_font_number_to_name_mapping() -> Mapping[int, FontName]:
        """Get mapping from font numbers to font names."""
        name_to_number = FontMapping.get_font_name_to_number_mapping()
        return {v: k for k, v in name_to_number.items()}

    @staticmethod
    def get_font_paths() -> Mapping[FontName, str]:
        """Get mapping from font names to font file paths."""
        return {
            "Times New Roman": "liberation/LiberationSerif-Regular.ttf",
            "Times New Roman Greek": "liberation/LiberationSerif-Regular.ttf",
            "Arial Greek": "liberation/LiberationSans-Regular.ttf",
            "Arial": "liberation/LiberationSans-Regular.ttf",
            "Helvetica": "liberation/LiberationSans-Regular.ttf",
            "Calibri": "cros/Carlito-Regular.ttf",
            "Georgia": "cros/Gelasio-Regular.ttf",
            "Cambria": "cros/Caladea-Regular.ttf",
            "Courier New": "liberation/LiberationMono-Regular.ttf",
            "Symbol": "liberation/LiberationSerif-Regular.ttf",
        }
