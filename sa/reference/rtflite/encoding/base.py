from abc import ABC, abstractmethod
from typing import TYPE_CHECKING

if TYPE_CHECKING:
    from ..encode import RTFDocument


class EncodingStrategy(ABC):
    """Abstract base class for RTF encoding strategies."""

    @abstractmethod
    def encode(self, document: "RTFDocument") -> str:
        """Encode the document using this strategy.

        Args:
            document: The RTF document to encode

        Returns:
            Complete RTF string
        """
        pass
