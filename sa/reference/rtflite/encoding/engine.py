"""RTF encoding engine for orchestrating document generation."""

from typing import TYPE_CHECKING

from .unified_encoder import UnifiedRTFEncoder

if TYPE_CHECKING:
    from ..encode import RTFDocument


class RTFEncodingEngine:
    """Main engine for RTF document encoding.

    This class orchestrates the encoding process using the UnifiedRTFEncoder
    which implements the strategy pattern for pagination and rendering.
    """

    def __init__(self):
        self._encoder = UnifiedRTFEncoder()

    def encode_document(self, document: "RTFDocument") -> str:
        """Encode an RTF document using the unified encoder.

        Args:
            document: The RTF document to encode

        Returns:
            Complete RTF string
        """
        return self._encoder.encode(document)
