"""RTF encoding module."""

from .engine import RTFEncodingEngine
from .unified_encoder import UnifiedRTFEncoder

__all__ = [
    "RTFEncodingEngine",
    "UnifiedRTFEncoder",
]
