import os
import platform
import re
import shutil
import subprocess
from collections.abc import Sequence
from pathlib import Path

from packaging import version

from .dictionary.libreoffice import DEFAULT_PATHS, MIN_VERSION


class LibreOfficeConverter:
    """Convert RTF documents to other formats using LibreOffice.

    Convert RTF files to various formats including PDF, DOCX, HTML, and others
    using LibreOffice in headless mode.

    Requirements:
        - LibreOffice 7.1 or later must be installed.
        - Automatically finds LibreOffice in standard installation paths.
        - For custom installations, provide `executable_path` parameter.

    Note:
        The converter runs LibreOffice in headless mode, so no GUI is required.
        This makes it suitable for server environments and automated workflows.
    """

    def __init__(self, executable_path: str | Path | None = None):
        """Initialize converter with optional executable path.

        Args:
            executable_path: Path (or executable name) to LibreOffice. If None,
                searches standard installation locations for each platform.

        Raises:
            FileNotFoundError: If LibreOffice executable cannot be found.
            ValueError: If LibreOffice version is below minimum requirement.
        """
        self.executable_path = self._resolve_executable_path(executable_path)

        self._verify_version()

    def _resolve_executable_path(self, executable_path: str | Path | None) -> Path:
        """Resolve the LibreOffice executable path."""
        if executable_path is None:
            found_executable = self._find_executable()
            if found_executable is None:
                raise FileNotFoundError("Can't find LibreOffice executable.")
            return found_executable

        executable = os.fspath(executable_path)
        expanded = os.path.expanduser(executable)
        candidate = Path(expanded)
        candidate_str = str(candidate)
        looks_like_path = (
            candidate.is_absolute()
            or os.sep in candidate_str
            or (os.altsep is not None and os.altsep in candidate_str)
        )
        if looks_like_path:
            if candidate.is_file():
                return candidate
            raise FileNotFoundError(
                f"LibreOffice executable not found at: {candidate}."
            )

        resolved_executable = shutil.which(executable)
        if resolved_executable is None:
            raise FileNotFoundError(f"Can't find LibreOffice executable: {executable}.")
        return Path(resolved_executable)

    def _find_executable(self) -> Path | None:
        """Find LibreOffice executable in default locations."""
        for name in ("soffice", "libreoffice"):
            resolved = shutil.which(name)
            if resolved is not None:
                return Path(resolved)

        system = platform.system()
        if system not in DEFAULT_PATHS:
            raise RuntimeError(f"Unsupported operating system: {system}.")

        for path in DEFAULT_PATHS[system]:
            candidate = Path(path)
            if candidate.is_file():
                return candidate
        return None

    def _verify_version(self):
        """Verify LibreOffice version meets minimum requirement."""
        try:
            result = subprocess.run(
                [str(self.executable_path), "--version"],
                capture_output=True,
                text=True,
                check=True,
            )
            version_str = result.stdout.strip()
            # Extract version number (for example, "24.8.3.2" from the output)
            match = re.search(r"LibreOffice (\d+\.\d+)", version_str)
            if not match:
                raise ValueError(
                    f"Can't parse LibreOffice version from: {version_str}."
                )

            current_version = version.parse(match.group(1))
            min_version = version.parse(MIN_VERSION)

            if current_version < min_version:
                raise RuntimeError(
                    "LibreOffice version "
                    f"{current_version} is below minimum required "
                    f"version {min_version}."
                )
        except subprocess.CalledProcessError as e:
            raise RuntimeError(f"Failed to get LibreOffice version: {e}.") from e

    def convert(
        self,
        input_files: str | Path | Sequence[str | Path],
        output_dir: str | Path,
        format: str = "pdf",
        overwrite: bool = False,
    ) -> Path | Sequence[Path]:
        """Convert RTF file(s) to specified format using LibreOffice.

        Performs the actual conversion of RTF files to the target format using
        LibreOffice in headless mode. Supports single file or batch conversion.

        Args:
            input_files: Path to input RTF file or list of paths. Can be string
                or Path object. For batch conversion, provide a list/tuple.
            output_dir: Directory where converted files will be saved. Created
                if it doesn't exist. Can be string or Path object.
            format: Target format for conversion. Supported formats:

                - `'pdf'`: Portable Document Format (default)
                - `'docx'`: Microsoft Word (Office Open XML)
                - `'doc'`: Microsoft Word 97-2003
                - `'html'`: HTML Document
                - `'odt'`: OpenDocument Text
                - `'txt'`: Plain Text
            overwrite: If `True`, overwrites existing files in output directory.
                If `False`, raises error if output file already exists.

        Returns:
            Path | Sequence[Path]: For single file input, returns Path to the
                converted file. For multiple files, returns list of Paths.

        Raises:
            FileExistsError: If output file exists and overwrite=False.
            RuntimeError: If LibreOffice conversion fails.

        Examples:
            Single file conversion:
            ```python
            converter = LibreOfficeConverter()
            pdf_path = converter.convert(
                "report.rtf",
                output_dir="pdfs/",
                format="pdf"
            )
            print(f"Created: {pdf_path}")
            ```

            Batch conversion with overwrite:
            ```python
            rtf_files = ["report1.rtf", "report2.rtf", "report3.rtf"]
            pdf_paths = converter.convert(
                input_files=rtf_files,
                output_dir="output/pdfs/",
                format="pdf",
                overwrite=True
            )
            for path in pdf_paths:
                print(f"Converted: {path}")
            ```
        """
        output_dir = Path(os.path.expanduser(str(output_dir)))
        if not output_dir.exists():
            output_dir.mkdir(parents=True)

        # Handle single input file
        if isinstance(input_files, (str, Path)):
            input_path = Path(os.path.expanduser(str(input_files)))
            if not input_path.exists():
                raise FileNotFoundError(f"Input file not found: {input_path}.")
            return self._convert_single_file(input_path, output_dir, format, overwrite)

        # Handle multiple input files
        input_paths = [Path(os.path.expanduser(str(f))) for f in input_files]
        for path in input_paths:
            if not path.exists():
                raise FileNotFoundError(f"Input file not found: {path}.")

        return [
            self._convert_single_file(input_path, output_dir, format, overwrite)
            for input_path in input_paths
        ]

    def _convert_single_file(
        self, input_file: Path, output_dir: Path, format: str, overwrite: bool
    ) -> Path:
        """Convert a single file using LibreOffice."""
        output_file = output_dir / f"{input_file.stem}.{format}"

        if output_file.exists() and not overwrite:
            raise FileExistsError(
                f"Output file already exists: {output_file}. "
                "Use overwrite=True to force."
            )

        cmd = [
            str(self.executable_path),
            "--invisible",
            "--headless",
            "--nologo",
            "--convert-to",
            format,
            "--outdir",
            str(output_dir),
            str(input_file),
        ]

        try:
            result = subprocess.run(cmd, capture_output=True, text=True, check=True)

            if not output_file.exists():
                raise RuntimeError(
                    f"Conversion failed: Output file not created.\n"
                    f"Command output: {result.stdout}\n"
                    f"Error output: {result.stderr}"
                )

            return output_file

        except subprocess.CalledProcessError as e:
            raise RuntimeError(
                f"LibreOffice conversion failed:\n"
                f"Command output: {e.stdout}\n"
                f"Error output: {e.stderr}"
            ) from e
