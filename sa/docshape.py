"""Shared driver: shapes of the strings produced by the three encode paths and the emitters."""
from __future__ import annotations

import ast

from .absexec import Exec
from .absint import VConst, VList, VNum, VObj, VOpq, VSeqObj, VStr, VTuple, constof, pyconst
from .callgraph import DUCK
from .pm import PM, AnalysisError, FuncInfo
from . import shapes as S

_DUMMY = ast.parse("x()").body[0].value

DUCK_TYPES = dict(DUCK)
DUCK_TYPES.update({
    "rtf_body_attrs": "RTFBody | None", "processed_df": "pl.DataFrame", "df": "pl.DataFrame",
    "pages": "list[PageContext]", "original_df": "pl.DataFrame", "page_df": "pl.DataFrame",
    "segment": "pl.DataFrame",
})

PATHS = ("UnifiedRTFEncoder.encode", "UnifiedRTFEncoder._encode_multi_section",
         "UnifiedRTFEncoder._encode_figure_only")


def _returns_of(fi: FuncInfo):
    return [n for n in ast.walk(fi.node) if isinstance(n, ast.Return)]


def image_dim_hook(pm: PM):
    """`_get_image_dimensions` returns a pair; joining the pairs element-wise would lose the
    correlation 'width is None <=> height is None'.  The hook verifies that correlation from
    the source (every return of the three helpers is `None, None` or a pair of non-None
    expressions) and then returns (int|None, same) as two ints *after* the caller's None test;
    if the correlation is not syntactically evident the default interpretation is used."""
    names = ("RTFFigureService._get_image_dimensions", "RTFFigureService._get_png_dimensions",
             "RTFFigureService._get_jpeg_dimensions")
    ok = True
    for q in names:
        if not pm.has_func(q):
            return None
        for r in _returns_of(pm.func(q)):
            v = r.value
            if isinstance(v, ast.Tuple) and len(v.elts) == 2:
                nones = [isinstance(e, ast.Constant) and e.value is None for e in v.elts]
                if nones[0] != nones[1]:
                    ok = False
            elif isinstance(v, ast.Call):
                continue        # delegates to one of the helpers
            else:
                ok = False
    if not ok:
        return None

    def hook(interp, fi, recv, args, kw, n):
        # both-None or both-int: for string shapes the caller replaces None by ints when the
        # first is None, so (int, int) is the sound summary under the verified correlation
        return VTuple([VOpq("int | None", "pic_width"), VNum("int", "pic_height")], is_list=False)

    return names[0], hook


def make_interp(pm: PM, sanitiser_axiom: bool = True) -> Exec:
    it = Exec(pm, sanitiser_axiom=sanitiser_axiom, duck=DUCK_TYPES)
    h = image_dim_hook(pm)
    if h:
        it.hooks[h[0]] = h[1]
    return it


def call(it: Exec, pm: PM, short: str, recv=None, args=(), kw=None):
    fi = pm.func(short)
    if recv is None and fi.cls and not fi.is_static:
        recv = it.construct(fi.cls, [], {}, _DUMMY) if pm.find_method(fi.cls, "__init__") else VObj(fi.cls, {})
    return it.call_func(fi, recv, list(args), dict(kw or {}), _DUMMY)


def as_shape(it: Exec, v):
    if isinstance(v, (VList, VTuple, VSeqObj)):
        return it.list_shape(v)
    return it.to_shape(v, "result")


def doc_shape(it: Exec, pm: PM, path: str):
    """shape of the string returned by one encode path for an abstract document"""
    if path == "UnifiedRTFEncoder.encode":
        doc = VObj("RTFDocument", {"df": VOpq("pl.DataFrame", "document.df")})
    elif path == "UnifiedRTFEncoder._encode_multi_section":
        doc = VObj("RTFDocument", {"df": VOpq("list[pl.DataFrame]", "document.df"),
                                   "rtf_body": VOpq("list[RTFBody]", "document.rtf_body")})
    else:
        doc = VObj("RTFDocument", {"df": VConst(None)})
    r = call(it, pm, path, None, [doc])
    return r, as_shape(it, r)
