"""Semantics-preserving normalisation of the analysed tree before the rules run.

Ordinary maintenance work (extracting a private helper, naming a constant, adding an opt-in parameter
whose default reproduces today's behaviour) changes the *shape* of the code the rules inspect without
changing what it does.  The passes below undo such refactorings on the parsed tree so that the rules
see through them.  Every pass is a semantics-preserving program transformation with explicit side
conditions; when a side condition does not hold the construct is left alone (and the rules then see
the code as written).  The reference copy (sa/reference) is used only to decide *what is new* (a
function, constant or parameter the rules cannot know about); it never contributes to a verdict.

N1  constant propagation   a module- or class-level name that is new, bound exactly once to a literal
                           and never rebound is replaced by the literal at its loads
N3  default specialisation a new parameter with a constant default that no call site in the package
                           passes (and the body never assigns) is replaced by its default; closed-world
                           for private functions, recorded as an assumption for public ones
F   constant folding       only over expressions that contain a substituted node
N2  helper inlining        a new private function/method (not a generator, not recursive, no *args) is
                           inlined at its call sites: expression form (pure if/return chains) or
                           statement form (single-exit conversion, statements hoisted before the calling
                           statement when nothing impure precedes the call); a helper all of whose call
                           sites were inlined is dissolved
"""
from __future__ import annotations

import ast
import copy
import pathlib

REF_ROOT = pathlib.Path(__file__).resolve().parent / "reference"
FuncT = (ast.FunctionDef, ast.AsyncFunctionDef)


# --------------------------------------------------------------------------------------------------
# indexing helpers

def _index_funcs(tree: ast.Module) -> dict[str, ast.AST]:
    out = {}

    def rec(node, prefix):
        for c in ast.iter_child_nodes(node):
            if isinstance(c, ast.ClassDef):
                rec(c, prefix + c.name + ".")
            elif isinstance(c, FuncT):
                out[prefix + c.name] = c
                rec_nested(c, prefix + c.name + ".<locals>.")

    def rec_nested(fn, prefix):
        for c in ast.walk(fn):
            if c is not fn and isinstance(c, FuncT) and getattr(c, "_seen_nested", None) is None:
                out.setdefault(prefix + c.name, c)
    rec(tree, "")
    return out


def _toplevel_names(tree: ast.Module) -> set[str]:
    out = set()
    for n in tree.body:
        for t in _targets(n):
            out.add(t)
        if isinstance(n, (ast.ClassDef,) + FuncT):
            out.add(n.name)
            if isinstance(n, ast.ClassDef):
                for b in n.body:
                    for t in _targets(b):
                        out.add(n.name + "." + t)
    return out


def _targets(n) -> list[str]:
    if isinstance(n, ast.Assign):
        return [t.id for t in n.targets if isinstance(t, ast.Name)]
    if isinstance(n, ast.AnnAssign) and isinstance(n.target, ast.Name) and n.value is not None:
        return [n.target.id]
    return []


def _params(fn) -> list[str]:
    a = fn.args
    return [x.arg for x in list(a.posonlyargs) + list(a.args) + list(a.kwonlyargs)]


def _stores(fn) -> set[str]:
    return {n.id for n in ast.walk(fn) if isinstance(n, ast.Name) and isinstance(n.ctx, (ast.Store, ast.Del))}


def _is_literal(e: ast.AST) -> bool:
    if isinstance(e, ast.Constant):
        return True
    if isinstance(e, ast.UnaryOp) and isinstance(e.op, ast.USub) and isinstance(e.operand, ast.Constant):
        return True
    if isinstance(e, (ast.Tuple, ast.List, ast.Set)):
        return all(_is_literal(x) for x in e.elts)
    if isinstance(e, ast.Dict):
        return all(k is not None and _is_literal(k) and _is_literal(v) for k, v in zip(e.keys, e.values))
    if isinstance(e, ast.Call) and isinstance(e.func, ast.Name) and e.func.id in ("frozenset", "tuple") and len(e.args) == 1 and not e.keywords:
        return _is_literal(e.args[0])
    return False



def _is_immutable_literal(e: ast.AST) -> bool:
    if isinstance(e, ast.Constant):
        return True
    if isinstance(e, ast.UnaryOp) and isinstance(e.op, ast.USub) and isinstance(e.operand, ast.Constant):
        return True
    if isinstance(e, ast.Tuple):
        return all(_is_immutable_literal(x) for x in e.elts)
    if isinstance(e, ast.Call) and isinstance(e.func, ast.Name) and e.func.id in ("frozenset", "tuple") and len(e.args) == 1 and not e.keywords:
        return _is_literal(e.args[0])
    return False


_READ_METHODS = {"get", "items", "keys", "values", "index", "count", "copy"}


def _only_read(tree: ast.Module, name: str) -> bool:
    """a module-level list/set/dict literal may be propagated only if the object can never change: every use of the
    name is a membership test, an iteration, a subscript load or a read-only method call"""
    parents = {}
    for n in ast.walk(tree):
        for ch in ast.iter_child_nodes(n):
            parents[ch] = n
    for n in ast.walk(tree):
        if not (isinstance(n, ast.Name) and n.id == name and isinstance(n.ctx, ast.Load)):
            continue
        p = parents.get(n)
        if isinstance(p, ast.Compare) and n in p.comparators and all(isinstance(o, (ast.In, ast.NotIn)) for o in p.ops):
            continue
        if isinstance(p, (ast.For, ast.comprehension)) and p.iter is n:
            continue
        if isinstance(p, ast.Subscript) and p.value is n and isinstance(p.ctx, ast.Load):
            continue
        if isinstance(p, ast.Attribute) and p.value is n and p.attr in _READ_METHODS and isinstance(parents.get(p), ast.Call) and parents[p].func is p:
            continue
        if isinstance(p, ast.Call) and isinstance(p.func, ast.Name) and p.func.id in ("len", "sorted", "list", "tuple", "set", "frozenset", "dict", "enumerate", "iter", "any", "all", "min", "max", "sum") and n in p.args:
            continue
        return False
    return True


def _mark(node: ast.AST) -> ast.AST:
    for n in ast.walk(node):
        n._subst = True  # type: ignore[attr-defined]
    return node


def _has_mark(node: ast.AST) -> bool:
    return any(getattr(n, "_subst", False) for n in ast.walk(node))


class _Subst(ast.NodeTransformer):
    """replace loads of given names by (deep copies of) expressions; respects function-local shadowing"""

    def __init__(self, mapping: dict[str, ast.AST], mark=True):
        self.m = mapping
        self.mark = mark
        self.count = 0

    def _scoped(self, node):
        a = node.args
        ps = {x.arg for x in list(a.posonlyargs) + list(a.args) + list(a.kwonlyargs)}
        if a.vararg:
            ps.add(a.vararg.arg)
        if a.kwarg:
            ps.add(a.kwarg.arg)
        if not (ps & set(self.m)):
            return self.generic_visit(node)
        inner = _Subst({k: v for k, v in self.m.items() if k not in ps}, self.mark)
        a.defaults = [self.visit(d) for d in a.defaults]
        a.kw_defaults = [self.visit(d) if d is not None else None for d in a.kw_defaults]
        if isinstance(node.body, list):
            node.body = [inner.visit(b) for b in node.body]
        else:
            node.body = inner.visit(node.body)
        self.count += inner.count
        return node

    def visit_Lambda(self, node):
        return self._scoped(node)

    def visit_FunctionDef(self, node):
        return self._scoped(node)

    def visit_Name(self, node):
        if isinstance(node.ctx, ast.Load) and node.id in self.m:
            new = copy.deepcopy(self.m[node.id])
            ast.copy_location(new, node)
            for sub in ast.walk(new):
                if not hasattr(sub, "lineno") and isinstance(sub, (ast.expr, ast.stmt)):
                    ast.copy_location(sub, node)
            self.count += 1
            return _mark(new) if self.mark else new
        return node


# --------------------------------------------------------------------------------------------------
# F: constant folding (only where a substituted node is involved)

_PURE = {"round": round, "int": int, "float": float, "str": str, "len": len, "abs": abs, "min": min, "max": max, "bool": bool}
_TYPES = {"int": int, "float": float, "str": str, "bool": bool, "list": list, "tuple": tuple, "dict": dict}


def _const(e):
    """(True, value) if e is a literal expression"""
    try:
        if _is_literal(e) and not isinstance(e, ast.Call):
            return True, ast.literal_eval(e)
    except Exception:
        pass
    return False, None


class _Fold(ast.NodeTransformer):
    def __init__(self):
        self.count = 0

    def _c(self, value, at):
        self.count += 1
        n = ast.Constant(value=value)
        ast.copy_location(n, at)
        return _mark(n)

    def generic_visit(self, node):
        return super().generic_visit(node)

    def visit_UnaryOp(self, node):
        self.generic_visit(node)
        if _has_mark(node) and isinstance(node.op, ast.Not):
            ok, v = _const(node.operand)
            if ok:
                return self._c(not v, node)
        return node

    def visit_BinOp(self, node):
        self.generic_visit(node)
        if _has_mark(node) and isinstance(node.op, ast.Add) and type(node.left) is type(node.right) and isinstance(node.left, (ast.Tuple, ast.List)) \
                and _is_literal(node.left) and _is_literal(node.right):
            self.count += 1
            new = type(node.left)(elts=list(node.left.elts) + list(node.right.elts), ctx=ast.Load())
            return _mark(ast.copy_location(new, node))
        if _has_mark(node):
            ok1, a = _const(node.left)
            ok2, b = _const(node.right)
            if ok1 and ok2 and isinstance(a, (int, float, str)) and isinstance(b, (int, float, str)):
                try:
                    import operator
                    ops = {ast.Add: operator.add, ast.Sub: operator.sub, ast.Mult: operator.mul, ast.Div: operator.truediv,
                           ast.FloorDiv: operator.floordiv, ast.Mod: operator.mod}
                    f = ops.get(type(node.op))
                    if f is not None and not (isinstance(a, str) and isinstance(node.op, ast.Mod)):
                        return self._c(f(a, b), node)
                except Exception:
                    pass
        return node

    def visit_BoolOp(self, node):
        self.generic_visit(node)
        if not _has_mark(node):
            return node
        vals = []
        for v in node.values:
            ok, c = _const(v)
            if ok:
                if isinstance(node.op, ast.And):
                    if not c:
                        if not vals:
                            return self._c(c, node)
                        vals.append(v)
                        break
                    continue            # truthy constant in `and`: drop (value only matters if last)
                else:
                    if c:
                        if not vals:
                            return self._c(c, node)
                        vals.append(v)
                        break
                    continue
            vals.append(v)
        if len(vals) == len(node.values):
            return node
        if not vals:
            # all operands were neutral constants: the value is the last operand
            return node.values[-1]
        # dropping neutral constants keeps the truth value; only sound where the expression is used as a condition
        if len(vals) == 1:
            self.count += 1
            return vals[0]
        node.values = vals
        self.count += 1
        return node

    def visit_Compare(self, node):
        self.generic_visit(node)
        if _has_mark(node) and len(node.ops) == 1:
            ok1, a = _const(node.left)
            ok2, b = _const(node.comparators[0])
            if ok1 and ok2:
                op = node.ops[0]
                try:
                    if isinstance(op, ast.Eq):
                        return self._c(a == b, node)
                    if isinstance(op, ast.NotEq):
                        return self._c(a != b, node)
                    if isinstance(op, ast.Lt):
                        return self._c(a < b, node)
                    if isinstance(op, ast.LtE):
                        return self._c(a <= b, node)
                    if isinstance(op, ast.Gt):
                        return self._c(a > b, node)
                    if isinstance(op, ast.GtE):
                        return self._c(a >= b, node)
                    if isinstance(op, ast.In):
                        return self._c(a in b, node)
                    if isinstance(op, ast.NotIn):
                        return self._c(a not in b, node)
                    if isinstance(op, ast.Is):
                        if a is None or b is None or isinstance(a, bool) or isinstance(b, bool):
                            return self._c(a is b, node)
                    if isinstance(op, ast.IsNot):
                        if a is None or b is None or isinstance(a, bool) or isinstance(b, bool):
                            return self._c(a is not b, node)
                except Exception:
                    pass
        return node

    def visit_IfExp(self, node):
        self.generic_visit(node)
        if _has_mark(node.test):
            ok, c = _const(node.test)
            if ok:
                self.count += 1
                return node.body if c else node.orelse
        return node

    def visit_Call(self, node):
        self.generic_visit(node)
        if _has_mark(node) and isinstance(node.func, ast.Name) and not node.keywords:
            if node.func.id in _PURE and node.args:
                cs = [_const(a) for a in node.args]
                if all(ok for ok, _ in cs):
                    try:
                        v = _PURE[node.func.id](*[c for _, c in cs])
                        if isinstance(v, (int, float, str, bool)):
                            return self._c(v, node)
                    except Exception:
                        pass
            if node.func.id == "isinstance" and len(node.args) == 2:
                ok, c = _const(node.args[0])
                t = node.args[1]
                names = [t] if isinstance(t, ast.Name) else (t.elts if isinstance(t, ast.Tuple) else None)
                if ok and names and all(isinstance(x, ast.Name) and x.id in _TYPES for x in names):
                    return self._c(isinstance(c, tuple(_TYPES[x.id] for x in names)), node)
        return node

    def visit_JoinedStr(self, node):
        self.generic_visit(node)
        if not _has_mark(node):
            return node
        parts = []
        for v in node.values:
            if isinstance(v, ast.FormattedValue) and v.conversion == -1 and v.format_spec is None:
                ok, c = _const(v.value)
                if ok and isinstance(c, (str, int)) and not isinstance(c, bool):
                    v = ast.Constant(value=str(c))
                elif ok and isinstance(c, float):
                    v = ast.Constant(value=format(c, ""))
            if isinstance(v, ast.Constant) and parts and isinstance(parts[-1], ast.Constant):
                parts[-1] = ast.Constant(value=parts[-1].value + v.value)
            else:
                parts.append(v)
        if len(parts) == 1 and isinstance(parts[0], ast.Constant):
            return self._c(parts[0].value, node)
        for p in parts:
            ast.copy_location(p, node)
        node.values = parts
        return node

    def _fold_body(self, body):
        out = []
        for s in body:
            r = self.visit(s)
            if r is None:
                continue
            if isinstance(r, list):
                out.extend(r)
            else:
                out.append(r)
        return out

    def visit_If(self, node):
        node.test = self.visit(node.test)
        node.body = self._fold_body(node.body)
        node.orelse = self._fold_body(node.orelse)
        ok, c = _const(node.test)
        if ok and getattr(node.test, "_subst", False):
            self.count += 1
            chosen = node.body if c else node.orelse
            return chosen or None
        if not node.body:
            node.body = [ast.copy_location(ast.Pass(), node)]
        return node


def _fold_function(fn) -> int:
    f = _Fold()
    new_body = f._fold_body(fn.body)
    fn.body = new_body or [ast.copy_location(ast.Pass(), fn)]
    return f.count



# --------------------------------------------------------------------------------------------------
# N0: identity of renamed / hoisted private functions

def _body_shapes(fn) -> list[str]:
    from .alpha import _simple_statements, _header, _shape, locals_of
    loc = locals_of(fn) | set(_params(fn))
    return [_shape(_header(st), loc) for st in _simple_statements(fn) if not (isinstance(st, ast.Expr) and isinstance(st.value, ast.Constant))]


def _recover_function_names(modules, ref_trees, report) -> None:
    """a private function that exists only in the analysed tree and whose body aligns (name-blind statement shapes,
    ratio >= 0.8, at least 3 statements) with a function that exists only in the reference is the same function under a
    new name: it is renamed back (definition and every reference in the package); a module-level function that replaces
    a nested closure of the reference is moved back into the function that uses it.  Pure renaming/re-nesting: the
    function must not capture anything it could not see at its old place."""
    import difflib
    for name, mi in modules.items():
        rt = ref_trees.get(name)
        if rt is None:
            continue
        cur, ref = _index_funcs(mi.tree), _index_funcs(rt)
        new = {q: f for q, f in cur.items() if q not in ref and f.name.startswith("_") or (q not in ref and ".<locals>." in q)}
        missing = {q: f for q, f in ref.items() if q not in cur}
        if not new or not missing:
            continue
        used_new, used_missing = set(), set()
        pairs = []
        for qn, fnew in new.items():
            sn = _body_shapes(fnew)
            if len(sn) < 3:
                continue
            for qm, fmiss in missing.items():
                sm_ = _body_shapes(fmiss)
                if len(sm_) < 3:
                    continue
                ratio = difflib.SequenceMatcher(a=sn, b=sm_, autojunk=False).ratio()
                if ratio >= 0.8:
                    pairs.append((ratio, qn, qm))
        for ratio, qn, qm in sorted(pairs, reverse=True):
            if qn in used_new or qm in used_missing:
                continue
            fnew = new[qn]
            old_name, ref_name = fnew.name, missing[qm].name
            scope_n, scope_m = qn.rsplit(".", 1)[0] if "." in qn else "", qm.rsplit(".", 1)[0] if "." in qm else ""
            # the old name must not be taken in the analysed tree
            if any(isinstance(n, FuncT) and n.name == ref_name for m2 in modules.values() for n in ast.walk(m2.tree)) and scope_n == scope_m:
                continue
            if scope_n == scope_m:
                _rename_function(modules, old_name, ref_name)
                report["renamed_functions"].append(f"{name}:{qn} -> {qm} (similarity {ratio:.2f})")
            elif scope_n == "" and scope_m.endswith(".<locals>") and scope_m[:-len(".<locals>")] in cur:
                host = cur[scope_m[:-len(".<locals>")]]
                refs_outside = [n for m2 in modules.values() for n in ast.walk(m2.tree) if isinstance(n, ast.Name) and n.id == old_name
                                and not any(x is n for x in ast.walk(host)) and not any(x is n for x in ast.walk(fnew))]
                hostlocals = _stores(host) | set(_params(host))
                free = {n.id for n in ast.walk(fnew) if isinstance(n, ast.Name) and isinstance(n.ctx, ast.Load)} - _stores(fnew) - set(_params(fnew))
                if refs_outside or free & hostlocals or fnew.decorator_list:
                    continue
                mi.tree.body = [x for x in mi.tree.body if x is not fnew]
                fnew.name = ref_name
                for n in ast.walk(host):
                    if isinstance(n, ast.Name) and n.id == old_name:
                        n.id = ref_name
                k = 1 if host.body and isinstance(host.body[0], ast.Expr) and isinstance(host.body[0].value, ast.Constant) else 0
                host.body.insert(k, fnew)
                report["renamed_functions"].append(f"{name}:{qn} -> {qm} (re-nested, similarity {ratio:.2f})")
            else:
                continue
            used_new.add(qn)
            used_missing.add(qm)


def _rename_function(modules, old: str, new: str) -> None:
    for mi in modules.values():
        for n in ast.walk(mi.tree):
            if isinstance(n, FuncT) and n.name == old:
                n.name = new
            elif isinstance(n, ast.Attribute) and n.attr == old:
                n.attr = new
            elif isinstance(n, ast.Name) and n.id == old:
                n.id = new
            elif isinstance(n, ast.alias) and n.name == old:
                n.name = new

# --------------------------------------------------------------------------------------------------
# N1: constants

def _propagate_constants(modules, ref_names, report) -> set:
    """returns the set of function nodes touched"""
    touched = set()
    # collect new constants per module: name -> literal ; class-level: (Class, name) -> literal
    new_consts: dict[str, dict[str, ast.AST]] = {}
    for name, mi in modules.items():
        refn = ref_names.get(name)
        if refn is None:
            continue
        consts = {}
        counts: dict[str, int] = {}
        for n in ast.walk(mi.tree):
            if isinstance(n, ast.Name) and isinstance(n.ctx, (ast.Store, ast.Del)):
                counts[n.id] = counts.get(n.id, 0) + 1
            if isinstance(n, ast.Global):
                for g in n.names:
                    counts[g] = counts.get(g, 0) + 2
        for n in mi.tree.body:
            for t in _targets(n):
                val = n.value
                if t not in refn and counts.get(t, 0) == 1 and _is_literal(val) and t != "__all__":
                    if _is_immutable_literal(val) or _only_read(mi.tree, t):
                        consts[t] = val
        if consts:
            new_consts[name] = consts
    # class-level constants (new, bound once in the class body, never stored through self/cls/Class): loads through
    # self.NAME / cls.NAME / Class.NAME are replaced
    for name, mi in modules.items():
        refn = ref_names.get(name)
        if refn is None:
            continue
        for cnode in [n for n in mi.tree.body if isinstance(n, ast.ClassDef)]:
            cc = {}
            for b in cnode.body:
                for t in _targets(b):
                    if f"{cnode.name}.{t}" in refn:
                        continue
                    if cc and not _is_immutable_literal(b.value):
                        # built from earlier new class constants (bare names in the class body): substitute and fold
                        v2 = _Fold().visit(_Subst(dict(cc)).visit(copy.deepcopy(b.value)))
                        if _is_immutable_literal(v2):
                            b.value = v2
                    if _is_immutable_literal(b.value):
                        cc[t] = b.value
            if not cc:
                continue
            stored = {n.attr for m2 in modules.values() for n in ast.walk(m2.tree) if isinstance(n, ast.Attribute) and isinstance(n.ctx, (ast.Store, ast.Del))}
            cc = {k: v for k, v in cc.items() if k not in stored}
            if not cc:
                continue

            class CS(ast.NodeTransformer):
                def __init__(self):
                    self.count = 0

                def visit_Attribute(self, n):
                    self.generic_visit(n)
                    if isinstance(n.ctx, ast.Load) and n.attr in cc and isinstance(n.value, ast.Name) and n.value.id in ("self", "cls", cnode.name):
                        self.count += 1
                        return _mark(ast.copy_location(copy.deepcopy(cc[n.attr]), n))
                    return n
            for fn in [x for x in cnode.body if isinstance(x, FuncT)]:
                t_ = CS()
                fn.body = [t_.visit(b) for b in fn.body]
                if t_.count:
                    touched.add(fn)
                    report["constants_propagated"] += t_.count
            report["constants"].extend(f"{name}.{cnode.name}.{k}" for k in cc)
    if not new_consts:
        return touched
    # substitute in the defining module and in modules importing the name
    for name, mi in modules.items():
        mapping = dict(new_consts.get(name, {}))
        for n in ast.walk(mi.tree):
            if isinstance(n, ast.ImportFrom) and n.module is not None:
                for src, consts in new_consts.items():
                    if src == name:
                        continue
                    tail = src.split(".")
                    mod = n.module.split(".")
                    if tail[-len(mod):] == mod or (n.level and tail[-len(mod):] == mod):
                        for a in n.names:
                            if a.name in consts:
                                mapping[a.asname or a.name] = consts[a.name]
        if not mapping:
            continue
        for fn in [x for x in ast.walk(mi.tree) if isinstance(x, FuncT)]:
            shadow = _stores(fn) | set(_params(fn))
            m = {k: v for k, v in mapping.items() if k not in shadow}
            if not m:
                continue
            s = _Subst(m)
            fn.body = [s.visit(b) for b in fn.body]
            if s.count:
                touched.add(fn)
                report["constants_propagated"] += s.count
        # module-level and class-level expressions (e.g. other constants built from them)
        s = _Subst(mapping)
        for i, n in enumerate(mi.tree.body):
            if isinstance(n, (ast.Assign, ast.AnnAssign)) and n.value is not None and not any(t in mapping for t in _targets(n)):
                n.value = s.visit(n.value)
            elif isinstance(n, ast.ClassDef):
                for b in n.body:
                    if isinstance(b, (ast.Assign, ast.AnnAssign)) and b.value is not None:
                        b.value = s.visit(b.value)
        report["constants"].extend(f"{name}.{k}" for k in new_consts.get(name, {}))
    return touched



# --------------------------------------------------------------------------------------------------
# N4: table-driven code (loops / comprehensions over literal tables, getattr with constant names, **literal dict)

def _literal_items(e):
    """elements of a literal tuple/list display whose items are literals (or all plain name/attribute reads, which are
    evaluated without effects); `D.items()` of a literal dict display gives its (key, value) pairs; None otherwise"""
    if isinstance(e, (ast.Tuple, ast.List)) and e.elts and len(e.elts) <= 24:
        if all(_is_literal(x) and not isinstance(x, ast.Call) for x in e.elts):
            return list(e.elts)
        if len(e.elts) <= 8 and all(isinstance(x, ast.Attribute) and _simple_arg(x) for x in e.elts):
            return list(e.elts)
    if isinstance(e, ast.Call) and isinstance(e.func, ast.Attribute) and e.func.attr == "items" and not e.args and not e.keywords \
            and isinstance(e.func.value, ast.Dict) and e.func.value.keys and len(e.func.value.keys) <= 24 \
            and all(k is not None and _is_literal(k) and _is_literal(v) for k, v in zip(e.func.value.keys, e.func.value.values)):
        return [ast.Tuple(elts=[k, v], ctx=ast.Load()) for k, v in zip(e.func.value.keys, e.func.value.values)]
    return None


def _bind_target(target, item):
    """mapping name -> literal for `for target in (item, ...)`; None if shapes do not fit"""
    if isinstance(target, ast.Name):
        return {target.id: item}
    if isinstance(target, (ast.Tuple, ast.List)) and isinstance(item, (ast.Tuple, ast.List)) and len(target.elts) == len(item.elts):
        out = {}
        for t, i in zip(target.elts, item.elts):
            m = _bind_target(t, i)
            if m is None:
                return None
            out.update(m)
        return out
    return None


def _nest_continue_guards(body):
    """if c: continue; REST   ->   if not c: REST      (top level of a loop body only); None if a continue/break remains"""
    out = []
    for i, st in enumerate(body):
        if isinstance(st, ast.If) and not st.orelse and len(st.body) == 1 and isinstance(st.body[0], ast.Continue):
            rest = _nest_continue_guards(body[i + 1:])
            if rest is None:
                return None
            if rest:
                new = ast.copy_location(ast.If(test=_negate(st.test), body=rest, orelse=[]), st)
                out.append(new)
            return out
        out.append(st)
    if _contains(out, (ast.Continue, ast.Break)):
        # a continue/break that belongs to an inner loop is fine
        for st in out:
            for n in ast.walk(st):
                if isinstance(n, (ast.Continue, ast.Break)):
                    inner = False
                    p_ = n
                    # no parent pointers here: conservative check by searching inner loops
                    for lp in ast.walk(st):
                        if isinstance(lp, (ast.For, ast.While)) and any(x is n for x in ast.walk(lp)):
                            inner = True
                    if not inner:
                        return None
    return out


class _FoldAttrs(ast.NodeTransformer):
    """getattr(x, 'name') -> x.name ; f(**{'a': 1}) -> f(a=1)"""

    def __init__(self):
        self.count = 0

    def visit_Call(self, node):
        self.generic_visit(node)
        if isinstance(node.func, ast.Name) and node.func.id == "getattr" and len(node.args) == 2 and not node.keywords \
                and isinstance(node.args[1], ast.Constant) and isinstance(node.args[1].value, str) and node.args[1].value.isidentifier() \
                and getattr(node.args[1], "_subst", False):
            self.count += 1
            new = ast.copy_location(ast.Attribute(value=node.args[0], attr=node.args[1].value, ctx=ast.Load()), node)
            new._folded = True  # type: ignore[attr-defined]
            return new
        new_kw = []
        changed = False
        for k in node.keywords:
            if k.arg is None and isinstance(k.value, ast.Dict) and getattr(k.value, "_subst", False) \
                    and all(isinstance(x, ast.Constant) and isinstance(x.value, str) and x.value.isidentifier() for x in k.value.keys):
                for kk, vv in zip(k.value.keys, k.value.values):
                    new_kw.append(ast.keyword(arg=kk.value, value=vv))
                changed = True
            else:
                new_kw.append(k)
        if changed:
            node.keywords = new_kw
            self.count += 1
        return node


def _expand_table_code(fn, allow_unmarked: bool, report) -> int:
    """unroll loops and comprehensions over literal tables inside fn"""
    done = 0

    def subst_copy(nodes, mapping, k):
        new = []
        for st in nodes:
            c = copy.deepcopy(st)
            c = _Subst(mapping, mark=True).visit(c)
            new.append(c)
        return new

    def rec(block):
        nonlocal done
        i = 0
        while i < len(block):
            st = block[i]
            if isinstance(st, ast.For) and not st.orelse:
                items = _literal_items(st.iter)
                if items is not None and (allow_unmarked or _has_mark(st.iter)):
                    body = _nest_continue_guards(st.body)
                    stores = set()
                    for b in st.body:
                        stores |= {n.id for n in ast.walk(b) if isinstance(n, ast.Name) and isinstance(n.ctx, (ast.Store, ast.Del))}
                    tnames = {n.id for n in ast.walk(st.target) if isinstance(n, ast.Name)}
                    binds = [_bind_target(st.target, it) for it in items]
                    # the loop variable must not be read after the loop
                    later = any(isinstance(n, ast.Name) and n.id in tnames for s2 in block[i + 1:] for n in ast.walk(s2))
                    attr_items = [it for it in items if isinstance(it, ast.Attribute)]
                    if attr_items:
                        written = {n.attr for b in st.body for n in ast.walk(b) if isinstance(n, ast.Attribute) and isinstance(n.ctx, (ast.Store, ast.Del))}
                        if written & {it.attr for it in attr_items}:
                            body = None
                    if body is not None and not (tnames & stores) and all(b is not None for b in binds) and not later:
                        new = []
                        for b in binds:
                            new.extend(subst_copy(body, b, 0))
                        block[i:i + 1] = new or [ast.copy_location(ast.Pass(), st)]
                        done += 1
                        report["unrolled"] = report.get("unrolled", 0) + 1
                        continue
            for fld in ("body", "orelse", "finalbody"):
                b = getattr(st, fld, None)
                if isinstance(b, list) and b and isinstance(b[0], ast.stmt) and not isinstance(st, (ast.ClassDef,)):
                    rec(b)
            if isinstance(st, ast.Try):
                for h in st.handlers:
                    rec(h.body)
            i += 1
    rec(fn.body)

    # comprehensions over literal tables -> displays
    class Comp(ast.NodeTransformer):
        def __init__(self):
            self.n = 0

        def _expand(self, node, build):
            if len(node.generators) != 1:
                return node
            g = node.generators[0]
            items = _literal_items(g.iter)
            if items is None or g.is_async or not (allow_unmarked or _has_mark(g.iter)):
                return node
            binds = [_bind_target(g.target, it) for it in items]
            if any(b is None for b in binds):
                return node
            elems = []
            for b in binds:
                keep = True
                for c in g.ifs:
                    cc = _Fold().visit(_Subst(b, mark=True).visit(copy.deepcopy(c)))
                    ok, v = _const(cc)
                    if not ok:
                        return node
                    keep = keep and bool(v)
                if keep:
                    elems.append(b)
            self.n += 1
            return ast.copy_location(_mark(build(elems)), node)

        def visit_ListComp(self, node):
            self.generic_visit(node)
            return self._expand(node, lambda bs: ast.List(elts=[_Subst(b, mark=True).visit(copy.deepcopy(node.elt)) for b in bs], ctx=ast.Load()))

        def visit_DictComp(self, node):
            self.generic_visit(node)
            return self._expand(node, lambda bs: ast.Dict(keys=[_Subst(b, mark=True).visit(copy.deepcopy(node.key)) for b in bs],
                                                          values=[_Subst(b, mark=True).visit(copy.deepcopy(node.value)) for b in bs]))
    c = Comp()
    fn.body = [c.visit(b) for b in fn.body]
    done += c.n
    if c.n:
        report["comprehensions_expanded"] = report.get("comprehensions_expanded", 0) + c.n
    # **name where name is bound once to an expanded dict display and only used there
    asg: dict[str, list] = {}
    for n in ast.walk(fn):
        if isinstance(n, ast.Assign) and len(n.targets) == 1 and isinstance(n.targets[0], ast.Name):
            asg.setdefault(n.targets[0].id, []).append(n)
    for name, sts in asg.items():
        if len(sts) != 1 or not isinstance(sts[0].value, ast.Dict) or not getattr(sts[0].value, "_subst", False):
            continue
        uses = [n for n in ast.walk(fn) if isinstance(n, ast.Name) and n.id == name and isinstance(n.ctx, ast.Load)]
        kws = [k for n in ast.walk(fn) if isinstance(n, ast.Call) for k in n.keywords if k.arg is None and isinstance(k.value, ast.Name) and k.value.id == name]
        if len(uses) == 1 and len(kws) == 1:
            removed = False
            for holder in ast.walk(fn):
                for fld in ("body", "orelse", "finalbody"):
                    blk = getattr(holder, fld, None)
                    if isinstance(blk, list) and any(x is sts[0] for x in blk):
                        blk[:] = [x for x in blk if x is not sts[0]] or [ast.copy_location(ast.Pass(), sts[0])]
                        removed = True
            if removed:
                kws[0].value = sts[0].value
                done += 1
    f = _FoldAttrs()
    fn.body = [f.visit(b) for b in fn.body]
    done += f.count
    # aliases produced by folded getattr:  x = obj.attr ; ... x ...  ->  ... obj.attr ...   (until x is re-bound)
    def alias_pass(block):
        nonlocal done
        i = 0
        while i < len(block):
            st = block[i]
            if isinstance(st, ast.Assign) and len(st.targets) == 1 and isinstance(st.targets[0], ast.Name) and getattr(st.value, "_folded", False) \
                    and isinstance(st.value, ast.Attribute):
                x = st.targets[0].id
                # the receiver chain must be names/attributes only (stable, side-effect free to re-read)
                if _simple_arg(st.value.value):
                    j = i + 1
                    while j < len(block):
                        nxt = block[j]
                        rebinds = any(isinstance(n, ast.Name) and n.id == x and isinstance(n.ctx, (ast.Store, ast.Del)) for n in ast.walk(nxt))
                        if rebinds:
                            break
                        block[j] = _Subst({x: st.value}, mark=False).visit(nxt)
                        j += 1
                    still = any(isinstance(n, ast.Name) and n.id == x and isinstance(n.ctx, ast.Load) for s2 in block[i + 1:j] for n in ast.walk(s2))
                    after_rebind = j < len(block)
                    if not still and (after_rebind or not any(isinstance(n, ast.Name) and n.id == x and isinstance(n.ctx, ast.Load) for s2 in block[j:] for n in ast.walk(s2))):
                        del block[i]
                        done += 1
                        continue
            for fld in ("body", "orelse", "finalbody"):
                b = getattr(st, fld, None)
                if isinstance(b, list) and b and isinstance(b[0], ast.stmt) and not isinstance(st, FuncT + (ast.ClassDef,)):
                    alias_pass(b)
            i += 1
    alias_pass(fn.body)
    return done


# --------------------------------------------------------------------------------------------------
# N5: match statements over literal patterns -> if / elif chains

def _pattern_test(subject: ast.AST, pat: ast.pattern):
    """test expression equivalent to matching `subject` against a literal / singleton / or-of-literals / wildcard pattern;
    returns (test or None for 'always', ok)"""
    if isinstance(pat, ast.MatchValue) and isinstance(pat.value, (ast.Constant, ast.UnaryOp)):
        return ast.Compare(left=copy.deepcopy(subject), ops=[ast.Eq()], comparators=[pat.value]), True
    if isinstance(pat, ast.MatchSingleton):
        return ast.Compare(left=copy.deepcopy(subject), ops=[ast.Is()], comparators=[ast.Constant(value=pat.value)]), True
    if isinstance(pat, ast.MatchAs) and pat.pattern is None and pat.name is None:
        return None, True
    if isinstance(pat, ast.MatchOr):
        tests = []
        for p_ in pat.patterns:
            t, ok = _pattern_test(subject, p_)
            if not ok or t is None:
                return None, False
            tests.append(t)
        return ast.BoolOp(op=ast.Or(), values=tests), True
    return None, False


def _lower_match(fn) -> int:
    n = 0
    for blk in list(_blocks(fn)):
        i = 0
        while i < len(blk):
            st = blk[i]
            if isinstance(st, ast.Match) and _simple_arg(st.subject):
                chain = []
                ok = True
                for case in st.cases:
                    t, good = _pattern_test(st.subject, case.pattern)
                    if not good:
                        ok = False
                        break
                    if case.guard is not None:
                        t = case.guard if t is None else ast.BoolOp(op=ast.And(), values=[t, case.guard])
                    chain.append((t, case.body))
                if ok and chain:
                    # build from the last case backwards; a case without test (wildcard) ends the chain
                    orelse: list = []
                    for t, body in reversed(chain):
                        if t is None:
                            orelse = list(body)
                        else:
                            orelse = [ast.If(test=t, body=list(body), orelse=orelse)]
                    for x in orelse:
                        ast.copy_location(x, st)
                        ast.fix_missing_locations(x)
                    blk[i:i + 1] = orelse
                    n += 1
                    continue
            i += 1
    return n

# --------------------------------------------------------------------------------------------------
# N3: parameters that nobody passes

def _specialise_defaults(modules, ref_funcs, report) -> set:
    touched = set()
    # every call in the package by terminal callee name
    calls: dict[str, list[ast.Call]] = {}
    for mi in modules.values():
        for n in ast.walk(mi.tree):
            if isinstance(n, ast.Call):
                f = n.func
                nm = f.attr if isinstance(f, ast.Attribute) else (f.id if isinstance(f, ast.Name) else None)
                if nm:
                    calls.setdefault(nm, []).append(n)
    for name, mi in modules.items():
        reff = ref_funcs.get(name)
        if reff is None:
            continue
        for q, fn in _index_funcs(mi.tree).items():
            rf = reff.get(q)
            if rf is None:
                continue
            old = set(_params(rf))
            a = fn.args
            pos = list(a.posonlyargs) + list(a.args)
            defaults = dict(zip([p.arg for p in pos[len(pos) - len(a.defaults):]], a.defaults))
            for p, d in zip(a.kwonlyargs, a.kw_defaults):
                if d is not None:
                    defaults[p.arg] = d
            new = [p for p in _params(fn) if p not in old and p in defaults and _is_literal(defaults[p]) and not isinstance(defaults[p], ast.Call)]
            if not new:
                continue
            assigned = _stores(fn)
            mapping = {}
            for p in new:
                if p in assigned:
                    continue
                idx = next((i for i, x in enumerate(pos) if x.arg == p), None)
                passed = False
                for c in calls.get(fn.name, []):
                    if any(k.arg == p or k.arg is None for k in c.keywords):
                        passed = True
                    if any(isinstance(x, ast.Starred) for x in c.args):
                        passed = True
                    if idx is not None:
                        # methods are called with one positional fewer (self/cls bound)
                        n_self = 1 if pos and pos[0].arg in ("self", "cls") else 0
                        if len(c.args) > idx - n_self:
                            passed = True
                if not passed:
                    mapping[p] = defaults[p]
            if not mapping:
                continue
            s = _Subst(mapping)
            fn.body = [s.visit(b) for b in fn.body]
            if s.count:
                touched.add(fn)
            kind = "private" if fn.name.startswith("_") else "public"
            for p in mapping:
                report["specialised_params"].append(f"{name}:{q}({p}={ast.unparse(mapping[p])}) [{kind}]")
    return touched


# --------------------------------------------------------------------------------------------------
# N2: inlining

class _NoInline(Exception):
    pass


def _contains(node, types, skip_nested=True) -> bool:
    stack = list(ast.iter_child_nodes(node)) if not isinstance(node, list) else list(node)
    while stack:
        n = stack.pop()
        if isinstance(n, types):
            return True
        if skip_nested and isinstance(n, FuncT + (ast.Lambda, ast.ClassDef)):
            continue
        stack.extend(ast.iter_child_nodes(n))
    return False


def _strip_doc(body):
    if body and isinstance(body[0], ast.Expr) and isinstance(body[0].value, ast.Constant) and isinstance(body[0].value.value, str):
        return body[1:]
    return body


def _falls(body) -> bool:
    """may control fall off the end of this block? (conservative: True unless the last statement is a jump)"""
    if not body:
        return True
    last = body[-1]
    if isinstance(last, (ast.Return, ast.Raise, ast.Continue, ast.Break)):
        return False
    if isinstance(last, ast.If):
        return _falls(last.body) or _falls(last.orelse)
    return True


def _single_exit(stmts, ret: str):
    """rewrite a block with top-level guard returns into a block without returns that assigns `ret`"""
    out = []
    for i, s in enumerate(stmts):
        if isinstance(s, ast.Return):
            val = s.value if s.value is not None else ast.Constant(value=None)
            out.append(ast.copy_location(ast.Assign(targets=[ast.Name(id=ret, ctx=ast.Store())], value=val), s))
            return out
        if isinstance(s, ast.If) and _contains([s], ast.Return):
            rest = stmts[i + 1:]
            body = _single_exit(s.body, ret)
            orelse = _single_exit(s.orelse, ret)
            bf, of = _falls(s.body), _falls(s.orelse)
            if rest:
                if bf and of:
                    raise _NoInline("return inside a branch that also falls through")
                restx = _single_exit(rest, ret)
                if bf:
                    body = body + restx
                elif of:
                    orelse = orelse + restx
            new = ast.copy_location(ast.If(test=s.test, body=body or [ast.Pass()], orelse=orelse), s)
            new._synth = True  # type: ignore[attr-defined]
            out.append(new)
            return out
        if _contains([s], ast.Return):
            raise _NoInline("return inside a loop/try/with")
        out.append(s)
    return out


def _expr_form(body):
    """if c: return a ... return z  ->  a if c else (... z); None if not of that form"""
    body = _strip_doc(body)
    if not body:
        return None
    *guards, last = body
    if not (isinstance(last, ast.Return) and last.value is not None):
        return None
    e = last.value
    for g in reversed(guards):
        if not (isinstance(g, ast.If) and not g.orelse and len(g.body) == 1 and isinstance(g.body[0], ast.Return) and g.body[0].value is not None):
            return None
        e = ast.IfExp(test=g.test, body=g.body[0].value, orelse=e)
    return e


def _simple_arg(e) -> bool:
    if isinstance(e, (ast.Name, ast.Constant)):
        return True
    if isinstance(e, ast.Attribute):
        return _simple_arg(e.value)
    return False


class Candidate:
    def __init__(self, module, cls, fn):
        self.module, self.cls, self.fn = module, cls, fn
        decos = [ast.unparse(d) for d in fn.decorator_list]
        self.static = "staticmethod" in decos
        self.classm = "classmethod" in decos
        self.cm = any(d in ("contextmanager", "contextlib.contextmanager") for d in decos)
        self.ok = all(d in ("staticmethod", "classmethod", "contextmanager", "contextlib.contextmanager") for d in decos)
        a = fn.args
        if a.vararg or a.kwarg or isinstance(fn, ast.AsyncFunctionDef):
            self.ok = False
        self.gen = False
        if _contains(fn, (ast.YieldFrom, ast.Global, ast.Nonlocal, ast.Await)):
            self.ok = False
        elif self.cm:
            # before; yield [v]; after      or      before; try: yield [v] finally: after
            body = _strip_doc(fn.body)
            ys = [n for n in ast.walk(fn) if isinstance(n, ast.Yield)]
            last = body[-1] if body else None
            shape_ok = False
            if len(ys) == 1 and not _contains(fn, (ast.Return,)):
                if isinstance(last, ast.Try) and not last.handlers and not last.orelse and len(last.body) == 1 and isinstance(last.body[0], ast.Expr) and last.body[0].value is ys[0]:
                    shape_ok = not _contains(body[:-1], (ast.Yield,))
                else:
                    idx = [i for i, st in enumerate(body) if isinstance(st, ast.Expr) and st.value is ys[0]]
                    shape_ok = len(idx) == 1
            if not shape_ok:
                self.ok = False
        elif _contains(fn, (ast.Yield,)):
            # simple generator: ... prefix ...; for ...: ...; yield e   (single yield, last statement of the last loop)
            body = _strip_doc(fn.body)
            ys = [n for n in ast.walk(fn) if isinstance(n, ast.Yield)]
            last = body[-1] if body else None
            tail = last.body[-1] if isinstance(last, ast.For) and not last.orelse and last.body else None
            if len(ys) == 1 and isinstance(tail, ast.Expr) and tail.value is ys[0] and ys[0].value is not None and not _contains(fn, (ast.Return,)):
                self.gen = True
            else:
                self.ok = False
        if _contains(fn, FuncT + (ast.ClassDef,), skip_nested=False):
            self.ok = False
        if any(isinstance(n, ast.Call) and ((isinstance(n.func, ast.Name) and n.func.id == fn.name) or (isinstance(n.func, ast.Attribute) and n.func.attr == fn.name))
               for n in ast.walk(fn)):
            self.ok = False             # recursive
        self.inlined = 0


def _bind(c: Candidate, call: ast.Call, receiver):
    fn = c.fn
    a = fn.args
    pos = [p.arg for p in list(a.posonlyargs) + list(a.args)]
    bound: dict[str, ast.AST] = {}
    if c.cls is not None and not c.static:
        if not pos:
            raise _NoInline("method without self")
        first = pos.pop(0)
        if c.classm:
            # cls.attr on the class == receiver.attr for methods/class attributes (receiver is self, cls or the class name)
            if any(isinstance(n, ast.Name) and n.id == first and not isinstance(getattr(n, "_parent_attr", None), ast.Attribute) for n in ast.walk(fn)) and False:
                raise _NoInline("classmethod uses cls")
            bound[first] = receiver
        else:
            bound[first] = receiver
    if any(isinstance(x, ast.Starred) for x in call.args) or any(k.arg is None for k in call.keywords):
        raise _NoInline("star args")
    if len(call.args) > len(pos):
        raise _NoInline("too many args")
    for p, v in zip(pos, call.args):
        bound[p] = v
    allp = set(pos) | {p.arg for p in a.kwonlyargs}
    for k in call.keywords:
        if k.arg not in allp or k.arg in bound:
            raise _NoInline("bad keyword")
        bound[k.arg] = k.value
    full_pos = [p.arg for p in list(a.posonlyargs) + list(a.args)]
    defaults = dict(zip(full_pos[len(full_pos) - len(a.defaults):], a.defaults))
    for p, d in zip(a.kwonlyargs, a.kw_defaults):
        if d is not None:
            defaults[p.arg] = d
    for p in allp:
        if p not in bound:
            if p not in defaults:
                raise _NoInline("missing argument " + p)
            d = copy.deepcopy(defaults[p])
            d._from_default = True  # type: ignore[attr-defined]
            bound[p] = d
    return bound


_COUNTER = [0]
_CM_ENV: list = []


def _instantiate(c: Candidate, call: ast.Call, receiver, want_expr: bool):
    """returns (pre_statements, value_expression)"""
    if c.gen or c.cm:
        raise _NoInline("generator/context manager used outside a for/with statement")
    bound = _bind(c, call, receiver)
    _COUNTER[0] += 1
    k = _COUNTER[0]
    fn = copy.deepcopy(c.fn)
    body = _strip_doc(fn.body)
    assigned = _stores(fn)
    uses = {}
    for n in ast.walk(fn):
        if isinstance(n, ast.Name) and isinstance(n.ctx, ast.Load):
            uses[n.id] = uses.get(n.id, 0) + 1
    pre = []
    direct = {}
    for p, v in bound.items():
        if p not in assigned and _simple_arg(v):
            direct[p] = v
            continue
        tmp = f"{p}__i{k}"
        pre.append(ast.Assign(targets=[ast.Name(id=tmp, ctx=ast.Store())], value=copy.deepcopy(v)))
        if p in assigned:
            for n in ast.walk(fn):          # parameter re-bound in the body: it becomes a local
                if isinstance(n, ast.Name) and n.id == p:
                    n.id = tmp
        else:
            direct[p] = ast.Name(id=tmp, ctx=ast.Load())
    e = _expr_form(body)
    if e is not None:
        if pre and want_expr:
            raise _NoInline("argument needs a temporary in expression position")
        ren = {}
        for n in ast.walk(e):       # comprehension variables etc.
            if isinstance(n, ast.Name) and isinstance(n.ctx, ast.Store):
                ren[n.id] = f"{n.id}__i{k}"
        for n in ast.walk(e):
            if isinstance(n, ast.Name) and n.id in ren:
                n.id = ren[n.id]
        e = _Subst(direct, mark=False).visit(e)
        for s in pre:
            ast.copy_location(s, call)
            ast.fix_missing_locations(s)
        return pre, e
    if want_expr:
        raise _NoInline("statement-form helper in expression-only position")
    ret = f"ret__i{k}"
    stmts = _single_exit(body, ret)
    # rename locals
    locs = set()
    for s in stmts:
        for n in ast.walk(s):
            if isinstance(n, ast.Name) and isinstance(n.ctx, (ast.Store, ast.Del)) and n.id != ret and not n.id.endswith(f"__i{k}"):
                locs.add(n.id)
    locs -= set(direct)
    from .alpha import rename_scoped
    for s in stmts:
        rename_scoped(s, {x: f"{x}__i{k}" for x in locs})
    sub = _Subst(direct, mark=False)
    stmts = [sub.visit(s) for s in stmts]
    value: ast.AST = ast.Name(id=ret, ctx=ast.Load())
    # tail `ret = e` as last top-level statement: use e directly
    if stmts and isinstance(stmts[-1], ast.Assign) and isinstance(stmts[-1].targets[0], ast.Name) and stmts[-1].targets[0].id == ret \
            and not any(isinstance(n, ast.Name) and n.id == ret for s in stmts[:-1] for n in ast.walk(s)):
        value = stmts[-1].value
        stmts = stmts[:-1]
    elif _falls(stmts) and not any(isinstance(n, ast.Name) and n.id == ret for s in stmts for n in ast.walk(s)):
        value = ast.Constant(value=None)
    elif _falls_without_ret(stmts, ret):
        stmts = [ast.Assign(targets=[ast.Name(id=ret, ctx=ast.Store())], value=ast.Constant(value=None))] + stmts
    out = pre + stmts
    for s in out:
        for n in ast.walk(s):
            n._inl = True  # type: ignore[attr-defined]
            if not hasattr(n, "lineno") and isinstance(n, (ast.expr, ast.stmt)):
                ast.copy_location(n, call)
        ast.fix_missing_locations(s)
    for n in ast.walk(value):
        n._inl = True  # type: ignore[attr-defined]
    return out, value



def _instantiate_generator(c: Candidate, call: ast.Call, receiver, loop: ast.For):
    """for T in gen(args): BODY   ->   prefix; for ...: pre; T = e; BODY"""
    bound = _bind(c, call, receiver)
    _COUNTER[0] += 1
    k = _COUNTER[0]
    fn = copy.deepcopy(c.fn)
    body = _strip_doc(fn.body)
    assigned = _stores(fn)
    pre, direct = [], {}
    for p, v in bound.items():
        if p not in assigned and _simple_arg(v):
            direct[p] = v
            continue
        tmp = f"{p}__i{k}"
        pre.append(ast.Assign(targets=[ast.Name(id=tmp, ctx=ast.Store())], value=copy.deepcopy(v)))
        if p in assigned:
            for n in ast.walk(fn):
                if isinstance(n, ast.Name) and n.id == p:
                    n.id = tmp
        else:
            direct[p] = ast.Name(id=tmp, ctx=ast.Load())
    locs = {n.id for st in body for n in ast.walk(st) if isinstance(n, ast.Name) and isinstance(n.ctx, (ast.Store, ast.Del))} - set(direct)
    from .alpha import rename_scoped
    for st in body:
        rename_scoped(st, {x: f"{x}__i{k}" for x in locs})
    sub = _Subst(direct, mark=False)
    body = [sub.visit(st) for st in body]
    gloop = body[-1]
    y = gloop.body[-1].value
    assign = ast.Assign(targets=[copy.deepcopy(loop.target)], value=y.value)
    gloop.body = gloop.body[:-1] + [assign] + loop.body
    out = pre + body
    for st in out:
        for n in ast.walk(st):
            n._inl = True  # type: ignore[attr-defined]
            if not hasattr(n, "lineno") and isinstance(n, (ast.expr, ast.stmt)):
                ast.copy_location(n, call)
        ast.fix_missing_locations(st)
    return out



def _instantiate_cm(c: Candidate, call: ast.Call, receiver, w: ast.With):
    """with cm(args) [as v]: BODY   ->   before; [v = yielded]; try: BODY finally: after   (or before; BODY; after)"""
    bound = _bind(c, call, receiver)
    _COUNTER[0] += 1
    k = _COUNTER[0]
    fn = copy.deepcopy(c.fn)
    body = _strip_doc(fn.body)
    assigned = _stores(fn)
    pre, direct = [], {}
    for p, v in bound.items():
        if p not in assigned and _simple_arg(v):
            direct[p] = v
            continue
        tmp = f"{p}__i{k}"
        pre.append(ast.Assign(targets=[ast.Name(id=tmp, ctx=ast.Store())], value=copy.deepcopy(v)))
        if p in assigned:
            for n in ast.walk(fn):
                if isinstance(n, ast.Name) and n.id == p:
                    n.id = tmp
        else:
            direct[p] = ast.Name(id=tmp, ctx=ast.Load())
    locs = {n.id for st in body for n in ast.walk(st) if isinstance(n, ast.Name) and isinstance(n.ctx, (ast.Store, ast.Del))} - set(direct)
    from .alpha import rename_scoped
    for st in body:
        rename_scoped(st, {x: f"{x}__i{k}" for x in locs})
    sub = _Subst(direct, mark=False)
    body = [sub.visit(st) for st in body]
    var = w.items[0].optional_vars

    def bind_var(y):
        if var is None:
            return []
        return [ast.Assign(targets=[copy.deepcopy(var)], value=y.value if y.value is not None else ast.Constant(value=None))]
    last = body[-1]
    if isinstance(last, ast.Try):
        y = last.body[0].value
        last.body = bind_var(y) + w.body
        out = pre + body
    else:
        idx = next(i for i, st in enumerate(body) if isinstance(st, ast.Expr) and isinstance(st.value, ast.Yield))
        y = body[idx].value
        out = pre + body[:idx] + bind_var(y) + w.body + body[idx + 1:]
    for st in out:
        for n in ast.walk(st):
            n._inl = True  # type: ignore[attr-defined]
            if not hasattr(n, "lineno") and isinstance(n, (ast.expr, ast.stmt)):
                ast.copy_location(n, call)
        ast.fix_missing_locations(st)
    return out



def _class_cm_expand(w: ast.With, modules, ref_names, by_name_any, receiver_of):
    """with Cls(args) [as v]: BODY  /  with obj.m(args): BODY  where m is a NEW method `return Cls(args')` and Cls is a NEW
    class whose __init__ only stores its parameters, with simple __enter__/__exit__ :
        ->  <__enter__ body>; [v = <enter value>]; try: BODY finally: <__exit__ body>
    Conditions: __exit__ does not look at its exception arguments and returns False/None (does not swallow)."""
    call = w.items[0].context_expr
    if not isinstance(call, ast.Call):
        return None
    # step 1: a new method that only constructs the scope object
    f = call.func
    nm = f.attr if isinstance(f, ast.Attribute) else (f.id if isinstance(f, ast.Name) else None)
    ctor = call
    recv = f.value if isinstance(f, ast.Attribute) else None
    meth = by_name_any.get(nm)
    if meth is not None:
        mfn, mcls = meth
        e = _expr_form(mfn.body)
        if e is None or not isinstance(e, ast.Call) or not isinstance(e.func, ast.Name):
            return None
        cand = Candidate("", mcls, mfn)
        cand.ok = True
        try:
            bound = _bind(cand, call, recv if recv is not None else ast.Name(id="self", ctx=ast.Load()))
        except _NoInline:
            return None
        if not all(_simple_arg(v) or isinstance(v, ast.Constant) for v in bound.values()):
            return None
        ctor = _Subst(bound, mark=False).visit(copy.deepcopy(e))
    if not isinstance(ctor.func, ast.Name):
        return None
    cname = ctor.func.id
    cnode = None
    for mname, mi in modules.items():
        for n in mi.tree.body:
            if isinstance(n, ast.ClassDef) and n.name == cname and cname not in ref_names.get(mname, {cname}):
                cnode = n
    if cnode is None or cnode.bases or cnode.decorator_list:
        return None
    methods = {b.name: b for b in cnode.body if isinstance(b, FuncT)}
    if set(methods) - {"__init__", "__enter__", "__exit__"} or not {"__init__", "__enter__", "__exit__"} <= set(methods):
        return None
    init, enter, exit_ = methods["__init__"], methods["__enter__"], methods["__exit__"]
    # __init__: self.a = p   only
    fields = {}
    for st in _strip_doc(init.body):
        if isinstance(st, ast.Assign) and len(st.targets) == 1 and isinstance(st.targets[0], ast.Attribute) and isinstance(st.targets[0].value, ast.Name) \
                and st.targets[0].value.id == "self" and isinstance(st.value, ast.Name):
            fields[st.targets[0].attr] = st.value.id
        else:
            return None
    cand = Candidate("", cname, init)
    cand.ok = True
    try:
        bound = _bind(cand, ctor, ast.Name(id="self", ctx=ast.Load()))
    except _NoInline:
        return None
    if not all(_simple_arg(v) or isinstance(v, ast.Constant) for k, v in bound.items() if k != "self"):
        return None
    fieldval = {a: bound[p_] for a, p_ in fields.items() if p_ in bound}
    if len(fieldval) != len(fields):
        return None

    class SelfAttr(ast.NodeTransformer):
        def __init__(self):
            self.bad = False

        def visit_Attribute(self, n):
            self.generic_visit(n)
            if isinstance(n.value, ast.Name) and n.value.id == "self":
                if n.attr in fieldval and isinstance(n.ctx, ast.Load):
                    return copy.deepcopy(fieldval[n.attr])
                self.bad = True
            return n

        def visit_Name(self, n):
            if n.id == "self":
                self.bad = self.bad or not isinstance(getattr(n, "_parent_ok", None), bool)
            return n
    # __exit__: no use of the exception arguments, returns False/None
    ex_params = [a.arg for a in exit_.args.args[1:]]
    ex_body = _strip_doc(exit_.body)
    if any(isinstance(n, ast.Name) and n.id in ex_params for st in ex_body for n in ast.walk(st)):
        return None
    if ex_body and isinstance(ex_body[-1], ast.Return):
        rv = ex_body[-1].value
        if not (rv is None or (isinstance(rv, ast.Constant) and rv.value in (False, None))):
            return None
        ex_body = ex_body[:-1]
    if _contains(ex_body, (ast.Return, ast.Yield)):
        return None
    en_body = _strip_doc(enter.body)
    en_val = None
    if en_body and isinstance(en_body[-1], ast.Return):
        en_val = en_body[-1].value
        en_body = en_body[:-1]
    if _contains(en_body, (ast.Return, ast.Yield)):
        return None

    def conv(stmts):
        out = []
        for st in stmts:
            t = SelfAttr()
            c = t.visit(copy.deepcopy(st))
            if any(isinstance(n, ast.Name) and n.id == "self" for n in ast.walk(c)):
                return None
            out.append(c)
        return out
    pre, post = conv(en_body), conv(ex_body)
    if pre is None or post is None:
        return None
    bindv = []
    if w.items[0].optional_vars is not None:
        if en_val is None:
            val = ast.Constant(value=None)
        else:
            t = SelfAttr()
            val = t.visit(copy.deepcopy(en_val))
            if any(isinstance(n, ast.Name) and n.id == "self" for n in ast.walk(val)):
                return None
        bindv = [ast.Assign(targets=[copy.deepcopy(w.items[0].optional_vars)], value=val)]
    tr = ast.Try(body=bindv + w.body, handlers=[], orelse=[], finalbody=post or [ast.Pass()])
    out = pre + [tr]
    for st in out:
        for n in ast.walk(st):
            n._inl = True  # type: ignore[attr-defined]
            if not hasattr(n, "lineno") and isinstance(n, (ast.expr, ast.stmt)):
                ast.copy_location(n, w)
        ast.fix_missing_locations(st)
    return out


def _falls_without_ret(stmts, ret) -> bool:
    """could the block complete without assigning ret? (conservative)"""
    def assigns(block) -> bool:
        for s in block:
            if isinstance(s, ast.Assign) and any(isinstance(t, ast.Name) and t.id == ret for t in s.targets):
                return True
            if isinstance(s, ast.If) and assigns(s.body) and assigns(s.orelse):
                return True
        return False
    return not assigns(stmts)


def _pure_before(stmt_expr_root: ast.AST, call: ast.Call) -> bool:
    """is everything evaluated before `call` inside this expression free of calls (so hoisting the callee's
    statements before the statement does not reorder effects), and is the call evaluated unconditionally?"""
    ok = [True]
    found = [False]

    def rec(n, conditional):
        if found[0]:
            return
        if n is call:
            found[0] = True
            if conditional:
                ok[0] = False
            # arguments of the call itself are evaluated before the body: they are handled by binding
            return
        if isinstance(n, (ast.Lambda, ast.ListComp, ast.SetComp, ast.DictComp, ast.GeneratorExp)):
            if any(x is call for x in ast.walk(n)):
                ok[0] = False
                found[0] = True
            return
        if isinstance(n, ast.BoolOp):
            for i, v in enumerate(n.values):
                rec(v, conditional or i > 0)
            return
        if isinstance(n, ast.IfExp):
            rec(n.test, conditional)
            rec(n.body, True)
            rec(n.orelse, True)
            return
        if isinstance(n, ast.Call):
            # evaluation order: func, args, keywords; then the call happens (after `call` if it is an argument)
            for c in ast.iter_child_nodes(n):
                rec(c, conditional)
            if not found[0]:
                ok[0] = False        # an earlier call would be reordered after the inlined statements
            return
        for c in ast.iter_child_nodes(n):
            rec(c, conditional)
    rec(stmt_expr_root, False)
    return ok[0] and found[0]



_EAGER_CONSUMERS = {"list", "tuple", "sorted", "set", "frozenset", "sum", "max", "min"}


def _comp_to_loop(stmt, root, call):
    """the candidate call sits inside a single-generator list comprehension / fully consumed generator expression:
    rewrite   S[ [E for T in IT if C] ]   as   tmp = []; for T in IT: if C: tmp.append(E);  S[tmp]
    (only when nothing impure is evaluated before the comprehension inside S)"""
    comp = None
    parents = {}
    for n in ast.walk(root):
        for ch in ast.iter_child_nodes(n):
            parents[ch] = n
    n = call
    while n in parents:
        n = parents[n]
        if isinstance(n, (ast.ListComp, ast.GeneratorExp, ast.SetComp, ast.DictComp, ast.Lambda)):
            comp = n
            break
    if comp is None or not isinstance(comp, (ast.ListComp, ast.GeneratorExp)) or len(comp.generators) != 1 or comp.generators[0].is_async:
        return None
    # nested inside another comprehension/lambda?
    m = comp
    while m in parents:
        m = parents[m]
        if isinstance(m, (ast.ListComp, ast.GeneratorExp, ast.SetComp, ast.DictComp, ast.Lambda)):
            return None
    if isinstance(comp, ast.GeneratorExp):
        par = parents.get(comp)
        ok = isinstance(par, ast.Call) and len(par.args) == 1 and par.args[0] is comp and not par.keywords and (
            (isinstance(par.func, ast.Name) and par.func.id in _EAGER_CONSUMERS)
            or (isinstance(par.func, ast.Attribute) and par.func.attr in ("join", "extend", "update")))
        if not ok:
            return None
    if not _pure_before(root, comp) if comp is not root else False:
        return None
    g = comp.generators[0]
    # the candidate call must not be in the iterable (evaluated once: plain hoisting handles that)
    if any(x is call for x in ast.walk(g.iter)):
        return None
    _COUNTER[0] += 1
    tmp = f"items__i{_COUNTER[0]}"
    app = ast.Expr(value=ast.Call(func=ast.Attribute(value=ast.Name(id=tmp, ctx=ast.Load()), attr="append", ctx=ast.Load()), args=[comp.elt], keywords=[]))
    body = [app]
    for c in reversed(g.ifs):
        body = [ast.If(test=c, body=body, orelse=[])]
    loop = ast.For(target=g.target, iter=g.iter, body=body, orelse=[])
    init = ast.Assign(targets=[ast.Name(id=tmp, ctx=ast.Store())], value=ast.List(elts=[], ctx=ast.Load()))
    _replace(stmt, comp, ast.Name(id=tmp, ctx=ast.Load()))
    out = [init, loop]
    for st in out:
        ast.copy_location(st, stmt)
        for x in ast.walk(st):
            if not hasattr(x, "lineno") and isinstance(x, (ast.expr, ast.stmt)):
                ast.copy_location(x, stmt)
        ast.fix_missing_locations(st)
    return out


def _class_chain(modules, cls_name):
    """class node and (by name) its package bases, nearest first"""
    index = {}
    for mi in modules.values():
        for n in mi.tree.body:
            if isinstance(n, ast.ClassDef):
                index.setdefault(n.name, n)
    out, seen = [], set()
    todo = [cls_name]
    while todo:
        c = todo.pop(0)
        if c in seen or c not in index:
            continue
        seen.add(c)
        out.append(index[c])
        for b in index[c].bases:
            nm = b.id if isinstance(b, ast.Name) else (b.attr if isinstance(b, ast.Attribute) else None)
            if nm:
                todo.append(nm)
    return out


def _inline_helpers(modules, ref_funcs, report, ref_names=None) -> None:
    # new methods (public or private) that merely construct an object: name -> (fn, class)   [for class-based context managers]
    any_new = {}
    for name, mi in modules.items():
        reff = ref_funcs.get(name)
        if reff is None:
            continue
        for n in mi.tree.body:
            if isinstance(n, ast.ClassDef):
                for b in n.body:
                    if isinstance(b, FuncT) and f"{n.name}.{b.name}" not in reff and not b.name.startswith("__") and not b.decorator_list:
                        any_new[b.name] = (b, n.name)
    _CM_ENV[:] = [modules, ref_names or {}, any_new, None]
    _inline_helpers_core(modules, ref_funcs, report)
    _CM_ENV[:] = []


def _inline_helpers_core(modules, ref_funcs, report) -> None:
    # candidates: new private functions/methods
    cands: dict[tuple, Candidate] = {}       # (module, class or None, name) -> Candidate
    for name, mi in modules.items():
        reff = ref_funcs.get(name)
        if reff is None:
            continue
        for n in mi.tree.body:
            if isinstance(n, FuncT) and n.name.startswith("_") and not n.name.startswith("__") and n.name not in reff:
                cands[(name, None, n.name)] = Candidate(name, None, n)
            elif isinstance(n, ast.ClassDef):
                for b in n.body:
                    is_cm = isinstance(b, FuncT) and any(ast.unparse(d) in ("contextmanager", "contextlib.contextmanager") for d in b.decorator_list)
                    if isinstance(b, FuncT) and (b.name.startswith("_") or is_cm) and not b.name.startswith("__") and f"{n.name}.{b.name}" not in reff:
                        cands[(name, n.name, b.name)] = Candidate(name, n.name, b)
    cands = {k: c for k, c in cands.items() if c.ok}
    by_name: dict[str, list[Candidate]] = {}
    for c in cands.values():
        by_name.setdefault(c.fn.name, []).append(c)
    # names defined more than once anywhere in the package are ambiguous: skip
    defs: dict[str, int] = {}
    for mi in modules.values():
        for n in ast.walk(mi.tree):
            if isinstance(n, FuncT):
                defs[n.name] = defs.get(n.name, 0) + 1
    by_name = {k: v for k, v in by_name.items() if defs.get(k, 0) == 1}
    if not by_name and not _CM_ENV[2]:
        return

    singletons: dict[str, str] = {}        # module-level NAME = ClassName()
    for mi in modules.values():
        for n in mi.tree.body:
            if isinstance(n, ast.Assign) and len(n.targets) == 1 and isinstance(n.targets[0], ast.Name) and isinstance(n.value, ast.Call) \
                    and isinstance(n.value.func, ast.Name) and not n.value.args and not n.value.keywords:
                singletons.setdefault(n.targets[0].id, n.value.func.id)

    def resolve(call: ast.Call, mod: str, cls: str | None):
        f = call.func
        if isinstance(f, ast.Name) and f.id in by_name:
            c = by_name[f.id][0]
            if c.cls is None and c.module == mod:
                return c, None
            if c.cls is None and _imports(modules[mod], f.id, c.module) and _globals_available(modules, c, mod):
                return c, None
        if isinstance(f, ast.Attribute) and f.attr in by_name:
            c = by_name[f.attr][0]
            if c.cls is None:
                return None
            if isinstance(f.value, ast.Name) and f.value.id in ("self", "cls") and cls is not None:
                chain = [x.name for x in _class_chain(modules, cls)]
                if c.cls in chain:
                    return c, f.value
            if isinstance(f.value, ast.Name) and f.value.id == c.cls and (c.static or c.classm):
                return c, f.value
            if isinstance(f.value, ast.Name) and singletons.get(f.value.id) == c.cls:
                return c, f.value
        return None

    def calls_candidates(fn) -> bool:
        if _CM_ENV and _CM_ENV[2] and any(isinstance(n, ast.With) for n in ast.walk(fn)):
            return True
        return any(isinstance(n, ast.Call) and ((isinstance(n.func, ast.Name) and n.func.id in by_name) or (isinstance(n.func, ast.Attribute) and n.func.attr in by_name)) for n in ast.walk(fn))

    for _round in range(4):
        changed = False
        for mod, mi in modules.items():
            for owner_cls, fn in _all_functions(mi.tree):
                if not calls_candidates(fn):
                    continue
                me = by_name.get(fn.name, [None])[0]
                if me is not None and me.fn is fn:
                    # a helper calling another helper: inline the inner one first (bottom-up over rounds)
                    pass
                if _inline_in_block(fn, "body", mod, owner_cls, resolve, by_name, report):
                    changed = True
        if not changed:
            break
    # dissolve helpers whose every call site was inlined
    remaining: dict[str, int] = {k: 0 for k in by_name}
    for mi in modules.values():
        for n in ast.walk(mi.tree):
            if isinstance(n, ast.Call):
                f = n.func
                nm = f.attr if isinstance(f, ast.Attribute) else (f.id if isinstance(f, ast.Name) else None)
                if nm in remaining:
                    remaining[nm] += 1
            elif isinstance(n, ast.Attribute) and n.attr in remaining and not isinstance(getattr(n, "ctx", None), ast.Store):
                pass
    # references other than calls (passed as a value) keep the helper alive
    for mi in modules.values():
        parents = {}
        for n in ast.walk(mi.tree):
            for ch in ast.iter_child_nodes(n):
                parents[ch] = n
        for n in ast.walk(mi.tree):
            nm = n.attr if isinstance(n, ast.Attribute) else (n.id if isinstance(n, ast.Name) and isinstance(n.ctx, ast.Load) else None)
            if nm in remaining:
                p = parents.get(n)
                if not (isinstance(p, ast.Call) and p.func is n):
                    remaining[nm] += 1
    for nm, cs in by_name.items():
        c = cs[0]
        if c.inlined and remaining[nm] == 0 and nm.startswith("_"):
            mi = modules[c.module]
            if c.cls is None:
                mi.tree.body = [x for x in mi.tree.body if x is not c.fn]
            else:
                for n in mi.tree.body:
                    if isinstance(n, ast.ClassDef) and n.name == c.cls:
                        n.body = [x for x in n.body if x is not c.fn] or [ast.Pass()]
            report["dissolved"].append(f"{c.module}:{(c.cls + '.') if c.cls else ''}{nm}")
            if c.cls is None:
                # imports of the dissolved function elsewhere in the package
                for m2 in modules.values():
                    for holder in ast.walk(m2.tree):
                        for fld in ("body", "orelse", "finalbody"):
                            blk = getattr(holder, fld, None)
                            if not (isinstance(blk, list) and blk and isinstance(blk[0], ast.stmt)):
                                continue
                            for st in list(blk):
                                if isinstance(st, ast.ImportFrom) and any(a.name == nm for a in st.names):
                                    st.names = [a for a in st.names if a.name != nm]
                                    if not st.names:
                                        blk[blk.index(st)] = ast.copy_location(ast.Pass(), st)


def _module_bindings(mi) -> dict:
    """top-level name -> origin text (import source or 'def') of a module"""
    cached = getattr(mi, "_bindings", None)
    if cached is not None:
        return cached
    out = {}
    for n in mi.tree.body:
        if isinstance(n, ast.ImportFrom):
            for a in n.names:
                out[a.asname or a.name] = f"{'.' * n.level}{n.module or ''}:{a.name}"
        elif isinstance(n, ast.Import):
            for a in n.names:
                out[(a.asname or a.name).split(".")[0]] = "import " + a.name
        elif isinstance(n, (ast.ClassDef,) + FuncT):
            out[n.name] = "def"
        else:
            for t in _targets(n):
                out[t] = "assign"
    try:
        mi._bindings = out
    except Exception:
        pass
    return out


def _globals_available(modules, c, caller_mod: str) -> bool:
    """every module-level name the helper's body uses means the same thing in the calling module (same import origin)"""
    import builtins
    here, there = _module_bindings(modules[c.module]), _module_bindings(modules[caller_mod])
    bound = _stores(c.fn) | set(_params(c.fn))
    for n in ast.walk(c.fn):
        if isinstance(n, ast.Name) and isinstance(n.ctx, ast.Load) and n.id not in bound and not hasattr(builtins, n.id):
            o = here.get(n.id)
            if o is None:
                continue
            o2 = there.get(n.id)
            if o2 is None:
                return False
            # relative imports may be spelled differently in the two modules: compare the imported name only
            if o.split(":")[-1] != o2.split(":")[-1] or (o.startswith("import ") != o2.startswith("import ")):
                return False
    return True


def _imports(mi, name, module) -> bool:
    for n in ast.walk(mi.tree):
        if isinstance(n, ast.ImportFrom) and any((a.asname or a.name) == name for a in n.names):
            return True
    return False


def _all_functions(tree):
    for n in tree.body:
        if isinstance(n, FuncT):
            yield None, n
        elif isinstance(n, ast.ClassDef):
            for b in n.body:
                if isinstance(b, FuncT):
                    yield n.name, b


_HEADER_FIELDS = {ast.If: ["test"], ast.For: ["iter"], ast.With: [], ast.Return: ["value"], ast.Assign: ["value"], ast.AugAssign: ["value"],
                  ast.AnnAssign: ["value"], ast.Expr: ["value"], ast.Raise: ["exc"], ast.Assert: ["test"]}


def _inline_in_block(owner, field, mod, cls, resolve, by_name, report) -> bool:
    """inline candidate calls in owner.<field> (a statement list), recursing into nested blocks"""
    changed = False
    block = getattr(owner, field)
    i = 0
    while i < len(block):
        s = block[i]
        fields = _HEADER_FIELDS.get(type(s))
        did = False
        if isinstance(s, ast.With) and len(s.items) == 1 and isinstance(s.items[0].context_expr, ast.Call):
            r = resolve(s.items[0].context_expr, mod, cls)
            if r is not None and r[0].cm and r[0].fn is not owner:
                try:
                    new_stmts = _instantiate_cm(r[0], s.items[0].context_expr, r[1], s)
                    block[i:i + 1] = new_stmts
                    r[0].inlined += 1
                    report["inlined"].append(f"context manager {r[0].fn.name} -> {getattr(owner, 'name', '?')}")
                    changed = True
                    continue
                except _NoInline as e:
                    report["not_inlined"].append(f"{r[0].fn.name}: {e}")
        if isinstance(s, ast.With) and len(s.items) == 1 and isinstance(s.items[0].context_expr, ast.Call) and _CM_ENV:
            exp = _class_cm_expand(s, *_CM_ENV)
            if exp is not None:
                block[i:i + 1] = exp
                report["inlined"].append(f"class-based context manager -> {getattr(owner, 'name', '?')}")
                changed = True
                continue
        if isinstance(s, ast.For) and isinstance(s.iter, ast.Call) and not s.orelse:
            r = resolve(s.iter, mod, cls)
            if r is not None and r[0].gen and r[0].fn is not owner:
                try:
                    new_stmts = _instantiate_generator(r[0], s.iter, r[1], s)
                    block[i:i + 1] = new_stmts
                    r[0].inlined += 1
                    report["inlined"].append(f"generator {r[0].fn.name} -> {getattr(owner, 'name', '?')}")
                    changed = True
                    continue
                except _NoInline as e:
                    report["not_inlined"].append(f"{r[0].fn.name}: {e}")
        if fields is not None:
            for fld in fields:
                root = getattr(s, fld, None)
                if root is None:
                    continue
                for call in [n for n in ast.walk(root) if isinstance(n, ast.Call)]:
                    r = resolve(call, mod, cls)
                    if r is None:
                        continue
                    c, recv = r
                    if c.fn is owner:
                        continue
                    hoistable = _pure_before(root, call) and not (isinstance(s, ast.AugAssign))
                    try:
                        pre, value = _instantiate(c, call, recv, want_expr=not hoistable)
                    except _NoInline as e:
                        if not hoistable and not isinstance(s, (ast.If, ast.For)):
                            conv = _comp_to_loop(s, root, call)
                            if conv is not None:
                                block[i:i] = conv
                                report["inlined"].append(f"comprehension -> loop in {getattr(owner, 'name', '?')} (for {c.fn.name})")
                                did = True
                                break
                        report["not_inlined"].append(f"{c.fn.name} at line {getattr(call, 'lineno', '?')}: {e}")
                        continue
                    # copy propagation: x = helper(...) whose value is a fresh local of the inlined block
                    if isinstance(s, ast.Assign) and s.value is call and len(s.targets) == 1 and isinstance(s.targets[0], ast.Name) \
                            and isinstance(value, ast.Name) and value.id.endswith(f"__i{_COUNTER[0]}"):
                        tgt = s.targets[0].id
                        if not any(isinstance(n, ast.Name) and n.id == tgt for p in pre for n in ast.walk(p)):
                            for p in pre:
                                for n in ast.walk(p):
                                    if isinstance(n, ast.Name) and n.id == value.id:
                                        n.id = tgt
                            block[i:i + 1] = pre
                            c.inlined += 1
                            report["inlined"].append(f"{c.fn.name} -> {getattr(owner, 'name', '?')}")
                            did = True
                            break
                    if isinstance(s, ast.Expr) and s.value is call:
                        # value discarded: drop the statement and the assignments of the result variable
                        rname = value.id if isinstance(value, ast.Name) and value.id.startswith("ret__i") else None
                        if rname:
                            pre = _drop_assignments(pre, rname)
                        elif any(isinstance(n, ast.Call) for n in ast.walk(value)):
                            pre = pre + [ast.copy_location(ast.Expr(value=value), s)]
                        block[i:i + 1] = pre or [ast.copy_location(ast.Pass(), s)]
                        c.inlined += 1
                        report["inlined"].append(f"{c.fn.name} -> {getattr(owner, 'name', '?')}")
                        did = True
                        break
                    _replace(s, call, value)
                    block[i:i] = pre
                    c.inlined += 1
                    report["inlined"].append(f"{c.fn.name} -> {getattr(owner, 'name', '?')}")
                    did = True
                    break
                if did:
                    break
        if did:
            changed = True
            continue        # re-examine from the same index (the inlined statements may contain further calls)
        for fld in ("body", "orelse", "finalbody"):
            b = getattr(s, fld, None)
            if isinstance(b, list) and b and isinstance(b[0], ast.stmt) and not isinstance(s, FuncT + (ast.ClassDef,)):
                if _inline_in_block(s, fld, mod, cls, resolve, by_name, report):
                    changed = True
        if isinstance(s, ast.Try):
            for h in s.handlers:
                if _inline_in_block(h, "body", mod, cls, resolve, by_name, report):
                    changed = True
        i += 1
    return changed


def _drop_assignments(stmts, name):
    out = []
    for st in stmts:
        if isinstance(st, ast.Assign) and len(st.targets) == 1 and isinstance(st.targets[0], ast.Name) and st.targets[0].id == name:
            if any(isinstance(n, ast.Call) for n in ast.walk(st.value)):
                out.append(ast.copy_location(ast.Expr(value=st.value), st))
            continue
        for fld in ("body", "orelse", "finalbody"):
            b = getattr(st, fld, None)
            if isinstance(b, list) and b and isinstance(b[0], ast.stmt):
                nb = _drop_assignments(b, name)
                setattr(st, fld, nb if (nb or fld != "body") else [ast.copy_location(ast.Pass(), st)])
        out.append(st)
    return out


def _replace(stmt, old, new) -> None:
    for parent in ast.walk(stmt):
        for fld, val in ast.iter_fields(parent):
            if val is old:
                setattr(parent, fld, new)
                return
            if isinstance(val, list):
                for j, x in enumerate(val):
                    if x is old:
                        val[j] = new
                        return




# --------------------------------------------------------------------------------------------------
# N2b: new nested closures in expression form

def _inline_closures(modules, ref_funcs, report) -> None:
    for name, mi in modules.items():
        reff = ref_funcs.get(name)
        if reff is None:
            continue
        for q, fn in list(_index_funcs(mi.tree).items()):
            if ".<locals>." in q:
                continue
            for blk_owner in [fn] + [n for n in ast.walk(fn) if isinstance(n, (ast.If, ast.For, ast.While, ast.With, ast.Try))]:
                for fld in ("body", "orelse", "finalbody"):
                    blk = getattr(blk_owner, fld, None)
                    if not (isinstance(blk, list) and blk and isinstance(blk[0], ast.stmt)):
                        continue
                    for d in [x for x in blk if isinstance(x, ast.FunctionDef)]:
                        if f"{q}.<locals>.{d.name}" in reff or d.decorator_list:
                            continue
                        a = d.args
                        if a.vararg or a.kwarg or a.kwonlyargs or a.defaults or a.posonlyargs:
                            continue
                        e = _expr_form(d.body)
                        if e is None or _contains(d, (ast.Yield, ast.YieldFrom, ast.Await, ast.Lambda) + FuncT):
                            continue
                        params = [x.arg for x in a.args]
                        if any(isinstance(n, ast.Name) and n.id == d.name for n in ast.walk(e)):
                            continue        # recursive
                        # names bound inside the body expression (comprehension variables)
                        inner = {n.id for n in ast.walk(e) if isinstance(n, ast.Name) and isinstance(n.ctx, ast.Store)}
                        free = {n.id for n in ast.walk(e) if isinstance(n, ast.Name) and isinstance(n.ctx, ast.Load)} - inner - set(params)
                        # the closure reads `free` at call time: they must not be re-bound between definition and calls
                        # (checked conservatively: each is assigned at most once in the enclosing function)
                        counts = {}
                        for n in ast.walk(fn):
                            if isinstance(n, ast.Name) and isinstance(n.ctx, (ast.Store, ast.Del)) and n.id in free:
                                counts[n.id] = counts.get(n.id, 0) + 1
                        if any(c > 1 for c in counts.values()):
                            continue
                        calls = [n for n in ast.walk(fn) if isinstance(n, ast.Call) and isinstance(n.func, ast.Name) and n.func.id == d.name]
                        others = [n for n in ast.walk(fn) if isinstance(n, ast.Name) and n.id == d.name and isinstance(n.ctx, ast.Load)
                                  and not any(c.func is n for c in calls)]
                        if others or not calls:
                            continue
                        ok = True
                        for c in calls:
                            if c.keywords or len(c.args) != len(params) or any(isinstance(x, ast.Starred) for x in c.args):
                                ok = False
                            # arguments are substituted: each parameter may be used at most once unless the argument is simple
                            for prm, arg in zip(params, c.args):
                                uses = sum(1 for n in ast.walk(e) if isinstance(n, ast.Name) and n.id == prm)
                                if uses > 1 and not _simple_arg(arg):
                                    ok = False
                                # capture: the argument must not mention a name the body binds
                                if any(isinstance(n, ast.Name) and n.id in inner for n in ast.walk(arg)):
                                    ok = False
                        if not ok:
                            continue
                        for c in calls:
                            _COUNTER[0] += 1
                            k = _COUNTER[0]
                            body = copy.deepcopy(e)
                            for n in ast.walk(body):
                                if isinstance(n, ast.Name) and n.id in inner:
                                    n.id = f"{n.id}__i{k}"
                            body = _Subst(dict(zip(params, c.args)), mark=False).visit(body)
                            for n in ast.walk(body):
                                if isinstance(n, (ast.expr, ast.stmt)):
                                    ast.copy_location(n, c) if not hasattr(n, "lineno") else None
                            _replace(fn, c, body)
                        blk.remove(d)
                        if not blk:
                            blk.append(ast.copy_location(ast.Pass(), d))
                        report["inlined"].append(f"closure {d.name} -> {q} x{len(calls)}")

# --------------------------------------------------------------------------------------------------
# clean-up after inlining (only constructs the inliner produced: synthesised ifs and `__iN` names)

def _same(a, b) -> bool:
    return ast.dump(a) == ast.dump(b)


def _negate(e):
    if isinstance(e, ast.UnaryOp) and isinstance(e.op, ast.Not):
        return e.operand
    return ast.copy_location(ast.UnaryOp(op=ast.Not(), operand=e), e)


def _cleanup_block(block: list) -> list:
    out = []
    for s in block:
        for fld in ("body", "orelse", "finalbody"):
            b = getattr(s, fld, None)
            if isinstance(b, list) and b and isinstance(b[0], ast.stmt) and not isinstance(s, FuncT + (ast.ClassDef,)):
                setattr(s, fld, _cleanup_block(b))
        if isinstance(s, ast.Try):
            for h in s.handlers:
                h.body = _cleanup_block(h.body)
        if isinstance(s, ast.If) and getattr(s, "_synth", False):
            tail = []
            # C1: identical trailing statements of both branches move behind the if
            while s.body and s.orelse and _same(s.body[-1], s.orelse[-1]) and not isinstance(s.body[-1], (ast.Return, ast.Continue, ast.Break, ast.Raise)):
                tail.insert(0, s.body.pop())
                s.orelse.pop()
            s.body = [x for x in s.body if not isinstance(x, ast.Pass)]
            s.orelse = [x for x in s.orelse if not isinstance(x, ast.Pass)]
            # C2: empty branches
            if not s.body and not s.orelse:
                # the test is still evaluated in the original; keep it only if it may have effects (calls)
                if any(isinstance(n, ast.Call) for n in ast.walk(s.test)):
                    out.append(ast.copy_location(ast.Expr(value=s.test), s))
            elif not s.body:
                s.test = _negate(s.test)
                s.body, s.orelse = s.orelse, []
                out.append(s)
            else:
                out.append(s)
            out.extend(tail)
            continue
        out.append(s)
    return out


def _split_tuple_copies(fn) -> None:
    """(a, b) = (x__i1, y__i1)  ->  a = x__i1; b = y__i1   (all names distinct, no overlap between sides)"""
    for blk in _blocks(fn):
        i = 0
        while i < len(blk):
            st = blk[i]
            if isinstance(st, ast.Assign) and len(st.targets) == 1 and isinstance(st.targets[0], ast.Tuple) and isinstance(st.value, ast.Tuple) \
                    and len(st.targets[0].elts) == len(st.value.elts) and all(isinstance(x, ast.Name) for x in st.targets[0].elts + st.value.elts):
                l = [x.id for x in st.targets[0].elts]
                r = [x.id for x in st.value.elts]
                if len(set(l)) == len(l) and not set(l) & set(r) and all("__i" in x for x in r):
                    new = [ast.copy_location(ast.Assign(targets=[ast.Name(id=a, ctx=ast.Store())], value=ast.Name(id=b, ctx=ast.Load())), st) for a, b in zip(l, r)]
                    for n in new:
                        ast.fix_missing_locations(n)
                    blk[i:i + 1] = new
                    i += len(new)
                    continue
            i += 1



def _ends_with_assign(block, name) -> bool:
    if not block:
        return False
    last = block[-1]
    if isinstance(last, ast.Assign) and len(last.targets) == 1 and isinstance(last.targets[0], ast.Name) and last.targets[0].id == name:
        return True
    if isinstance(last, ast.If) and getattr(last, "_synth", False) and last.orelse:
        return _ends_with_assign(last.body, name) and _ends_with_assign(last.orelse, name)
    return False


def _sink_return(block, name):
    """block ends (on every path) with `name = v`: turn those assignments into `return v` and flatten the if/else nest
    into guard form (if c: ...; return a / rest)"""
    last = block[-1]
    if isinstance(last, ast.Assign):
        return block[:-1] + [ast.copy_location(ast.Return(value=last.value), last)]
    body = _sink_return(last.body, name)
    orelse = _sink_return(last.orelse, name)
    guard = ast.copy_location(ast.If(test=last.test, body=body, orelse=[]), last)
    return block[:-1] + [guard] + orelse


def _restore_returns(block: list) -> list:
    out = []
    i = 0
    while i < len(block):
        s = block[i]
        for fld in ("body", "orelse", "finalbody"):
            b = getattr(s, fld, None)
            if isinstance(b, list) and b and isinstance(b[0], ast.stmt) and not isinstance(s, FuncT + (ast.ClassDef,)):
                setattr(s, fld, _restore_returns(b))
        if isinstance(s, ast.Try):
            for h in s.handlers:
                h.body = _restore_returns(h.body)
        nxt = block[i + 1] if i + 1 < len(block) else None
        if isinstance(s, ast.If) and getattr(s, "_synth", False) and isinstance(nxt, ast.Return) and isinstance(nxt.value, ast.Name) and nxt.value.id.startswith("ret__i") \
                and _ends_with_assign([s], nxt.value.id) and not any(isinstance(n, ast.Name) and n.id == nxt.value.id and isinstance(n.ctx, ast.Load) for n in ast.walk(s)):
            out.extend(_sink_return([s], nxt.value.id))
            i += 2
            continue
        out.append(s)
        i += 1
    return out


def _coalesce_copies(fn) -> int:
    """C3: `x = t__iN` where t__iN (an inliner local) is never mentioned afterwards and x is not mentioned between
    t's first occurrence and the copy: rename t to x and drop the copy"""
    n_done = 0
    while True:
        order = []          # (statement-path index, node) in source order over the whole function

        def rec(block, acc):
            for s in block:
                acc.append(s)
                for fld in ("body", "orelse", "finalbody"):
                    b = getattr(s, fld, None)
                    if isinstance(b, list) and b and isinstance(b[0], ast.stmt) and not isinstance(s, FuncT + (ast.ClassDef,)):
                        rec(b, acc)
                if isinstance(s, ast.Try):
                    for h in s.handlers:
                        rec(h.body, acc)
        rec(fn.body, order)

        def own_names(s):
            """names in the statement's own header (not nested blocks)"""
            out = []
            for fld, val in ast.iter_fields(s):
                if fld in ("body", "orelse", "finalbody", "handlers"):
                    continue
                vals = val if isinstance(val, list) else [val]
                for v in vals:
                    if isinstance(v, ast.AST):
                        out.extend(n for n in ast.walk(v) if isinstance(n, ast.Name))
            return out
        done = False
        for idx, s in enumerate(order):
            if isinstance(s, ast.Assign) and len(s.targets) == 1 and isinstance(s.targets[0], ast.Name) and isinstance(s.value, ast.Name) and "__i" in s.value.id:
                t, x = s.value.id, s.targets[0].id
                if "__i" in x:
                    continue
                first = next((i for i, o in enumerate(order) if any(n.id == t for n in own_names(o))), None)
                if first is None or first >= idx:
                    continue
                later = any(n.id == t for o in order[idx + 1:] for n in own_names(o))
                between = any(n.id == x for o in order[first:idx] for n in own_names(o))
                # the copy must not sit in a loop that the definition is outside of (the renamed variable would
                # otherwise survive an iteration): require both at the same nesting depth in the same block
                if later or between or not _same_block(fn, order[first], s):
                    continue
                for o in order:
                    for n in own_names(o):
                        if n.id == t:
                            n.id = x
                _remove_stmt(fn, s)
                n_done += 1
                done = True
                break
        if not done:
            return n_done


def _blocks(fn):
    stack = [fn]
    while stack:
        s = stack.pop()
        for fld in ("body", "orelse", "finalbody"):
            b = getattr(s, fld, None)
            if isinstance(b, list) and b and isinstance(b[0], ast.stmt) and (s is fn or not isinstance(s, FuncT + (ast.ClassDef,))):
                yield b
                stack.extend(b)
        if isinstance(s, ast.Try):
            for h in s.handlers:
                yield h.body
                stack.extend(h.body)


def _same_block(fn, a, b) -> bool:
    return any(any(x is a for x in blk) and any(x is b for x in blk) for blk in _blocks(fn))


def _remove_stmt(fn, s) -> None:
    for blk in _blocks(fn):
        for i, x in enumerate(blk):
            if x is s:
                del blk[i]
                if not blk:
                    blk.append(ast.copy_location(ast.Pass(), s))
                return


def _drop_default_args(modules, report) -> None:
    """in code produced by inlining, an argument that equals the callee's own default (callee resolved by a name defined
    exactly once in the package) is dropped: f(x, None) -> f(x) when the second parameter defaults to None"""
    defs: dict[str, list] = {}
    for mi in modules.values():
        for n in ast.walk(mi.tree):
            if isinstance(n, FuncT):
                defs.setdefault(n.name, []).append(n)
    for mi in modules.values():
        for n in ast.walk(mi.tree):
            if not (isinstance(n, ast.Call) and getattr(n, "_inl", False)):
                continue
            nm = n.func.attr if isinstance(n.func, ast.Attribute) else (n.func.id if isinstance(n.func, ast.Name) else None)
            ds = defs.get(nm or "", [])
            if len(ds) != 1 or any(isinstance(a, ast.Starred) for a in n.args) or any(k.arg is None for k in n.keywords):
                continue
            fn = ds[0]
            a = fn.args
            pos = [p.arg for p in list(a.posonlyargs) + list(a.args)]
            if pos and pos[0] in ("self", "cls") and isinstance(n.func, ast.Attribute):
                pos = pos[1:]
            full = [p.arg for p in list(a.posonlyargs) + list(a.args)]
            defaults = dict(zip(full[len(full) - len(a.defaults):], a.defaults))
            for p_, d in zip(a.kwonlyargs, a.kw_defaults):
                if d is not None:
                    defaults[p_.arg] = d
            while n.args and len(n.args) <= len(pos) and not n.keywords:
                p_ = pos[len(n.args) - 1]
                d = defaults.get(p_)
                if d is not None and isinstance(d, ast.Constant) and isinstance(n.args[-1], ast.Constant) and getattr(n.args[-1], "_from_default", False) \
                        and d.value == n.args[-1].value and type(d.value) is type(n.args[-1].value):
                    n.args.pop()
                    report["default_args_dropped"] = report.get("default_args_dropped", 0) + 1
                else:
                    break
            keep = []
            for k in n.keywords:
                d = defaults.get(k.arg)
                if d is not None and isinstance(d, ast.Constant) and isinstance(k.value, ast.Constant) and getattr(k.value, "_from_default", False) \
                        and d.value == k.value.value and type(d.value) is type(k.value.value):
                    report["default_args_dropped"] = report.get("default_args_dropped", 0) + 1
                    continue
                keep.append(k)
            n.keywords = keep

# --------------------------------------------------------------------------------------------------

def normalise(modules: dict, pkg: str = "rtflite") -> dict:
    report = {"constants": [], "constants_propagated": 0, "specialised_params": [], "folded": 0, "inlined": [], "not_inlined": [],
              "dissolved": [], "renamed_functions": []}
    if not REF_ROOT.is_dir():
        return report
    ref_names, ref_funcs, ref_trees = {}, {}, {}
    for name, mi in modules.items():
        try:
            relp = pathlib.Path(mi.path).relative_to(pathlib.Path("src") / pkg)
        except ValueError:
            continue
        rf = REF_ROOT / pkg / relp
        if not rf.exists():
            continue
        try:
            rt = ast.parse(rf.read_text(encoding="utf-8"))
        except SyntaxError:
            continue
        ref_names[name] = _toplevel_names(rt)
        ref_funcs[name] = _index_funcs(rt)
        ref_trees[name] = rt
    _recover_function_names(modules, ref_trees, report)
    # N5: `match` over literal patterns -> if/elif (only where the reference function has no match statement)
    for name, mi in modules.items():
        reff = ref_funcs.get(name, {})
        for q, fn in _index_funcs(mi.tree).items():
            if any(isinstance(n, ast.Match) for n in ast.walk(fn)):
                rf = reff.get(q)
                if rf is None or not any(isinstance(n, ast.Match) for n in ast.walk(rf)):
                    k = _lower_match(fn)
                    if k:
                        report["match_lowered"] = report.get("match_lowered", 0) + k
    touched = set()
    touched |= _propagate_constants(modules, ref_names, report)
    touched |= _specialise_defaults(modules, ref_funcs, report)
    for fn in touched:
        report["folded"] += _fold_function(fn)

    def table_pass():
        for name, mi in modules.items():
            reff = ref_funcs.get(name)
            if reff is None:
                continue
            for q, fn in _index_funcs(mi.tree).items():
                if ".<locals>." in q:
                    continue
                rf = reff.get(q)

                def literal_loops(f):
                    return sum(1 for n in ast.walk(f) if (isinstance(n, ast.For) and _literal_items(n.iter) is not None)
                               or (isinstance(n, ast.comprehension) and _literal_items(n.iter) is not None))
                allow = rf is None or literal_loops(rf) == 0
                if literal_loops(fn) == 0 and not any(isinstance(n, ast.Call) and isinstance(n.func, ast.Name) and n.func.id == "getattr" for n in ast.walk(fn)):
                    continue
                if _expand_table_code(fn, allow, report):
                    report["folded"] += _fold_function(fn)
    table_pass()
    _inline_helpers(modules, ref_funcs, report, ref_names)
    _inline_closures(modules, ref_funcs, report)
    if report["inlined"]:
        table_pass()
    if report["inlined"]:
        _drop_default_args(modules, report)
        for mi in modules.values():
            for _cls, fn in _all_functions(mi.tree):
                if any(isinstance(n, ast.Name) and "__i" in n.id for n in ast.walk(fn)) or any(getattr(n, "_synth", False) for n in ast.walk(fn)):
                    fn.body = _cleanup_block(fn.body) or [ast.Pass()]
                    fn.body = _restore_returns(fn.body)
                    _split_tuple_copies(fn)
                    report["coalesced"] = report.get("coalesced", 0) + _coalesce_copies(fn)
    for mi in modules.values():
        ast.fix_missing_locations(mi.tree)
    return report
