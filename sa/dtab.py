"""Decision-table extraction: a function that is pure decision logic is evaluated over abstract
configuration atoms (booleans / small enums standing for reads of configuration), with lazy atom
discovery; the result is a total table  valuation -> (effects, return value)  enumerated
exhaustively.  The repository function is never imported or called: its syntax tree is interpreted
over symbolic objects."""
from __future__ import annotations

import ast
from dataclasses import dataclass, field
from typing import Any

from .pm import PM, FuncInfo, AnalysisError, dotted, unparse


class NeedAtom(Exception):
    def __init__(self, key: str, domain: list):
        self.key, self.domain = key, domain


class Unsupported(AnalysisError):
    pass


@dataclass(frozen=True)
class Sym:
    path: str
    cls: str | None = None

    def __repr__(self):
        return f"<{self.path}>"


class _Return(Exception):
    def __init__(self, v):
        self.v = v


class _Break(Exception):
    pass


class _Continue(Exception):
    pass


@dataclass
class Run:
    effects: list = field(default_factory=list)
    ret: Any = None
    raised: str | None = None


class DT:
    def __init__(self, pm: PM, atoms: dict[str, list] | None = None, effect_calls: set[str] | None = None,
                 classes: dict[str, str] | None = None, max_atoms: int = 24, inline_depth: int = 6,
                 opaque_calls: set[str] | None = None):
        self.pm = pm
        self.atoms = dict(atoms or {})          # declared domains by canonical path
        self.effect_calls = set(effect_calls or ())
        self.opaque_calls = set(opaque_calls or ())
        self.classes = dict(classes or {})       # path -> class name
        self.max_atoms = max_atoms
        self.inline_depth = inline_depth
        self.discovered: dict[str, list] = {}
        # per run
        self.val: dict[str, Any] = {}
        self.run_state: Run = Run()
        self.stores: dict[str, Any] = {}
        self.depth = 0

    # ------------------------------------------------------------------ public
    def table(self, fi: FuncInfo, args: dict[str, Any], limit: int = 20000):
        """enumerate all valuations of the atoms consulted; returns list of (valuation, Run)"""
        out = []
        pending = [dict()]
        n = 0
        while pending:
            v = pending.pop()
            n += 1
            if n > limit:
                raise Unsupported(f"decision table of {fi.short} exceeds {limit} evaluations")
            try:
                r = self.run(fi, args, v)
                out.append((v, r))
            except NeedAtom as e:
                if e.key not in self.discovered:
                    self.discovered[e.key] = list(e.domain)
                    if len(self.discovered) > self.max_atoms:
                        raise Unsupported(f"more than {self.max_atoms} atoms in {fi.short}: {sorted(self.discovered)}")
                for x in e.domain:
                    pending.append({**v, e.key: x})
        return out

    def run(self, fi: FuncInfo, args: dict[str, Any], valuation: dict) -> Run:
        self.val = valuation
        self.run_state = Run()
        self.stores = {}
        self.depth = 0
        try:
            self.run_state.ret = self.call_fi(fi, args)
        except _Raise as r:
            self.run_state.raised = r.what
        return self.run_state

    # ------------------------------------------------------------------ atoms
    def atom(self, key: str, domain: list):
        if key in self.val:
            return self.val[key]
        raise NeedAtom(key, self.atoms.get(key, domain))

    def concrete(self, v):
        """resolve a Sym that has a declared domain to its value under the valuation"""
        if isinstance(v, Sym):
            if v.path in self.stores:
                return self.concrete(self.stores[v.path]) if not isinstance(self.stores[v.path], Sym) or self.stores[v.path].path != v.path else v
            if v.path in self.atoms:
                return self.atom(v.path, self.atoms[v.path])
        return v

    def truth(self, v) -> bool:
        v = self.concrete(v)
        if isinstance(v, Sym):
            return self.atom(f"bool({v.path})", [True, False])
        return bool(v)

    def cls_of(self, v: Sym) -> str | None:
        if v.cls:
            return v.cls
        return self.classes.get(v.path)

    # ------------------------------------------------------------------ calls
    def call_fi(self, fi: FuncInfo, args: dict[str, Any]):
        if self.depth > self.inline_depth:
            raise Unsupported("inline depth exceeded at " + fi.short)
        env = dict(args)
        a = fi.node.args
        allp = list(a.posonlyargs) + list(a.args)
        dstart = len(allp) - len(a.defaults)
        for i, p in enumerate(allp):
            if p.arg not in env:
                if i >= dstart:
                    env[p.arg] = self.ev(a.defaults[i - dstart], {})
                else:
                    env[p.arg] = Sym(p.arg)
        env["__fi__"] = fi
        self.depth += 1
        try:
            self.block(fi.node.body, env)
            return None
        except _Return as r:
            return r.v
        finally:
            self.depth -= 1

    def effect(self, kind: str, *payload) -> None:
        self.run_state.effects.append((kind,) + payload)

    # ------------------------------------------------------------------ statements
    def block(self, stmts, env):
        for s in stmts:
            self.stmt(s, env)

    def stmt(self, s, env):
        if isinstance(s, ast.Expr):
            if isinstance(s.value, ast.Constant):
                return
            self.ev(s.value, env)
        elif isinstance(s, ast.Assign):
            v = self.ev(s.value, env)
            for t in s.targets:
                self.assign(t, v, env)
        elif isinstance(s, ast.AnnAssign):
            if s.value is not None:
                self.assign(s.target, self.ev(s.value, env), env)
        elif isinstance(s, ast.AugAssign):
            cur = self.ev(s.target, env)
            v = self.ev(s.value, env)
            self.assign(s.target, self.binop(s.op, cur, v, s), env)
        elif isinstance(s, ast.Return):
            raise _Return(self.ev(s.value, env) if s.value is not None else None)
        elif isinstance(s, ast.If):
            if self.truth(self.ev(s.test, env)):
                self.block(s.body, env)
            else:
                self.block(s.orelse, env)
        elif isinstance(s, ast.For):
            it = self.concrete(self.ev(s.iter, env))
            if isinstance(it, (list, tuple, range, dict)):
                try:
                    for x in it:
                        self.assign(s.target, x, env)
                        try:
                            self.block(s.body, env)
                        except _Continue:
                            continue
                except _Break:
                    pass
                return
            # symbolic iteration: one pass with a universally quantified element
            name = unparse(s.target)
            elem = Sym(f"∀{name}∈{it.path if isinstance(it, Sym) else unparse(s.iter)}")
            self.assign(s.target, elem, env)
            try:
                self.block(s.body, env)
            except (_Continue, _Break):
                pass
        elif isinstance(s, ast.While):
            raise Unsupported("while loop in decision logic")
        elif isinstance(s, ast.Raise):
            raise _Raise(unparse(s.exc)[:80] if s.exc else "re-raise")
        elif isinstance(s, (ast.Pass, ast.Import, ast.ImportFrom, ast.Global, ast.Assert)):
            return
        elif isinstance(s, ast.Continue):
            raise _Continue()
        elif isinstance(s, ast.Break):
            raise _Break()
        elif isinstance(s, ast.Try):
            try:
                self.block(s.body, env)
            except _Raise:
                if s.handlers:
                    self.block(s.handlers[0].body, env)
                else:
                    raise
            finally:
                if s.finalbody:
                    self.block(s.finalbody, env)
        elif isinstance(s, ast.With):
            self.block(s.body, env)
        elif isinstance(s, (ast.FunctionDef, ast.AsyncFunctionDef)):
            env[s.name] = ("closure", s, env)
        else:
            raise Unsupported("statement " + type(s).__name__)

    def assign(self, t, v, env):
        if isinstance(t, ast.Name):
            env[t.id] = v
        elif isinstance(t, (ast.Tuple, ast.List)):
            vv = self.concrete(v)
            if isinstance(vv, (list, tuple)) and len(vv) == len(t.elts):
                for a, b in zip(t.elts, vv):
                    self.assign(a, b, env)
            else:
                for i, a in enumerate(t.elts):
                    self.assign(a, Sym(f"{vv.path if isinstance(vv, Sym) else '?'}[{i}]"), env)
        elif isinstance(t, ast.Attribute):
            base = self.ev(t.value, env)
            if isinstance(base, Sym):
                self.stores[f"{base.path}.{t.attr}"] = v
                self.effect("store", base.path, t.attr, self.show(v))
            elif isinstance(base, dict):
                base[t.attr] = v
        elif isinstance(t, ast.Subscript):
            base = self.ev(t.value, env)
            k = self.concrete(self.ev(t.slice, env))
            if isinstance(base, dict):
                base[k if not isinstance(k, Sym) else k.path] = v
            elif isinstance(base, list) and isinstance(k, int):
                base[k] = v
            elif isinstance(base, Sym):
                self.effect("store", base.path, f"[{self.show(k)}]", self.show(v))
        else:
            raise Unsupported("assignment target " + unparse(t))

    def show(self, v) -> Any:
        if isinstance(v, Sym):
            return v.path
        if isinstance(v, (list, tuple)):
            return type(v)(self.show(x) for x in v)
        return v

    # ------------------------------------------------------------------ expressions
    def ev(self, n, env):
        m = getattr(self, "ev_" + type(n).__name__, None)
        if m is None:
            raise Unsupported("expression " + type(n).__name__ + ": " + unparse(n)[:60])
        return m(n, env)

    def ev_Constant(self, n, env):
        return n.value

    def ev_Name(self, n, env):
        if n.id in env:
            return env[n.id]
        if n.id in ("True", "False", "None"):
            return {"True": True, "False": False, "None": None}[n.id]
        fi = env.get("__fi__")
        if fi is not None:
            r = self.pm.resolve(fi.module, n.id)
            if r and r[0] == "value":
                from .consteval import const_expr
                from .absint import NOC
                v = const_expr(self.pm, r[1][0].name, r[1][1])
                if v is not NOC:
                    return v
            if r and r[0] in ("class", "func"):
                return (r[0], r[1])
        return Sym(n.id)

    def ev_Attribute(self, n, env):
        base = self.ev(n.value, env)
        if isinstance(base, Sym):
            path = f"{base.path}.{n.attr}"
            if path in self.stores:
                return self.stores[path]
            cls = None
            bc = self.cls_of(base)
            if base.path == "self" and env.get("__fi__") is not None and env["__fi__"].cls:
                bc = bc or env["__fi__"].cls
            if bc and not self.pm.is_pydantic(bc):
                for c0 in self.pm.mro(bc):
                    ci = self.pm.classes.get(c0)
                    if ci and n.attr in ci.class_assigns and isinstance(ci.class_assigns[n.attr], (ast.Dict, ast.List, ast.Set)):
                        from .consteval import const_expr
                        from .absint import NOC
                        v = const_expr(self.pm, ci.module, ci.class_assigns[n.attr])
                        if v is not NOC:
                            import copy
                            self.stores[path] = copy.deepcopy(v)
                            return self.stores[path]
            if bc:
                ann = self.pm.field_ann(bc, n.attr)
                if ann:
                    import re
                    cs = [t for t in re.findall(r"[A-Za-z_][A-Za-z_0-9]*", ann) if t in self.pm.classes]
                    cls = cs[0] if cs else None
            return Sym(path, cls or self.classes.get(path))
        if isinstance(base, dict) and n.attr in ("get", "items", "keys", "values", "copy", "update"):
            return ("dictmethod", base, n.attr)
        if isinstance(base, tuple) and len(base) == 2 and base[0] == "class":
            from .consteval import const_attr
            from .absint import NOC
            try:
                v = const_attr(self.pm, base[1].name, n.attr)
                if v is not NOC:
                    return v
            except AnalysisError:
                pass
        if isinstance(base, str) and n.attr in ("lower", "upper", "strip"):
            return ("strmethod", base, n.attr)
        raise Unsupported("attribute on " + repr(base)[:40] + ": " + unparse(n))

    def ev_Subscript(self, n, env):
        base = self.concrete(self.ev(n.value, env))
        if isinstance(n.slice, ast.Slice):
            if isinstance(base, (list, tuple, str)):
                lo = self.concrete(self.ev(n.slice.lower, env)) if n.slice.lower else None
                hi = self.concrete(self.ev(n.slice.upper, env)) if n.slice.upper else None
                if not isinstance(lo, Sym) and not isinstance(hi, Sym):
                    return base[lo:hi]
            return Sym(f"{self.show(base)}[{unparse(n.slice)}]")
        k = self.concrete(self.ev(n.slice, env))
        if isinstance(base, dict):
            kk = k.path if isinstance(k, Sym) else k
            if kk in base:
                return base[kk]
            raise _Raise("KeyError " + str(kk))
        if isinstance(base, (list, tuple, str)) and isinstance(k, int):
            try:
                return base[k]
            except IndexError:
                raise _Raise("IndexError")
        if isinstance(base, Sym):
            return Sym(f"{base.path}[{self.show(k)}]")
        return Sym(f"{self.show(base)}[{self.show(k)}]")

    def ev_BoolOp(self, n, env):
        last = None
        for e in n.values:
            last = self.ev(e, env)
            t = self.truth(last)
            if isinstance(n.op, ast.And) and not t:
                return last
            if isinstance(n.op, ast.Or) and t:
                return last
        return last

    def ev_UnaryOp(self, n, env):
        v = self.ev(n.operand, env)
        if isinstance(n.op, ast.Not):
            return not self.truth(v)
        v = self.concrete(v)
        if isinstance(v, Sym):
            return Sym(f"-({v.path})")
        return -v if isinstance(n.op, ast.USub) else v

    def ev_IfExp(self, n, env):
        return self.ev(n.body, env) if self.truth(self.ev(n.test, env)) else self.ev(n.orelse, env)

    def ev_Compare(self, n, env):
        left = self.ev(n.left, env)
        for op, rn in zip(n.ops, n.comparators):
            right = self.ev(rn, env)
            if not self.compare(op, left, right, n):
                return False
            left = right
        return True

    def compare(self, op, l, r, node) -> bool:
        l, r = self.concrete(l), self.concrete(r)
        if isinstance(op, (ast.Is, ast.IsNot)) and r is None:
            if isinstance(l, Sym):
                t = self.atom(f"{l.path} is None", [False, True])
                return t if isinstance(op, ast.Is) else not t
            return (l is None) if isinstance(op, ast.Is) else (l is not None)
        if isinstance(l, Sym) or isinstance(r, Sym) or any(isinstance(x, Sym) for x in (r if isinstance(r, (list, tuple)) else ())):
            key = f"{self.show(l)} {_OPS[type(op)]} {self.show(r)}"
            return self.atom(key, [True, False])
        try:
            return _cmp(op, l, r)
        except TypeError:
            raise _Raise("TypeError in comparison")

    def ev_BinOp(self, n, env):
        return self.binop(n.op, self.ev(n.left, env), self.ev(n.right, env), n)

    def binop(self, op, l, r, node):
        l, r = self.concrete(l), self.concrete(r)
        if isinstance(l, Sym) or isinstance(r, Sym):
            return Sym(f"{self.show(l)} {_BIN.get(type(op), '?')} {self.show(r)}")
        try:
            return _binop(op, l, r)
        except Exception:
            return Sym(unparse(node))

    def ev_List(self, n, env):
        return [self.ev(e, env) for e in n.elts]

    def ev_Tuple(self, n, env):
        return tuple(self.ev(e, env) for e in n.elts)

    def ev_Set(self, n, env):
        return tuple(self.ev(e, env) for e in n.elts)

    def ev_Dict(self, n, env):
        return {self.concrete(self.ev(k, env)): self.ev(v, env) for k, v in zip(n.keys, n.values)}

    def ev_JoinedStr(self, n, env):
        parts = []
        for v in n.values:
            if isinstance(v, ast.Constant):
                parts.append(str(v.value))
            else:
                x = self.concrete(self.ev(v.value, env))
                parts.append(x.path if isinstance(x, Sym) else str(x))
        return "".join(parts)

    def ev_ListComp(self, n, env):
        return Sym(f"[{unparse(n)[:40]}]")

    ev_GeneratorExp = ev_ListComp
    ev_DictComp = ev_ListComp

    def ev_Lambda(self, n, env):
        return ("closure", n, env)

    def ev_Call(self, n, env):
        f = n.func
        # ---- builtins
        if isinstance(f, ast.Name):
            nm = f.id
            args = [self.ev(a, env) for a in n.args]
            if nm in env and isinstance(env[nm], tuple) and env[nm][0] == "closure":
                return self.call_closure(env[nm], args, n, env)
            if nm == "deepcopy" or nm == "copy":
                a0 = self.concrete(args[0])
                return Sym(f"copy({a0.path})", self.cls_of(a0)) if isinstance(a0, Sym) else a0
            if nm == "len":
                v = self.concrete(args[0])
                if isinstance(v, Sym):
                    return Sym(f"len({v.path})")
                return len(v)
            if nm == "bool":
                return self.truth(args[0])
            if nm in ("int", "str", "float"):
                v = self.concrete(args[0])
                return Sym(f"{nm}({v.path})") if isinstance(v, Sym) else {"int": int, "str": str, "float": float}[nm](v)
            if nm == "range":
                vs = [self.concrete(a) for a in args]
                if all(isinstance(v, int) for v in vs):
                    return range(*vs)
                return Sym("range(" + ", ".join(str(self.show(v)) for v in vs) + ")")
            if nm == "isinstance":
                v = self.concrete(args[0])
                names = [x.id if isinstance(x, ast.Name) else x.attr for x in ast.walk(n.args[1]) if isinstance(x, (ast.Name, ast.Attribute))]
                if isinstance(v, Sym):
                    return self.atom(f"isinstance({v.path}, {'|'.join(names)})", [True, False])
                py = {"list": list, "tuple": tuple, "str": str, "int": int, "dict": dict, "bool": bool, "float": float}
                return isinstance(v, tuple(py[x] for x in names if x in py))
            if nm == "hasattr":
                v = self.concrete(args[0])
                k = self.concrete(args[1])
                if isinstance(v, Sym):
                    c = self.cls_of(v)
                    if c and isinstance(k, str):
                        cs = [c] + self.pm.subclasses(c)
                        if all(self.pm.field_decl(x, k) is not None or self.pm.find_method(x, k) for x in cs):
                            return True
                        if not any(self.pm.field_decl(x, k) is not None or self.pm.find_method(x, k) for x in cs):
                            return False
                    return self.atom(f"hasattr({v.path}, {k})", [True, False])
                return hasattr(v, k)
            if nm == "getattr":
                v = self.concrete(args[0])
                k = self.concrete(args[1])
                if isinstance(v, Sym) and isinstance(k, str):
                    fake = ast.Attribute(value=n.args[0], attr=k, ctx=ast.Load())
                    return self.ev_Attribute(fake, env)
                raise Unsupported("getattr with non-constant name")
            if nm == "setattr":
                v, k, x = args[0], self.concrete(args[1]), args[2]
                if isinstance(v, Sym):
                    kk = k if isinstance(k, str) else self.show(k)
                    self.stores[f"{v.path}.{kk}"] = x
                    self.effect("store", v.path, kk, self.show(x))
                    return None
            if nm in ("any", "all"):
                v = self.concrete(args[0])
                if isinstance(v, Sym):
                    return self.atom(f"{nm}({v.path})", [True, False])
                return any(self.truth(x) for x in v) if nm == "any" else all(self.truth(x) for x in v)
            if nm in ("min", "max"):
                vs = [self.concrete(a) for a in args]
                if any(isinstance(v, Sym) for v in vs):
                    return Sym(f"{nm}(" + ", ".join(str(self.show(v)) for v in vs) + ")")
                return min(vs) if nm == "min" else max(vs)
            if nm in ("list", "tuple", "dict", "set"):
                if not args:
                    return {"list": [], "tuple": (), "dict": {}, "set": ()}[nm]
                return args[0]
            if nm == "print":
                return None
            if nm == "cast":
                return args[1]
            fi = env.get("__fi__")
            r = self.pm.resolve(fi.module, nm) if fi else None
            if r and r[0] == "func":
                return self.invoke(r[1], None, args, n, env)
            if r and r[0] == "class":
                kw = {k.arg: self.ev(k.value, env) for k in n.keywords if k.arg}
                self.effect("construct", r[1].name, {k: self.show(v) for k, v in kw.items()})
                return Sym(f"{r[1].name}(…)#{len(self.run_state.effects)}", r[1].name)
            raise Unsupported("call of " + nm)
        if isinstance(f, ast.Attribute):
            m = f.attr
            base = self.ev(f.value, env)
            args = [self.ev(a, env) for a in n.args]
            kw = {k.arg: self.ev(k.value, env) for k in n.keywords if k.arg}
            if isinstance(base, tuple) and base and base[0] == "dictmethod":
                raise Unsupported("bound dict method value")
            if isinstance(base, dict):
                if m == "get":
                    k = self.concrete(args[0])
                    kk = k.path if isinstance(k, Sym) else k
                    return base.get(kk, args[1] if len(args) > 1 else None)
                if m == "items":
                    return list(base.items())
                if m == "copy":
                    return dict(base)
                if m == "update":
                    base.update(self.concrete(args[0]))
                    return None
                if m in ("keys", "values"):
                    return list(getattr(base, m)())
            if isinstance(base, list) and m in ("append", "extend"):
                (base.append if m == "append" else base.extend)(args[0])
                return None
            if isinstance(base, str):
                cargs = [self.concrete(a) for a in args]
                if not any(isinstance(a, Sym) for a in cargs):
                    return getattr(base, m)(*cargs)
            if isinstance(base, Sym):
                if m in self.effect_calls or f"{self.cls_of(base)}.{m}" in self.effect_calls:
                    self.effect("call", m, base.path, tuple(self.show(a) for a in args), {k: self.show(v) for k, v in kw.items()})
                    return Sym(f"{base.path}.{m}(…)")
                if m == "get":
                    k = self.concrete(args[0])
                    p = f"{base.path}.get({self.show(k)})"
                    if p in self.stores:
                        return self.stores[p]
                    return Sym(p)
                if m in ("copy", "model_copy", "clone"):
                    return base
                fi = env.get("__fi__")
                cands = []
                bc = self.cls_of(base)
                if base.path == "self" and fi is not None and fi.cls:
                    bc = fi.cls
                if bc:
                    got = self.pm.find_method(bc, m)
                    if got:
                        cands = [got]
                if cands and m not in self.opaque_calls:
                    if m in self.effect_calls:
                        self.effect("call", m, base.path, tuple(self.show(a) for a in args), {k: self.show(v) for k, v in kw.items()})
                        return Sym(f"{base.path}.{m}(…)")
                    return self.invoke(cands[0], base, args, n, env, kw)
                self.effect("call", m, base.path, tuple(self.show(a) for a in args), {k: self.show(v) for k, v in kw.items()}) if m in self.effect_calls else None
                return Sym(f"{base.path}.{m}({', '.join(str(self.show(a)) for a in args)})")
            raise Unsupported("method call " + unparse(n)[:60])
        raise Unsupported("call " + unparse(n)[:60])

    def invoke(self, fi: FuncInfo, recv, args, n, env, kw=None):
        a = fi.node.args
        ps = [x.arg for x in list(a.posonlyargs) + list(a.args)]
        bound = {}
        if fi.cls and not fi.is_static and ps:
            bound[ps[0]] = recv if recv is not None else Sym("self", fi.cls)
            ps = ps[1:]
        for p, v in zip(ps, args):
            bound[p] = v
        for k, v in (kw or {}).items():
            bound[k] = v
        return self.call_fi(fi, bound)

    def call_closure(self, clo, args, n, env):
        _, node, cenv = clo
        e2 = dict(cenv)
        for p, v in zip([x.arg for x in node.args.args], args):
            e2[p] = v
        if isinstance(node, ast.Lambda):
            return self.ev(node.body, e2)
        try:
            self.block(node.body, e2)
        except _Return as r:
            return r.v
        return None


class _Raise(Exception):
    def __init__(self, what):
        self.what = what


_OPS = {ast.Eq: "==", ast.NotEq: "!=", ast.Lt: "<", ast.LtE: "<=", ast.Gt: ">", ast.GtE: ">=", ast.In: "in", ast.NotIn: "not in",
        ast.Is: "is", ast.IsNot: "is not"}
_BIN = {ast.Add: "+", ast.Sub: "-", ast.Mult: "*", ast.Div: "/", ast.FloorDiv: "//", ast.Mod: "%"}


def _cmp(op, a, b):
    return {ast.Eq: lambda: a == b, ast.NotEq: lambda: a != b, ast.Lt: lambda: a < b, ast.LtE: lambda: a <= b,
            ast.Gt: lambda: a > b, ast.GtE: lambda: a >= b, ast.In: lambda: a in b, ast.NotIn: lambda: a not in b,
            ast.Is: lambda: a is b, ast.IsNot: lambda: a is not b}[type(op)]()


def _binop(op, a, b):
    return {ast.Add: lambda: a + b, ast.Sub: lambda: a - b, ast.Mult: lambda: a * b, ast.Div: lambda: a / b,
            ast.FloorDiv: lambda: a // b, ast.Mod: lambda: a % b}[type(op)]()


def enumerate_block(dt: DT, stmts, env_factory, fi=None, limit: int = 5000):
    """evaluate a statement list under every valuation of the atoms it consults.
    env_factory() -> fresh environment; returns [(valuation, env_after, effects, outcome)]"""
    out = []
    pending = [dict()]
    n = 0
    while pending:
        v = pending.pop()
        n += 1
        if n > limit:
            raise Unsupported("block decision table exceeds %d evaluations" % limit)
        dt.val = v
        dt.stores = {}
        dt.run_state = Run()
        dt.depth = 0
        env = env_factory()
        if fi is not None:
            env["__fi__"] = fi
        outcome = "fall"
        try:
            dt.block(stmts, env)
        except NeedAtom as e:
            dt.discovered.setdefault(e.key, list(e.domain))
            for x in e.domain:
                pending.append({**v, e.key: x})
            continue
        except _Return as r:
            outcome = ("return", r.v)
        except _Continue:
            outcome = "continue"
        except _Break:
            outcome = "break"
        except _Raise as r:
            outcome = ("raise", r.what)
        out.append((v, env, list(dt.run_state.effects), outcome))
    return out
