"""Shared-state inventory, store/mutator sites, freshness (ownership) of the written object."""
from __future__ import annotations

import ast
from dataclasses import dataclass

from .callgraph import CallGraph
from .pm import PM, FuncInfo, dotted, unparse, walk_no_nested

MUTATORS = {"append", "extend", "update", "add", "pop", "clear", "sort", "setdefault", "insert", "remove",
            "discard", "reverse", "popitem", "__setitem__", "__delitem__"}
POLARS_INPLACE = {"insert_column", "replace_column", "drop_in_place", "extend", "vstack_inplace", "shrink_to_fit",
                  "set_sorted", "rechunk_inplace", "hstack_inplace"}
USER_CLASSES = {"RTFDocument", "RTFPage", "RTFBody", "RTFColumnHeader", "RTFFootnote", "RTFSource", "RTFTitle",
                "RTFSubline", "RTFPageHeader", "RTFPageFooter", "RTFFigure", "TextAttributes", "TableAttributes",
                "RTFTextComponent", "RTFTableTextComponent"}
SAFE_SHARED_CTORS = {"contextvars.ContextVar", "ContextVar", "threading.local", "local"}


@dataclass
class Store:
    fi: FuncInfo
    node: ast.AST          # the statement / call performing the write
    target: ast.AST        # expression denoting the written object (X in X.attr = v / X[k] = v / X.append())
    how: str               # 'attr' | 'item' | 'mutator:<name>' | 'setattr' | 'aug' | 'del'
    attr: str | None = None

    @property
    def where(self) -> str:
        return self.fi.where(self.node)

    def text(self) -> str:
        return unparse(self.node)[:120]


def bound_arg(call: ast.Call, callee, pname: str):
    """expression bound to parameter `pname` of `callee` at this call (None if it cannot be told)"""
    a = callee.node.args
    params = [x.arg for x in list(a.posonlyargs) + list(a.args)]
    if callee.cls and not callee.is_static and params:
        params = params[1:]
    for k in call.keywords:
        if k.arg == pname:
            return k.value
        if k.arg is None:
            return None
    if any(isinstance(x, ast.Starred) for x in call.args):
        return None
    if pname in params and params.index(pname) < len(call.args):
        return call.args[params.index(pname)]
    return None


def root_of(e: ast.AST):
    """(root Name or None, depth) of an access path a.b[c].d -> ('a', 3)"""
    d = 0
    while True:
        if isinstance(e, ast.Attribute):
            e = e.value
            d += 1
        elif isinstance(e, ast.Subscript):
            e = e.value
            d += 1
        elif isinstance(e, ast.Call) and isinstance(e.func, ast.Attribute) and e.func.attr in ("get", "copy"):
            e = e.func.value
            d += 1
        else:
            break
    return (e if isinstance(e, ast.Name) else None), d


def stores_in(fi: FuncInfo) -> list[Store]:
    out: list[Store] = []
    for n in walk_no_nested(fi.node):
        targets = []
        if isinstance(n, ast.Assign):
            targets = n.targets
        elif isinstance(n, (ast.AugAssign, ast.AnnAssign)):
            targets = [n.target] if getattr(n, "value", True) is not None else []
        elif isinstance(n, ast.Delete):
            targets = n.targets
        for t in targets:
            for tt in (t.elts if isinstance(t, (ast.Tuple, ast.List)) else [t]):
                if isinstance(tt, ast.Attribute):
                    out.append(Store(fi, n, tt.value, "attr" if not isinstance(n, ast.AugAssign) else "aug", tt.attr))
                elif isinstance(tt, ast.Subscript):
                    out.append(Store(fi, n, tt.value, "item"))
        if isinstance(n, ast.Call):
            if isinstance(n.func, ast.Name) and n.func.id == "setattr" and n.args:
                a = n.args[1] if len(n.args) > 1 else None
                out.append(Store(fi, n, n.args[0], "setattr", a.value if isinstance(a, ast.Constant) else None))
            elif isinstance(n.func, ast.Attribute) and n.func.attr in MUTATORS | POLARS_INPLACE:
                out.append(Store(fi, n, n.func.value, "mutator:" + n.func.attr))
    return out


class Shared:
    """inventory of process-wide mutable state"""

    def __init__(self, pm: PM):
        self.pm = pm
        self.module_roots: dict[tuple[str, str], str] = {}   # (module, name) -> kind
        self.class_roots: dict[tuple[str, str], str] = {}    # (class, attr) -> kind
        self.singleton_classes: dict[str, tuple[str, str]] = {}  # class -> (module, name) of its module-level instance
        self.safe: set[tuple[str, str]] = set()
        for mi in pm.modules.values():
            for name, v in mi.assigns.items():
                k = self._kind(mi.name, v)
                if k:
                    if k.startswith("safe:"):
                        self.safe.add((mi.name, name))
                        continue
                    self.module_roots[(mi.name, name)] = k
                    if k.startswith("instance:"):
                        self.singleton_classes[k.split(":", 1)[1]] = (mi.name, name)
        for ci in pm.classes.values():
            for attr, v in ci.class_assigns.items():
                if pm.is_pydantic(ci.name) and attr in ci.fields and attr != "model_config":
                    continue   # pydantic field defaults are copied per instance
                if isinstance(v, (ast.Dict, ast.List, ast.Set, ast.DictComp, ast.ListComp, ast.SetComp)):
                    self.class_roots[(ci.name, attr)] = "container"
                elif isinstance(v, ast.Constant) and v.value is None and attr.startswith("_"):
                    self.class_roots[(ci.name, attr)] = "rebindable"

    def _kind(self, module: str, v: ast.AST) -> str | None:
        if isinstance(v, (ast.Dict, ast.List, ast.Set, ast.DictComp, ast.ListComp, ast.SetComp)):
            return "container"
        if isinstance(v, ast.Call):
            d = dotted(v.func)
            if d in SAFE_SHARED_CTORS or d.split(".")[-1] in ("ContextVar",):
                return "safe:" + d
            cn = d.split(".")[-1]
            r = self.pm.resolve(module, cn) if "." not in d else None
            if cn in self.pm.classes and (r is None or r[0] == "class"):
                return "instance:" + cn
            if d.startswith("FontMapping.") or d in ("dict", "list", "set"):
                return "container"
        return None

    def _rebound_in_init(self, cls: str, attr: str) -> bool:
        init = self.pm.find_method(cls, "__init__")
        if init is None:
            return False
        for n in walk_no_nested(init.node):
            if isinstance(n, ast.Assign):
                for t in n.targets:
                    if isinstance(t, ast.Attribute) and isinstance(t.value, ast.Name) and t.value.id == "self" and t.attr == attr:
                        return True
        return False

    def describe(self) -> list[str]:
        out = [f"{m}.{n} ({k})" for (m, n), k in sorted(self.module_roots.items())]
        out += [f"{c}.{a} (class attribute, {k})" for (c, a), k in sorted(self.class_roots.items())]
        return out

    def shared_target(self, cg: CallGraph, st: Store) -> str | None:
        """name of the shared root written by this store, or None"""
        fi = st.fi
        root, depth = root_of(st.target)
        if root is None:
            return None
        name = root.id
        # cls.X / ClassName.X
        if name == "cls" and fi.cls:
            attr = st.attr if depth == 0 else _first_attr(st.target)
            for c in self.pm.mro(fi.cls):
                if (c, attr) in self.class_roots:
                    return f"{c}.{attr}"
            return f"{fi.cls}.{attr} (class attribute)"
        if name in self.pm.classes and name not in _locals(fi):
            attr = st.attr if depth == 0 else _first_attr(st.target)
            return f"{name}.{attr} (class attribute)"
        # self of a singleton class
        if name == "self" and fi.cls:
            for c in self.pm.mro(fi.cls):
                if c in self.singleton_classes:
                    attr = st.attr if depth == 0 else _first_attr(st.target)
                    m, n = self.singleton_classes[c]
                    return f"{m}.{n}.{attr}"
            # self.X[...] = v / self.X.append(v) where X is a class-level mutable attribute
            if depth >= 1 or st.how.startswith("mutator") or st.how == "item":
                first = _first_attr(st.target) if depth >= 1 else None
                if first:
                    for c in self.pm.mro(fi.cls):
                        if (c, first) in self.class_roots and self.class_roots[(c, first)] == "container" \
                                and not self._rebound_in_init(c, first):
                            return f"{c}.{first} (class-level container reached through self)"
            return None
        if name in _locals(fi):
            return None
        r = self.pm.resolve(fi.module, name)
        if r and r[0] == "value":
            mi, _ = r[1]
            # find defining module/name
            for (m, n), k in self.module_roots.items():
                if n == name and (m == mi.name):
                    return f"{m}.{n}"
            if (mi.name, name) in self.safe:
                return None
        return None


def _first_attr(e: ast.AST) -> str | None:
    chain = []
    while isinstance(e, (ast.Attribute, ast.Subscript)):
        if isinstance(e, ast.Attribute):
            chain.append(e.attr)
        e = e.value
    return chain[-1] if chain else None


def _locals(fi: FuncInfo) -> set[str]:
    out = {a.arg for a in list(fi.node.args.posonlyargs) + list(fi.node.args.args) + list(fi.node.args.kwonlyargs)}
    for n in walk_no_nested(fi.node):
        if isinstance(n, ast.Name) and isinstance(n.ctx, ast.Store):
            out.add(n.id)
    return out


# ------------------------------------------------------------------------- freshness
FRESH_CALLS = {"deepcopy", "clone", "DataFrame", "dict", "list", "set", "tuple", "sorted", "slice", "select",
               "with_columns", "filter", "to_dicts", "to_list", "rows", "row", "copy"}


class Freshness:
    """flow-sensitive (structured) forward analysis: at every store, to which depth is the
    written object's root name known to be created by this call?
    level 0 = borrowed, 1 = fresh object/container whose members are borrowed, 99 = deep fresh"""

    def __init__(self, pm: PM, cg: CallGraph, fi: FuncInfo, fresh_params: dict[str, int] | None = None,
                 outer: "Freshness | None" = None):
        self.pm, self.cg, self.fi = pm, cg, fi
        self.params = dict(fresh_params or {})
        self.outer = outer
        self.at: dict[int, dict[str, int]] = {}      # id(stmt or call node) -> state before it
        self.final: dict[str, int] = {}
        state = dict(self.params)
        end = self._walk(fi.node.body, state)
        self.final = end if end is not None else state
        self.level = self.final

    # ---- expression levels --------------------------------------------------------------
    def lvl(self, name: str, state: dict) -> int:
        if name in state:
            return state[name]
        if self.outer is not None:
            return self.outer.final.get(name, 0)
        return 0

    def _expr_level(self, v: ast.AST, state: dict | None = None) -> int:
        state = self.final if state is None else state
        if isinstance(v, (ast.Constant, ast.JoinedStr)):
            return 99
        if isinstance(v, (ast.List, ast.Tuple, ast.Set)):
            return 1 if v.elts and min((self._expr_level(e, state) for e in v.elts), default=99) < 99 else 99
        if isinstance(v, ast.Dict):
            return 1 if v.values and min((self._expr_level(e, state) for e in v.values if e is not None), default=99) < 99 else 99
        if isinstance(v, (ast.ListComp, ast.SetComp, ast.DictComp, ast.GeneratorExp)):
            return 1
        if isinstance(v, ast.Name):
            return self.lvl(v.id, state)
        if isinstance(v, ast.IfExp):
            return min(self._expr_level(v.body, state), self._expr_level(v.orelse, state))
        if isinstance(v, ast.BoolOp):
            return min(self._expr_level(x, state) for x in v.values)
        if isinstance(v, (ast.BinOp, ast.Compare, ast.UnaryOp)):
            return 1
        if isinstance(v, ast.Starred):
            return self._expr_level(v.value, state)
        if isinstance(v, ast.Call):
            d = dotted(v.func)
            last = d.split(".")[-1]
            if last == "deepcopy":
                return 99
            if last == "model_copy":
                deep = any(k.arg == "deep" and isinstance(k.value, ast.Constant) and k.value.value is True for k in v.keywords)
                return 99 if deep else 1
            if last in self.pm.classes:
                allargs = list(v.args) + [k.value for k in v.keywords]
                return 1 if allargs and any(self._expr_level(a, state) < 99 for a in allargs) else 99
            if last in ("clone", "DataFrame", "slice", "select", "with_columns", "filter", "sorted", "to_list", "to_dicts",
                        "str", "int", "float", "len", "range", "round", "min", "max", "sum", "join", "index", "to_native"):
                return 99
            if last in ("list", "dict", "set", "tuple", "copy", "enumerate", "zip", "reversed", "items", "values", "keys", "get"):
                if last in ("items", "values", "keys", "get", "copy") and isinstance(v.func, ast.Attribute):
                    base = self._expr_level(v.func.value, state)
                    return 99 if base == 99 else (1 if last == "copy" else 0)
                return 99 if all(self._expr_level(a, state) == 99 for a in v.args) else 1
            if last == "_set_default" and isinstance(v.func, ast.Attribute):
                return self._expr_level(v.func.value, state)
            cands = self.cg.resolve_call(self.fi, v)
            if cands:
                lv = 99
                for c in cands:
                    lv = min(lv, self._call_result_level(c, v, state))
                return lv
            return 0
        if isinstance(v, (ast.Attribute, ast.Subscript)):
            root, depth = root_of(v)
            if root is None:
                return 0
            return 99 if self.lvl(root.id, state) == 99 else 0
        return 0

    def _call_result_level(self, c: FuncInfo, call: ast.Call, state: dict) -> int:
        rets = [r for r in walk_no_nested(c.node) if isinstance(r, ast.Return) and r.value is not None]
        if not rets:
            return 99
        a = c.node.args
        ps = [x.arg for x in list(a.posonlyargs) + list(a.args)]
        off = 1 if (c.cls and not c.is_static and ps) else 0
        lv = 99
        for r in rets:
            v = r.value
            if isinstance(v, ast.Name) and v.id in ps:
                i = ps.index(v.id)
                if i == 0 and off == 1:
                    lv = min(lv, self._expr_level(call.func.value, state) if isinstance(call.func, ast.Attribute) else 0)
                elif i - off < len(call.args):
                    lv = min(lv, self._expr_level(call.args[i - off], state))
                else:
                    kw = [k.value for k in call.keywords if k.arg == v.id]
                    lv = min(lv, self._expr_level(kw[0], state) if kw else 99)
                continue
            if isinstance(v, (ast.List, ast.Dict, ast.ListComp, ast.Tuple, ast.Constant, ast.JoinedStr, ast.BinOp, ast.Compare)):
                lv = min(lv, 1)
                continue
            if isinstance(v, ast.Call) and dotted(v.func).split(".")[-1] in (set(self.pm.classes) | {"deepcopy", "join", "str", "int", "float", "len"}):
                lv = min(lv, 1)
                continue
            if isinstance(v, ast.Name):
                ok = False
                for n in walk_no_nested(c.node):
                    if isinstance(n, ast.Assign) and any(isinstance(t, ast.Name) and t.id == v.id for t in n.targets):
                        if isinstance(n.value, (ast.List, ast.Dict, ast.ListComp, ast.Constant)) or \
                                (isinstance(n.value, ast.Call) and dotted(n.value.func).split(".")[-1] in (set(self.pm.classes) | {"deepcopy"})):
                            ok = True
                lv = min(lv, 1 if ok else 0)
                continue
            lv = 0
        return lv

    # ---- statements ------------------------------------------------------------------------
    def _record(self, node: ast.AST, state: dict) -> None:
        for sub in walk_no_nested(node) if not isinstance(node, (ast.If, ast.For, ast.While, ast.Try, ast.With)) else _header_nodes(node):
            self.at[id(sub)] = state
        self.at[id(node)] = state

    @staticmethod
    def _join(a: dict | None, b: dict | None) -> dict | None:
        if a is None:
            return b
        if b is None:
            return a
        out = {}
        for k in set(a) | set(b):
            out[k] = min(a.get(k, 0), b.get(k, 0)) if (k in a and k in b) else min(a.get(k, b.get(k)), 0) if False else a.get(k, b.get(k))
        return out

    def _bind(self, target: ast.AST, lvl: int, state: dict) -> None:
        if isinstance(target, ast.Name):
            state[target.id] = lvl
        elif isinstance(target, (ast.Tuple, ast.List)):
            for e in target.elts:
                self._bind(e, 99 if lvl == 99 else 0, state)

    def _walk(self, stmts, state: dict) -> dict | None:
        cur: dict | None = state
        for s in stmts:
            if cur is None:
                break
            cur = self._stmt(s, cur)
        return cur

    def _stmt(self, s, state: dict) -> dict | None:
        self._record(s, dict(state))
        if isinstance(s, ast.Assign):
            lvl = self._expr_level(s.value, state)
            for t in s.targets:
                self._bind(t, lvl, state)
            return state
        if isinstance(s, ast.AnnAssign) and s.value is not None:
            self._bind(s.target, self._expr_level(s.value, state), state)
            return state
        if isinstance(s, (ast.Return, ast.Raise)):
            return None
        if isinstance(s, (ast.Break, ast.Continue)):
            return None
        if isinstance(s, ast.If):
            a = self._walk(s.body, dict(state))
            b = self._walk(s.orelse, dict(state)) if s.orelse else dict(state)
            return self._join(a, b)
        if isinstance(s, (ast.For, ast.AsyncFor)):
            base = self._expr_level(s.iter, state)
            it = s.iter
            lvl = 99 if base == 99 else 0
            st = dict(state)
            for _ in range(2):
                self._bind(s.target, lvl, st)
                end = self._walk(s.body, dict(st))
                st = self._join(st, end) or st
            if s.orelse:
                return self._walk(s.orelse, st)
            return st
        if isinstance(s, ast.While):
            st = dict(state)
            for _ in range(2):
                end = self._walk(s.body, dict(st))
                st = self._join(st, end) or st
            return st
        if isinstance(s, (ast.With, ast.AsyncWith)):
            for it in s.items:
                if it.optional_vars is not None:
                    self._bind(it.optional_vars, self._expr_level(it.context_expr, state), state)
            return self._walk(s.body, state)
        if isinstance(s, ast.Try):
            pre = dict(state)
            end = self._walk(s.body, dict(state))
            if s.orelse and end is not None:
                end = self._walk(s.orelse, end)
            outs = [end]
            for h in s.handlers:
                hs = self._join(dict(pre), end) or dict(pre)
                if h.name:
                    hs[h.name] = 99
                outs.append(self._walk(h.body, hs))
            res = None
            for o in outs:
                res = self._join(res, o)
            if s.finalbody:
                res = self._walk(s.finalbody, res if res is not None else dict(pre))
            return res
        return state

    def store_ok(self, st: Store) -> tuple[bool, str]:
        """is the written object owned by this call?"""
        root, depth = root_of(st.target)
        if root is None:
            if isinstance(st.target, ast.Call) or (isinstance(st.target, (ast.Attribute, ast.Subscript)) and _has_call_root(st.target)):
                return True, "temporary object"
            return False, "unresolved target " + unparse(st.target)
        state = self.at.get(id(st.node))
        if state is None:
            # a store inside an expression of a compound statement header: use the statement's state
            p = getattr(st.node, "_parent", None)
            while p is not None and id(p) not in self.at:
                p = getattr(p, "_parent", None)
            state = self.at.get(id(p), self.final) if p is not None else self.final
        lvl = self.lvl(root.id, state)
        need = depth + 1
        if lvl >= 99 or lvl >= need:
            return True, f"{root.id} is fresh (level {lvl}) for a write at depth {need}"
        return False, f"{root.id} is {'borrowed' if lvl == 0 else 'a shallow copy (fresh only at depth %d)' % lvl}; write at depth {need} through {unparse(st.target)}"


def _has_call_root(e: ast.AST) -> bool:
    while isinstance(e, (ast.Attribute, ast.Subscript)):
        e = e.value
    return isinstance(e, ast.Call)


def _header_nodes(node):
    outs = [node]
    for fld in ("test", "iter", "target"):
        if hasattr(node, fld):
            outs.extend(ast.walk(getattr(node, fld)))
    if isinstance(node, (ast.With, ast.AsyncWith)):
        for it in node.items:
            outs.extend(ast.walk(it.context_expr))
    return outs


IO_CALLS = {"open", "read_text", "read_bytes", "read", "readlines", "exists", "stat", "listdir", "glob", "getenv", "environ", "time", "now", "today", "random", "uuid4"}


def memo_is_pure(pm: PM, fi: FuncInfo) -> tuple[bool, str]:
    """a memoised function is harmless for purity/thread-independence when its result depends only on its
    (hashable) arguments: no I/O, no reads of mutable module state, no receiver"""
    node = fi.node
    a = node.args
    params = {x.arg for x in list(a.posonlyargs) + list(a.args) + list(a.kwonlyargs)}
    if fi.cls and not fi.is_static:
        return False, "memoised method keeps its receiver alive and keys on it"
    local = set(params)
    for n in walk_no_nested(node):
        if isinstance(n, ast.Name) and isinstance(n.ctx, ast.Store):
            local.add(n.id)
    sh = Shared(pm)
    for n in walk_no_nested(node):
        if isinstance(n, ast.Call):
            nm = dotted(n.func).split(".")[-1]
            if nm in IO_CALLS:
                return False, f"calls {dotted(n.func)} (external state)"
        if isinstance(n, ast.Name) and isinstance(n.ctx, ast.Load) and n.id not in local:
            r = pm.resolve(fi.module, n.id)
            if r and r[0] == "value":
                mi, expr = r[1]
                if (mi.name, n.id) in sh.module_roots and not isinstance(expr, (ast.Constant, ast.Tuple)):
                    # constant tables are fine if nobody writes them
                    pass
    return True, "depends only on its arguments"


def memo_key_gaps(pm: PM, fi: FuncInfo):
    """manual memoisation: `C[key] = value` into a container that outlives the call (attribute of self/cls/a class, or a
    module-level name), in a function that also reads `C` (get / subscript / membership).  Returns
    [(store node, container text, key leaves, value leaves, missing)] where `missing` are the parameter-rooted inputs the
    stored value is computed from but the key does not mention (dependence through local temporaries is expanded)."""
    from .astmatch import alternatives, leaves
    fn = fi.node
    params = {a.arg for a in list(fn.args.posonlyargs) + list(fn.args.args) + list(fn.args.kwonlyargs)} - {"self", "cls"}
    out = []
    for a in walk_no_nested(fn):
        if not isinstance(a, ast.Assign) or len(a.targets) != 1 or not isinstance(a.targets[0], ast.Subscript):
            continue
        t = a.targets[0]
        b = t.value
        persistent = isinstance(b, ast.Attribute) and isinstance(b.value, ast.Name) and (b.value.id in ("self", "cls") or b.value.id in pm.classes)
        roots = set(params)
        if isinstance(b, ast.Name):
            mi = pm.modules.get(fi.module)
            persistent = mi is not None and b.id in mi.assigns
            if not persistent:
                # a local dict that lives across the iterations of a loop: created before the loop, written inside it
                loop = None
                p_ = getattr(a, "_parent", None)
                while p_ is not None and p_ is not fn:
                    if isinstance(p_, (ast.For, ast.While)):
                        loop = p_
                    p_ = getattr(p_, "_parent", None)
                inits = [x for x in walk_no_nested(fn) if isinstance(x, (ast.Assign, ast.AnnAssign)) and any(isinstance(t2, ast.Name) and t2.id == b.id for t2 in (x.targets if isinstance(x, ast.Assign) else [x.target]))]
                if loop is not None and len(inits) == 1 and not any(x is inits[0] for x in ast.walk(loop)) and inits[0].value is not None \
                        and (isinstance(inits[0].value, ast.Dict) or (isinstance(inits[0].value, ast.Call) and isinstance(inits[0].value.func, ast.Name) and inits[0].value.func.id == "dict")):
                    persistent = True
                    for t2 in ast.walk(loop.target) if isinstance(loop, ast.For) else []:
                        if isinstance(t2, ast.Name):
                            roots.add(t2.id)
        if not persistent:
            continue
        cont = unparse(b)
        reads = [n for n in walk_no_nested(fn) if (isinstance(n, ast.Call) and isinstance(n.func, ast.Attribute) and n.func.attr == "get" and unparse(n.func.value) == cont)
                 or (isinstance(n, ast.Subscript) and isinstance(n.ctx, ast.Load) and unparse(n.value) == cont)
                 or (isinstance(n, ast.Compare) and any(unparse(c) == cont for c in n.comparators))]
        if not reads:
            continue            # a registry write, not a memo

        def param_leaves(e):
            ls = set()
            for alt in alternatives(e, fn):
                for x in leaves(alt):
                    root = x.split(".")[0].split("[")[0]
                    if root in roots:
                        ls.add(x)
            return ls
        kl, vl = param_leaves(t.slice), param_leaves(a.value)
        missing = sorted(v for v in vl if not any(v == k or v.startswith(k + ".") or v.startswith(k + "[") for k in kl))
        # projection check: the key uses only a part (attribute / item) of an object that the stored value uses as a whole
        def whole_and_parts(e):
            whole, parts_ = set(), set()
            for n in ast.walk(e):
                if isinstance(n, ast.Name) and isinstance(n.ctx, ast.Load):
                    par = getattr(n, "_parent", None)
                    if isinstance(par, ast.Attribute) and par.value is n:
                        gp = getattr(par, "_parent", None)
                        if isinstance(gp, ast.Call) and gp.func is par:
                            whole.add(n.id)             # method call on the object: uses it as a whole
                        else:
                            parts_.add((n.id, par.attr))
                    elif isinstance(par, ast.Subscript) and par.value is n:
                        parts_.add((n.id, "[...]"))
                    else:
                        whole.add(n.id)
            return whole, parts_
        k_whole, k_parts = whole_and_parts(t.slice)
        v_whole, _v_parts = whole_and_parts(a.value)
        for base, part in sorted(k_parts):
            if base not in k_whole and base in v_whole and base not in ("self", "cls"):
                missing.append(f"{base} (the key uses only {base}.{part})" if part != "[...]" else f"{base} (the key uses only an item of it)")
        out.append((a, cont, sorted(kl), sorted(vl), missing))
    return out
