"""Interprocedural ownership: which parameters are fresh (created by this encode/construct call) at
every call site, and which stores write through borrowed (caller-owned) objects."""
from __future__ import annotations

import ast

from .callgraph import CallGraph
from .effects import USER_CLASSES, Freshness, Store, root_of, stores_in
from .pm import PM, FuncInfo, dotted, unparse, walk_no_nested


def param_names(fi: FuncInfo) -> list[str]:
    a = fi.node.args
    return [x.arg for x in list(a.posonlyargs) + list(a.args)]


class Freshness2(Freshness):
    """container literals: a list / tuple / set / dict built in this call is itself fresh, and it is fresh one level deeper
    than its least fresh member (a dict of shallow copies can be written through down to the copies' own attributes)"""

    def _expr_level(self, v, state=None):
        st = self.final if state is None else state
        if isinstance(v, (ast.List, ast.Tuple, ast.Set)):
            elts = [e.value if isinstance(e, ast.Starred) else e for e in v.elts]
            return min([99] + [min(99, 1 + self._expr_level(e, st)) for e in elts]) if elts else 99
        if isinstance(v, ast.Dict):
            vals = [e for e in v.values if e is not None]
            return min([99] + [min(99, 1 + self._expr_level(e, st)) for e in vals]) if vals else 99
        return super()._expr_level(v, state)


class Ownership:
    def __init__(self, pm: PM, cg: CallGraph, entries: dict[str, dict[str, int]]):
        """entries: function short -> {param: level} for the public entry points"""
        self.pm, self.cg = pm, cg
        self.entries = entries
        self.reach = sorted(cg.reachable(list(entries)))
        self.levels: dict[str, dict[str, int]] = {}
        for short in self.reach:
            fi = pm.funcs.get(short)
            if fi is None:
                continue
            self.levels[short] = {p: 99 for p in param_names(fi)}
        for short, lv in entries.items():
            self.levels[short] = dict(lv)
        self.fresh: dict[str, Freshness] = {}
        self._solve()

    def _solve(self) -> None:
        for _ in range(8):
            changed = False
            self.fresh = {}
            for short in self.reach:
                fi = self.pm.funcs.get(short)
                if fi is None:
                    continue
                outer = self.fresh.get(fi.parent.short) if fi.parent is not None else None
                fr = Freshness2(self.pm, self.cg, fi, self.levels.get(short, {}), outer=outer)
                self.fresh[short] = fr
            for short in self.reach:
                fi = self.pm.funcs.get(short)
                if fi is None:
                    continue
                fr = self.fresh[short]
                for call, cands in self.cg.sites.get(short, []):
                    for c in cands:
                        if c.short not in self.levels or c.short in self.entries:
                            continue
                        ps = param_names(c)
                        lv = self.levels[c.short]
                        args = list(call.args)
                        offset = 0
                        if c.cls and not c.is_static and ps:
                            # receiver
                            if isinstance(call.func, ast.Attribute):
                                is_ctor = False
                                rl = fr._expr_level(call.func.value, fr.at.get(id(call)))
                                if c.is_classmethod:
                                    rl = 99
                            else:
                                rl = 1 if c.name in ("__init__", "__new__", "__post_init__") or c.validator_fields() or c.model_validator_mode() else 0
                            if c.name in ("__init__", "__new__"):
                                rl = 1
                            if lv.get(ps[0], 99) > rl:
                                lv[ps[0]] = rl
                                changed = True
                            offset = 1
                        for i, a in enumerate(args):
                            if isinstance(a, ast.Starred):
                                continue
                            if offset + i < len(ps):
                                l = fr._expr_level(a, fr.at.get(id(call)))
                                if lv.get(ps[offset + i], 99) > l:
                                    lv[ps[offset + i]] = l
                                    changed = True
                        for k in call.keywords:
                            if k.arg and k.arg in lv:
                                l = fr._expr_level(k.value, fr.at.get(id(call)))
                                if lv[k.arg] > l:
                                    lv[k.arg] = l
                                    changed = True
                        # parameters left to their defaults are fresh constants
            if not changed:
                break

    def classify(self, st: Store) -> tuple[bool | None, str]:
        fr = self.fresh.get(st.fi.short)
        if fr is None:
            return True, "function not on the analysed graph"
        ok, why = fr.store_ok(st)
        if not ok:
            unk = self._unmodelled_origin(st)
            if unk:
                return None, f"{why}; {unk}"
        return ok, why

    MODELLED = {"deepcopy", "model_copy", "clone", "DataFrame", "slice", "select", "with_columns", "filter", "sorted", "to_list",
                "to_dicts", "str", "int", "float", "len", "range", "round", "min", "max", "sum", "join", "index", "to_native",
                "list", "dict", "set", "tuple", "copy", "enumerate", "zip", "reversed", "items", "values", "keys", "get",
                "_set_default", "getattr"}

    def _unmodelled_origin(self, st: Store) -> str | None:
        """the written object's root is a local bound only from calls the freshness analysis has no model for (neither a
        repo function nor a known library operation): its ownership is unknown, not 'borrowed'"""
        from .astmatch import assignments
        root, _ = root_of(st.target)
        if root is None:
            return None
        a = st.fi.node.args
        if root.id in {x.arg for x in list(a.posonlyargs) + list(a.args) + list(a.kwonlyargs)} or root.id in ("self", "cls"):
            return None
        vals = assignments(st.fi.node).get(root.id, [])
        if not vals:
            return None
        for v in vals:
            if not isinstance(v, ast.Call):
                return None
            last = dotted(v.func).split(".")[-1]
            if last in self.MODELLED or last in self.pm.classes or self.cg.resolve_call(st.fi, v):
                return None
        return f"{root.id} is the result of `{unparse(vals[0])[:50]}`, a call the ownership analysis does not model"

    def target_class(self, st: Store) -> str | None:
        return self.cg.expr_class(st.fi, st.target)
