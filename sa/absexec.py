"""Abstract interpreter, part 2: calls and statements."""
from __future__ import annotations

import ast
from typing import Any

from .absint import (NOC, Interp, VCls, VConst, VDict, VFun, VList, VNum, VObj, VOpq, VPartial, VSeqObj,
                     VStr, VTuple, constof, pyconst, strip_optional, _is_hex)
from .pm import FuncInfo, unparse as src
from .shapes import EB, EPS, Alt, Lit, Seq, Star, Txt, Unk, alt, factor, items_of, seq

MAX_CONCRETE_ITERS = 1024
MAX_CONCRETE_LOOP = 48


class Exec(Interp):
    # ------------------------------------------------------------------ calls
    def ev_Call(self, n, env):
        f = n.func
        args = []
        for a in n.args:
            if isinstance(a, ast.Starred):
                v = self.ev(a.value, env)
                if isinstance(v, VTuple):
                    args.extend(v.items)
                else:
                    args.append(VOpq("?starargs"))
            else:
                args.append(self.ev(a, env))
        kw = {}
        for k in n.keywords:
            if k.arg:
                kw[k.arg] = self.ev(k.value, env)
            else:
                d = self.ev(k.value, env)
                if isinstance(d, VDict):
                    for kk, vv in d.d.items():
                        if isinstance(kk, str):
                            kw[kk] = vv
        if isinstance(f, ast.Name):
            r = self.builtin(f.id, n, args, kw, env)
            if r is not None:
                return r
            fv = self.ev(f, env)
            return self.call_value(fv, args, kw, n, env)
        if isinstance(f, ast.Attribute):
            return self.call_method(f, n, args, kw, env)
        fv = self.ev(f, env)
        return self.call_value(fv, args, kw, n, env)

    def call_value(self, fv, args, kw, n, env):
        if isinstance(fv, VFun):
            if fv.fi is not None:
                recv = fv.recv
                return self.call_func(fv.fi, recv, args, kw, n)
            if isinstance(fv.node, (ast.FunctionDef, ast.AsyncFunctionDef)) and env.get(fv.node.name) is fv:
                # a nested function called from its defining scope: free variables are the caller's
                # current bindings (the interpreter copies environments at branches)
                fv = VFun(fv.node, env, None)
            return self.call_closure(fv, args, kw, n)
        if isinstance(fv, VPartial):
            return self.call_value(fv.fn, list(fv.args) + list(args), {**fv.kw, **kw}, n, env)
        if isinstance(fv, VCls):
            return self.construct(fv.cls, args, kw, n)
        if isinstance(fv, VOpq) and fv.typ.startswith("ext:"):
            return self.external(fv.typ[4:], n, args, kw)
        self.gap("call", "unresolved callee", src(n))
        return VOpq("?call", src(n))

    def external(self, name: str, n, args, kw):
        if name in ("copy.deepcopy", "copy.copy"):
            return self.deepcopy(args[0]) if args else VOpq("?")
        if name.startswith("typing.") and name.endswith("cast"):
            return args[1] if len(args) > 1 else VOpq("?")
        if name.startswith("polars"):
            return VOpq("pl." + name.split(".")[-1], src(n))
        if name.startswith("math."):
            return VNum("int" if name.endswith(("ceil", "floor")) else "float", src(n))
        if name in ("re.compile", "re.escape") and args and not kw:
            c = [constof(a) for a in args]
            if all(x is not NOC for x in c) and isinstance(c[0], str):
                import re as _re
                try:
                    return VConst(_re.compile(*c)) if name == "re.compile" else pyconst(_re.escape(c[0]))
                except Exception:
                    pass
        if name in ("re.fullmatch", "re.match", "re.search", "re.findall", "re.sub", "re.split") and len(args) >= 2 and not kw:
            c = [constof(a) for a in args]
            if all(x is not NOC for x in c) and all(isinstance(x, (str, int)) for x in c):
                import re as _re
                try:
                    return pyconst(getattr(_re, name[3:])(*c))
                except Exception:
                    pass
        if name == "functools.partial" and args and isinstance(args[0], (VFun, VCls, VPartial)):
            return VPartial(args[0], list(args[1:]), dict(kw))
        if name in ("itertools.chain", "itertools.chain.from_iterable") and not kw:
            if name.endswith("from_iterable"):
                if len(args) == 1 and isinstance(args[0], VTuple):
                    args = list(args[0].items)
                else:
                    return VOpq("?ext:" + name, src(n))
            return self.concat_segments([("many", a, n) for a in args], n)
        if name.startswith("struct.unpack"):
            return VSeqObj(VNum("int", src(n)))
        return VOpq("?ext:" + name, src(n))

    def deepcopy(self, v):
        if isinstance(v, VObj):
            return VObj(v.cls, {k: self.deepcopy(x) for k, x in v.fields.items()})
        if isinstance(v, VTuple):
            return VTuple([self.deepcopy(x) for x in v.items], v.is_list)
        if isinstance(v, VDict):
            return VDict({k: self.deepcopy(x) for k, x in v.d.items()})
        return v

    def builtin(self, nm, n, args, kw, env):
        if nm in env:
            return None
        if nm == "str":
            if not args:
                return VStr(EPS)
            v = args[0]
            if isinstance(v, VStr):
                return v
            c = constof(v)
            if c is not NOC:
                return VStr(Lit(str(c)))
            if isinstance(v, VNum):
                return VStr(self.to_shape(v, src(n.args[0])))
            return VStr(Txt("raw", "str(%s)" % src(n.args[0])))
        if nm in ("int", "round", "len", "ord"):
            c = [constof(a) for a in args]
            if c and all(x is not NOC for x in c):
                try:
                    return VConst({"int": int, "round": round, "len": len, "ord": ord}[nm](*c))
                except Exception:
                    pass
            if nm == "round" and len(args) > 1:
                return VNum("float", src(n))
            if nm == "len" and args and isinstance(args[0], VTuple):
                return VConst(len(args[0].items))
            return VNum("int", src(n))
        if nm == "float":
            c = constof(args[0]) if args else NOC
            if c is not NOC:
                try:
                    return VConst(float(c))
                except Exception:
                    pass
            return VNum("float", src(n))
        if nm == "chr":
            c = constof(args[0]) if args else NOC
            if isinstance(c, int):
                return VStr(Lit(chr(c)))
            return VStr(Txt("raw", src(n)))
        if nm == "bool":
            t = self.truth(args[0]) if args else False
            return VConst(t) if t is not None else VOpq("bool")
        if nm == "isinstance":
            return self.isinstance_(args, n)
        if nm == "hasattr":
            k = constof(args[1]) if len(args) > 1 else NOC
            if isinstance(k, str):
                for c in self.obj_classes(args[0]):
                    if self.pm.field_decl(c, k) is not None or self.pm.find_method(c, k):
                        return VConst(True)
            return VOpq("bool")
        if nm in ("any", "all", "callable"):
            c = constof(args[0]) if args else NOC
            if c is not NOC and nm != "callable":
                return VConst(any(c) if nm == "any" else all(c))
            return VOpq("bool")
        if nm in ("sorted", "list", "tuple", "set", "reversed", "frozenset"):
            if not args:
                return VTuple([], is_list=True)
            v = args[0]
            if isinstance(v, VTuple):
                c = constof(v)
                if c is not NOC and nm in ("sorted", "set", "frozenset") and not kw:
                    try:
                        return pyconst(sorted(set(c)) if nm != "sorted" else sorted(c))
                    except Exception:
                        pass
                if nm == "reversed":
                    return VTuple(list(reversed(v.items)), True)
                return VTuple(list(v.items), is_list=(nm != "tuple"))
            if isinstance(v, VDict):
                return VTuple([pyconst(k) for k in v.d], True)
            if isinstance(v, VStr):
                k, el = self.iter_elem(v, n.args[0])
                if k == "concrete":
                    vals = [constof(x) for x in el]
                    if nm in ("set", "frozenset", "sorted"):
                        vals = sorted(set(vals))
                    return pyconst(vals)
                return VSeqObj(el, src(n.args[0]))
            if isinstance(v, VOpq) and v.typ == "range":
                return VSeqObj(VNum("int", "index"), v.src)
            return v
        if nm == "range":
            c = [constof(a) for a in args]
            if c and all(isinstance(x, int) for x in c):
                r = range(*c)
                if len(r) <= MAX_CONCRETE_ITERS:
                    return pyconst(list(r))
            return VOpq("range", src(n))
        if nm == "enumerate":
            k, el = self.iter_elem(args[0], n.args[0])
            start = constof(args[1]) if len(args) > 1 else constof(kw.get("start", VConst(0)))
            if k == "concrete" and isinstance(start, int):
                return VTuple([VTuple([VConst(i + start), e], False) for i, e in enumerate(el)], True)
            return VSeqObj(VTuple([VNum("int", "index"), el], False), src(n.args[0]))
        if nm == "zip":
            its = [self.iter_elem(a, an) for a, an in zip(args, n.args)]
            conc = [el for k, el in its if k == "concrete"]
            if conc:
                ln = min(len(c) for c in conc)
                if not all(len(c) == ln for c in conc):
                    ln = min(len(c) for c in conc)
                rows = []
                for i in range(ln):
                    rows.append(VTuple([(el[i] if k == "concrete" else el) for k, el in its], False))
                if len(conc) == len(its):
                    return VTuple(rows, True)
                return VTuple(rows, True)
            return VSeqObj(VTuple([el for _, el in its], False), "zip(" + ", ".join(src(a) for a in n.args) + ")")
        if nm == "getattr":
            k = constof(args[1]) if len(args) > 1 else NOC
            if isinstance(k, str):
                fake = ast.Attribute(value=n.args[0], attr=k, ctx=ast.Load())
                ast.copy_location(fake, n)
                v = self.ev_Attribute(fake, env)
                if isinstance(v, VOpq) and v.typ.startswith("?attr") and len(args) > 2:
                    return self.join_val(v, args[2])
                return v
            return VOpq("Any", src(n))
        if nm == "setattr":
            k = constof(args[1]) if len(args) > 1 else NOC
            if isinstance(k, str) and isinstance(args[0], VObj):
                args[0].fields[k] = args[2]
            return VConst(None)
        if nm in ("max", "min", "sum", "abs"):
            c = [constof(a) for a in args]
            if c and all(x is not NOC for x in c) and not kw:
                try:
                    return pyconst({"max": max, "min": min, "sum": sum, "abs": abs}[nm](*c))
                except Exception:
                    pass
            kinds = set()
            for a in args:
                if isinstance(a, VNum):
                    kinds.add(a.kind)
                elif isinstance(a, VConst) and isinstance(a.v, (int, float)):
                    kinds.add("int" if isinstance(a.v, int) else "float")
                else:
                    kinds.add("num")
            return VNum("int" if kinds == {"int"} else "num", src(n))
        if nm == "print":
            return VConst(None)
        if nm == "type":
            if args:
                cs = self.obj_classes(args[0])
                if cs:
                    return VCls(cs[0])
            return VOpq("type")
        if nm == "dict":
            if not args:
                return VDict({k: v for k, v in kw.items()})
            if isinstance(args[0], VDict):
                return VDict(dict(args[0].d))
            return VOpq("dict")
        if nm == "open":
            return VOpq("file", src(n))
        if nm == "super":
            slf = env.get("self") or env.get("cls")
            return VOpq("super", env.get("__class__", ""))
        if nm in ("ValueError", "TypeError", "FileNotFoundError", "RuntimeError", "KeyError",
                  "IndexError", "Exception", "AttributeError", "ImportError", "FileExistsError"):
            return VOpq("exc:" + nm)
        return None

    def obj_classes(self, v) -> list[str]:
        if isinstance(v, VObj):
            return [v.cls]
        if isinstance(v, VOpq):
            return self.classes_in(v.typ)
        return []

    def isinstance_(self, args, n):
        if len(args) < 2:
            return VOpq("bool")
        v = args[0]
        tnode = n.args[1]
        names = [x.id if isinstance(x, ast.Name) else x.attr for x in ast.walk(tnode)
                 if isinstance(x, (ast.Name, ast.Attribute))]
        pyt = {"int": int, "str": str, "float": float, "bool": bool, "list": list, "tuple": tuple, "dict": dict}
        c = constof(v)
        if c is not NOC and all(nm in pyt for nm in names):
            return VConst(isinstance(c, tuple(pyt[nm] for nm in names)))
        if isinstance(v, VObj):
            return VConst(any(nm in self.pm.mro(v.cls) for nm in names))
        if isinstance(v, (VStr,)):
            return VConst("str" in names)
        if isinstance(v, VNum):
            if v.kind == "int":
                return VConst("int" in names or ("float" in names and False))
            if v.kind == "float":
                return VConst("float" in names)
            return VOpq("bool")
        if isinstance(v, (VList,)):
            return VConst("list" in names or "Sequence" in names)
        if isinstance(v, VTuple):
            if v.is_list:
                return VConst("list" in names or "Sequence" in names or "MutableSequence" in names)
            return VConst("tuple" in names or "Sequence" in names)
        if isinstance(v, VDict):
            return VConst("dict" in names)
        if isinstance(v, VOpq) and not v.typ.startswith("?"):
            parts = [p for p in (x.strip() for x in _split_union(v.typ))]
            def part_is(p):
                hits = []
                for nm in names:
                    if nm in self.pm.classes:
                        pcs = self.classes_in(p)
                        if pcs and all(nm in self.pm.mro(pc) for pc in pcs):
                            hits.append(True)
                        elif pcs and not any(nm in self.pm.mro(pc) or pc in self.pm.mro(nm) for pc in pcs):
                            hits.append(False)
                        elif not pcs and (p in ("None", "str", "int", "float", "bool") or p.startswith(("list", "Sequence", "dict", "tuple"))):
                            hits.append(False)
                        else:
                            hits.append(None)
                    elif nm == "DataFrame":
                        hits.append(True if p.endswith("DataFrame") else (False if (p == "None" or p.startswith(("list", "Sequence"))) else None))
                    elif nm in ("list", "tuple", "Sequence"):
                        if p.startswith(("list[", "Sequence[", "MutableSequence[")) or p == "list":
                            hits.append(True if nm in ("list", "Sequence") and not p.startswith("Sequence") or nm == "Sequence" else None)
                        elif p.startswith("tuple"):
                            hits.append(nm in ("tuple", "Sequence"))
                        elif p in ("None", "str", "int", "float", "bool") or self.classes_in(p) or p.endswith("DataFrame"):
                            hits.append(False)
                        else:
                            hits.append(None)
                    elif nm in pyt:
                        hits.append(True if p == nm else (False if p in ("None", "str", "int", "float", "bool") or self.classes_in(p) else None))
                    else:
                        hits.append(None)
                if any(h is True for h in hits):
                    return True
                if all(h is False for h in hits):
                    return False
                return None
            res = [part_is(p) for p in parts if p]
            if res and all(r is True for r in res):
                return VConst(True)
            if res and all(r is False for r in res):
                return VConst(False)
        return VOpq("bool")

    def call_method(self, f, n, args, kw, env):
        m = f.attr
        if isinstance(f.value, ast.Call) and isinstance(f.value.func, ast.Name) and f.value.func.id == "super":
            cls = env.get("__class__")
            if cls:
                for c in self.pm.mro(cls)[1:]:
                    ci = self.pm.classes.get(c)
                    if ci and m in ci.methods:
                        return self.call_func(ci.methods[m], env.get("self"), args, kw, n)
            if m == "__init__" and isinstance(env.get("self"), VObj):
                self.assign_fields(env["self"], kw)
            return VConst(None)
        recv = self.ev(f.value, env)
        # string / list / dict methods
        if m == "join" and isinstance(recv, VStr) and args:
            return self.join(recv, args[0], src(n.args[0]))
        if isinstance(recv, VStr):
            rc = constof(recv)
            ac = [constof(a) for a in args]
            if rc is not NOC and all(a is not NOC for a in ac) and m in (
                    "replace", "strip", "lower", "upper", "startswith", "endswith", "split", "capitalize",
                    "lstrip", "rstrip", "format", "keys", "title", "isdigit", "encode", "find", "count"):
                try:
                    return pyconst(getattr(rc, m)(*ac))
                except Exception:
                    pass
            if m == "replace":
                # replacing inside user text: result is still user text of the same class,
                # plus the (constant) replacement fragments
                if isinstance(recv.sh, Txt):
                    return VStr(Txt(recv.sh.kind, recv.sh.src))
                return VStr(Txt("raw", src(n)))
            if m in ("strip", "lower", "upper", "lstrip", "rstrip", "capitalize", "title", "format", "expanduser"):
                return VStr(Txt("raw", src(n))) if not isinstance(recv.sh, Txt) else recv
            if m in ("startswith", "endswith", "isdigit"):
                return VOpq("bool")
            if m == "split":
                return VSeqObj(VStr(Txt("raw", src(n))), src(n))
            if m == "hex":
                return VStr(Txt("hex", src(n)))
        if isinstance(recv, VConst) and type(recv.v).__name__ == "Pattern" and not kw and \
                m in ("fullmatch", "match", "search", "findall", "sub", "split"):
            # a compiled regular expression applied to constants: evaluated with the standard library's re
            c = [constof(a) for a in args]
            if c and all(x is not NOC for x in c) and all(isinstance(x, (str, int)) for x in c):
                try:
                    return pyconst(getattr(recv.v, m)(*c))
                except Exception:
                    pass
            return VOpq("?regex:" + m, src(n))
        if isinstance(recv, VConst) and type(recv.v).__name__ == "Match" and m in ("group", "groups", "start", "end", "span"):
            c = [constof(a) for a in args]
            if all(x is not NOC for x in c):
                try:
                    return pyconst(getattr(recv.v, m)(*c))
                except Exception:
                    pass
        if m == "hex" and not isinstance(recv, (VObj, VCls)):
            return VStr(Txt("hex", src(n)))
        if isinstance(recv, (VList, VTuple, VSeqObj)) and m in ("append", "extend", "insert"):
            arg = args[-1] if args else VOpq("?")
            if m == "insert":
                pos = constof(args[0]) if len(args) == 2 else NOC
                why = src(n.args[-1]) if n.args else ""
                if isinstance(recv, VTuple) and isinstance(pos, int) and not isinstance(pos, bool) and not isinstance(arg, VList):
                    items = list(recv.items)
                    items.insert(pos, arg)
                    self.bind(f.value, VTuple(items, True), env)
                    return VConst(None)
                if isinstance(pos, int) and pos == 0 and not isinstance(recv, VSeqObj):
                    self.bind(f.value, VList(seq(self.to_shape(arg, why), EB(), self.list_shape(recv, why))), env)
                    return VConst(None)
                if isinstance(recv, VSeqObj):
                    self.bind(f.value, VSeqObj(self.join_val(recv.elem, arg), recv.key), env)
                    return VConst(None)
                self.gap("list", "insert at a non-constant position", src(n))
                self.bind(f.value, VList(Unk("list.insert at a position that is not a constant: " + src(n))), env)
                return VConst(None)
            return self.mutate_list(f.value, recv, m, arg, env, src(n.args[-1]) if n.args else "")
        if isinstance(recv, VTuple) and m in ("add", "update", "discard"):
            if m == "add" and args:
                c, items = constof(args[0]), [constof(x) for x in recv.items]
                if not (c is not NOC and c in items):
                    self.bind(f.value, VTuple(recv.items + [args[0]], True), env)
            elif m == "update" and args and isinstance(args[0], VTuple):
                self.bind(f.value, VTuple(recv.items + args[0].items, True), env)
            elif m == "update" and args:
                self.bind(f.value, VSeqObj(VOpq("?setelem"), "set"), env)
            return VConst(None)
        if isinstance(recv, (VList, VTuple, VSeqObj)):
            if m == "copy":
                return VTuple(list(recv.items), recv.is_list) if isinstance(recv, VTuple) else recv
            if m == "index":
                return VNum("int", src(n))
            if m == "sort":
                return VConst(None)
            if m == "count":
                return VNum("int", src(n))
        if isinstance(recv, VDict):
            if m == "get":
                k = constof(args[0]) if args else NOC
                dflt = args[1] if len(args) > 1 else VConst(None)
                if k is not NOC:
                    return recv.d[k] if k in recv.d else dflt
                vals = list(recv.d.values()) + [dflt]
                if all(isinstance(v, VStr) for v in vals):
                    return VStr(alt(*[v.sh for v in vals]))
                return self._join_all(vals)
            if m == "items":
                return VTuple([VTuple([pyconst(k), v], False) for k, v in recv.d.items()], True)
            if m == "keys":
                return VTuple([pyconst(k) for k in recv.d], True)
            if m == "values":
                return VTuple(list(recv.d.values()), True)
            if m == "copy":
                return VDict(dict(recv.d))
            if m == "update":
                if args and isinstance(args[0], VDict):
                    recv.d.update(args[0].d)
                    recv.d.update(kw)
                    return VConst(None)
                self.gap("dict", "update with non-constant mapping", src(n))
                return VConst(None)
            if m == "setdefault" and args:
                k = constof(args[0])
                if k is not NOC:
                    return recv.d.setdefault(k, args[1] if len(args) > 1 else VConst(None))
            if m == "pop" and args:
                k = constof(args[0])
                if k is not NOC and k in recv.d:
                    return recv.d.pop(k)
        if m in ("model_copy",):
            v = self.deepcopy(recv) if isinstance(recv, VObj) else recv
            upd = kw.get("update")
            if isinstance(v, VObj) and isinstance(upd, VDict):
                for k, x in upd.d.items():
                    v.fields[k] = x
            return v
        if m == "copy" and isinstance(recv, (VObj, VOpq)):
            return recv
        # repo methods
        if isinstance(recv, VFun):
            return VOpq("?funattr")
        if isinstance(recv, VCls):
            fi = self.pm.find_method(recv.cls, m)
            if fi:
                return self.call_func(fi, recv, args, kw, n)
            return VOpq("?classmethod:" + m)
        cls = None
        if isinstance(recv, VObj):
            cls = recv.cls
            if m in recv.fields and isinstance(recv.fields[m], VFun):
                return self.call_value(recv.fields[m], args, kw, n, env)
        elif isinstance(recv, VOpq):
            if recv.typ.startswith("module:"):
                r = self.pm.resolve(recv.typ[7:], m)
                if r:
                    return self.call_value(self.resolved(r, m), args, kw, n, env)
                return VOpq("?modcall:" + m)
            if recv.typ.startswith("ext:"):
                return self.external(recv.typ[4:] + "." + m, n, args, kw)
            cs = [c for c in self.classes_in(recv.typ) if self.pm.find_method(c, m)]
            if cs:
                cls = cs[0]
        if cls:
            fi = self.pm.find_method(cls, m)
            if fi:
                return self.call_func(fi, recv, args, kw, n)
        # method defined only on subclasses of the receiver's class: class-hierarchy join
        for c0 in self.obj_classes(recv):
            subs = [self.pm.classes[c].methods[m] for c in self.pm.subclasses(c0)
                    if m in self.pm.classes[c].methods]
            if subs:
                outs = [self.call_func(fi, VObj(fi.cls, dict(recv.fields) if isinstance(recv, VObj) else {}), list(args), dict(kw), n)
                        for fi in subs[:6]]
                return self._join_all(outs)
        # polars / external objects: stay opaque but keep useful type hints
        if isinstance(recv, VOpq):
            t = recv.typ
            if "DataFrame" in t or t.startswith("pl."):
                if m in ("slice", "clone", "select", "with_columns", "filter", "head", "tail", "sort", "drop"):
                    return VOpq("pl.DataFrame", src(n))
                if m in ("row", "rows", "to_dicts", "to_list", "get_column", "unique", "min", "max"):
                    return VOpq("?polars:" + m, src(n))
            if t == "file" and m in ("read", "readlines"):
                return VOpq("?filedata", src(n))
            if m in ("get",) and ("dict" in t):
                return VOpq("Any", src(n))
        # CHA fallback: a method name defined exactly once in the repo, receiver unknown
        cands = [fi for fi in self.pm.funcs.values() if fi.cls and fi.name == m]
        if len(cands) == 1 and isinstance(recv, VOpq) and (recv.typ.startswith("?") or recv.typ in ("Any",)):
            return self.call_func(cands[0], VObj(cands[0].cls, {}), args, kw, n)
        if not (isinstance(recv, VOpq) and (recv.typ.startswith(("?", "pl.", "Any")) or recv.typ in ("file",))):
            self.gap("mcall", m, src(n) + " recv=" + self.typename(recv))
        return VOpq("?mcall:" + m, src(n))

    def mutate_list(self, target_node, recv, m, arg, env, why):
        is_objarg = isinstance(arg, (VObj, VDict, VFun)) or (isinstance(arg, VOpq) and not arg.typ.replace(" ", "").startswith(("str", "list[str]", "Sequence[str]", "MutableSequence[str]")))
        if m == "append" and is_objarg:
            if isinstance(recv, VSeqObj):
                new: Any = VSeqObj(self.join_val(recv.elem, arg), recv.key)
            elif isinstance(recv, VTuple) and not recv.items:
                new = VSeqObj(arg, "appended")
            elif isinstance(recv, VTuple):
                new = VTuple(recv.items + [arg], True)
            else:
                new = VSeqObj(arg, "appended")
            self.bind(target_node, new, env)
            return VConst(None)
        if m == "append" and isinstance(recv, VTuple) and not isinstance(arg, VList):
            # concrete list stays concrete
            self.bind(target_node, VTuple(recv.items + [arg], True), env)
            return VConst(None)
        if m == "extend" and isinstance(recv, VTuple) and isinstance(arg, VTuple):
            self.bind(target_node, VTuple(recv.items + arg.items, True), env)
            return VConst(None)
        if m == "extend" and isinstance(arg, VSeqObj) and not isinstance(arg.elem, (VStr, VNum)):
            base = recv if isinstance(recv, VSeqObj) else None
            new = VSeqObj(self.join_val(base.elem, arg.elem), base.key) if base else VSeqObj(arg.elem, arg.key)
            self.bind(target_node, new, env)
            return VConst(None)
        cur = self.list_shape(recv, why)
        if m == "append":
            add = seq(self.to_shape(arg, why), EB())
        else:
            add = self.list_shape(arg, why)
        self.bind(target_node, VList(seq(cur, add)), env)
        return VConst(None)

    # ---- object construction -------------------------------------------------
    def assign_fields(self, obj: VObj, kw: dict) -> None:
        for k, v in kw.items():
            ann = self.pm.field_ann(obj.cls, k)
            obj.fields[k] = self.coerce(v, ann, obj.cls + "." + k) if ann else v

    def coerce(self, v, ann: str, why: str):
        """pydantic validates keyword values against the declared field type"""
        a = ann.replace(" ", "")
        base, opt = strip_optional(a)
        if isinstance(v, (VOpq, VNum)):
            if isinstance(v, VOpq) and self.classes_in(v.typ):
                return v
            if not opt:
                if base == "int":
                    return VNum("int", why)
                if base == "float":
                    return VNum("float", why)
                if base == "str" and isinstance(v, VOpq):
                    return VStr(Txt("raw", v.src or why))
                if base == "bool":
                    return VOpq("bool", why)
            if isinstance(v, VOpq) and v.typ.startswith("?") or (isinstance(v, VOpq) and v.typ == "Any"):
                return VOpq(ann, v.src or why)
        return v

    def construct(self, cls: str, args, kw, n):
        obj = VObj(cls, {})
        init = self.pm.find_method(cls, "__init__")
        if init is not None:
            self.call_func(init, obj, args, kw, n)
            return obj
        record_like = any(b.split(".")[-1] in ("NamedTuple", "TypedDict") for b in self.pm.mro(cls))
        if record_like and any(isinstance(a, VOpq) and a.typ == "?starargs" for a in args):
            return VOpq(cls, src(n))
        if record_like or self.pm.is_pydantic(cls) or "dataclass" in " ".join(self.pm.classes[cls].node.decorator_list and [src(d) for d in self.pm.classes[cls].node.decorator_list] or []):
            flds = list(self.pm.all_fields(cls))
            for i, a in enumerate(args):
                if i < len(flds):
                    kw.setdefault(flds[i], a)
            self.assign_fields(obj, kw)
        return obj

    # ---- function calls ------------------------------------------------------
    def call_closure(self, fv: VFun, args, kw, n):
        key = "closure@%d" % id(fv.node)
        if self.stack.count(key) >= 1 or len(self.stack) > self.depth_limit:
            return VOpq("?recursion")
        self.stack.append(key)
        try:
            env = dict(fv.env)
            self.bind_params(fv.node.args, None, args, kw, env, skip_first=False)
            if isinstance(fv.node, ast.Lambda):
                return self.ev(fv.node.body, env)
            r = self.run_body(fv.node, env)
            # mutations of captured containers (modelled as rebinding) flow back to the defining scope
            fa = fv.node.args
            local = {a.arg for a in list(fa.posonlyargs) + list(fa.args) + list(fa.kwonlyargs)}
            for sub in ast.walk(fv.node):
                if isinstance(sub, ast.Name) and isinstance(sub.ctx, ast.Store):
                    local.add(sub.id)
            for k, v in env.items():
                if k not in local and k in fv.env and fv.env[k] is not v and not k.startswith("__"):
                    fv.env[k] = self.join_val(fv.env[k], v) if isinstance(fv.env[k], (VTuple,)) and not fv.env[k].items else self.join_val(fv.env[k], v)
            return r
        finally:
            self.stack.pop()

    def bind_params(self, fa: ast.arguments, fi: FuncInfo | None, args, kw, env, skip_first: bool):
        params = list(fa.posonlyargs) + list(fa.args)
        if skip_first:
            params = params[1:]
        allp = list(fa.posonlyargs) + list(fa.args)
        dstart = len(allp) - len(fa.defaults)
        kw = dict(kw)
        for i, p in enumerate(params):
            gi = allp.index(p)
            if i < len(args):
                env[p.arg] = args[i]
            elif p.arg in kw:
                env[p.arg] = kw.pop(p.arg)
            elif gi >= dstart:
                env[p.arg] = self.ev(fa.defaults[gi - dstart], {"__module__": env.get("__module__")})
            else:
                env[p.arg] = VOpq("?param", p.arg)
            v = env[p.arg]
            if isinstance(v, VOpq) and v.typ.startswith("?"):
                if p.annotation is not None:
                    env[p.arg] = self.from_ann(src(p.annotation), p.arg)
                elif p.arg in self.duck:
                    env[p.arg] = VOpq(self.duck[p.arg], p.arg)
        if fa.vararg:
            env[fa.vararg.arg] = VTuple(list(args[len(params):]), False)
        for p, d in zip(fa.kwonlyargs, fa.kw_defaults):
            if p.arg in kw:
                env[p.arg] = kw.pop(p.arg)
            elif d is not None:
                env[p.arg] = self.ev(d, {"__module__": env.get("__module__")})
            else:
                env[p.arg] = VOpq("?param", p.arg)
        if fa.kwarg:
            env[fa.kwarg.arg] = VDict(kw)

    def call_func(self, fi: FuncInfo, recv, args, kw, n):
        self.calls_seen.add(fi.short)
        hook = self.hooks.get(fi.short)
        if hook is not None:
            r = hook(self, fi, recv, args, kw, n)
            if r is not None:
                return r
        if self.sanitiser_axiom and fi.short == self.SANITISER:
            return VStr(Txt("esc", "escaper(%s)" % _txt_src(recv)))
        if self.stack.count(fi.short) >= 1 or len(self.stack) > self.depth_limit:
            return self.ret_from_ann(fi, n, "?recursion")
        ra = src(fi.node.returns).replace(" ", "") if fi.node.returns is not None else ""
        if ra in ("int", "float") and not self.enter_numeric:
            return VNum(ra, src(n))
        env: dict = {"__module__": fi.module}
        if fi.parent is not None and isinstance(recv, dict):
            env.update(recv)   # closure environment passed explicitly
            recv = None
        skip = False
        if fi.cls and not fi.is_static:
            allp = list(fi.node.args.posonlyargs) + list(fi.node.args.args)
            if allp:
                skip = True
                selfname = allp[0].arg
                if fi.is_classmethod:
                    env[selfname] = VCls(fi.cls) if not isinstance(recv, VCls) else recv
                elif isinstance(recv, VObj):
                    env[selfname] = recv
                elif isinstance(recv, VOpq) and self.classes_in(recv.typ):
                    cs = [c for c in self.classes_in(recv.typ) if self.pm.find_method(c, fi.name) is fi]
                    env[selfname] = VObj(cs[0] if cs else fi.cls, {})
                elif isinstance(recv, VCls):
                    # unbound call Class.method(obj, ...)
                    if args:
                        env[selfname] = args[0]
                        args = args[1:]
                    else:
                        env[selfname] = VObj(fi.cls, {})
                else:
                    env[selfname] = VObj(fi.cls, {})
            env["__class__"] = fi.cls
        self.bind_params(fi.node.args, fi, args, kw, env, skip_first=skip)
        self.stack.append(fi.short)
        try:
            r = self.run_body(fi.node, env)
        finally:
            self.stack.pop()
        return self.refine_return(fi, r, n)

    def ret_from_ann(self, fi: FuncInfo, n, dflt: str):
        if fi.node.returns is not None:
            return self.from_ann(src(fi.node.returns), src(n))
        return VOpq(dflt)

    def refine_return(self, fi: FuncInfo, r, n):
        ra = src(fi.node.returns).replace(" ", "") if fi.node.returns is not None else ""
        if ra == "int" and not (isinstance(r, VConst) and isinstance(r.v, int)):
            if isinstance(r, VNum) and r.kind == "int":
                return r
            # trust '-> int' only when the body cannot produce a float (checked by rule R01.4)
            return VNum("int", src(n)) if not (isinstance(r, VNum) and r.kind == "float") else r
        if ra == "bool" and isinstance(r, VOpq):
            return VOpq("bool")
        return r

    def run_body(self, fn, env):
        outs = self.exec_block(fn.body, env)
        rets = [o[1] for o in outs if o[0] == "return"]
        if any(o[0] == "fall" for o in outs):
            rets.append(VConst(None))
        if not rets:
            return VOpq("never")
        return self._join_all(rets)

    # ------------------------------------------------------------------ statements
    def exec_block(self, stmts, env):
        outs = []
        for s in stmts:
            res = self.exec_stmt(s, env)
            falls = [o for o in res if o[0] == "fall"]
            outs += [o for o in res if o[0] != "fall"]
            if not falls:
                return outs
            merged = falls[0][1]
            for o in falls[1:]:
                merged = self.join_env(merged, o[1])
            if merged is not env:
                merged = dict(merged)
                env.clear()
                env.update(merged)
        outs.append(("fall", env))
        return outs

    def join_env(self, a, b):
        out = {}
        for k in set(a) | set(b):
            if k in a and k in b:
                va, vb = a[k], b[k]
                if va is vb:
                    out[k] = va
                    continue
                out[k] = self.join_val(va, vb)
            else:
                out[k] = a.get(k, b.get(k))
        return out

    def copy_env(self, env):
        out = {}
        for k, v in env.items():
            if isinstance(v, VTuple):
                out[k] = VTuple(list(v.items), v.is_list)
            elif isinstance(v, VDict):
                out[k] = VDict(dict(v.d))
            elif isinstance(v, VObj) and k not in ("self",):
                out[k] = v   # objects are shared by reference (stores through them are rare and flow-insensitive)
            else:
                out[k] = v
        return out

    def exec_stmt(self, s, env):
        k = type(s).__name__
        if k in ("Import", "ImportFrom", "Pass", "Global", "Nonlocal", "Assert", "Delete"):
            return [("fall", env)]
        if k == "Expr":
            self.ev(s.value, env)
            return [("fall", env)]
        if k == "Assign":
            v = self.ev(s.value, env)
            for t in s.targets:
                self.bind(t, v, env)
            return [("fall", env)]
        if k == "AnnAssign":
            if s.value is not None:
                self.bind(s.target, self.ev(s.value, env), env)
            return [("fall", env)]
        if k == "AugAssign":
            cur = self.ev(s.target, env)
            v = self.ev(s.value, env)
            cc, vc = constof(cur), constof(v)
            if cc is not NOC and vc is not NOC:
                try:
                    from .absint import _binop
                    r = _binop(s.op, cc, vc)
                    if r is not NOC:
                        self.bind(s.target, pyconst(r), env)
                        return [("fall", env)]
                except Exception:
                    pass
            if isinstance(cur, VStr) and isinstance(s.op, ast.Add):
                self.bind(s.target, VStr(seq(cur.sh, self.to_shape(v, src(s.value)))), env)
            elif isinstance(cur, (VList, VTuple)) and isinstance(s.op, ast.Add):
                self.bind(s.target, VList(seq(self.list_shape(cur), self.list_shape(v))), env)
            else:
                kind = "int" if (isinstance(cur, VNum) and cur.kind == "int" or isinstance(cur, VConst) and isinstance(cur.v, int)) and \
                    (isinstance(v, VNum) and v.kind == "int" or isinstance(v, VConst) and isinstance(v.v, int)) else "num"
                self.bind(s.target, VNum(kind, src(s.target)), env)
            return [("fall", env)]
        if k == "Return":
            return [("return", self.ev(s.value, env) if s.value else VConst(None))]
        if k == "Raise":
            return [("raise", s)]
        if k == "Continue":
            return [("continue", env)]
        if k == "Break":
            return [("break", env)]
        if k == "If":
            t = self.truth(self.ev(s.test, env))
            if t is True:
                return self.exec_block(s.body, env)
            if t is False:
                return self.exec_block(s.orelse, env) if s.orelse else [("fall", env)]
            e1 = self.copy_env(env)
            e2 = self.copy_env(env)
            self.narrow(s.test, e1, True)
            self.narrow(s.test, e2, False)
            o1 = self.exec_block(s.body, e1)
            o2 = self.exec_block(s.orelse, e2) if s.orelse else [("fall", e2)]
            return o1 + o2
        if k == "For":
            return self.exec_for(s, env)
        if k == "While":
            return self.exec_while(s, env)
        if k == "Try":
            e1 = self.copy_env(env)
            outs = list(self.exec_block(s.body, e1))
            if s.orelse:
                nxt = []
                for o in outs:
                    if o[0] == "fall":
                        nxt += self.exec_block(s.orelse, o[1])
                    else:
                        nxt.append(o)
                outs = nxt
            for h in s.handlers:
                e2 = self.copy_env(env)
                if h.name:
                    e2[h.name] = VOpq("exc")
                outs += self.exec_block(h.body, e2)
            if s.finalbody:
                nxt = []
                for o in outs:
                    if o[0] in ("fall", "continue", "break"):
                        res = self.exec_block(s.finalbody, o[1])
                        nxt += [(o[0], r[1]) if r[0] == "fall" else r for r in res]
                    else:
                        nxt.append(o)
                outs = nxt
            return outs
        if k == "With":
            for it in s.items:
                v = self.ev(it.context_expr, env)
                if it.optional_vars is not None:
                    self.bind(it.optional_vars, v, env)
            return self.exec_block(s.body, env)
        if k in ("FunctionDef", "AsyncFunctionDef"):
            fi = self.pm.func_by_node.get(id(s))
            env[s.name] = VFun(s, env, None)
            return [("fall", env)]
        if k == "ClassDef":
            return [("fall", env)]
        self.gap("stmt", k, src(s))
        return [("fall", env)]

    def narrow(self, test, env, branch: bool) -> None:
        """very small refinement: `x is None` / `x is not None` / `not x` / `x` on a Name"""
        t = test
        neg = False
        if isinstance(t, ast.UnaryOp) and isinstance(t.op, ast.Not):
            t = t.operand
            neg = True
        if isinstance(t, ast.Compare) and len(t.ops) == 1 and isinstance(t.left, ast.Name) and \
                isinstance(t.comparators[0], ast.Constant) and t.comparators[0].value is None:
            is_none = isinstance(t.ops[0], ast.Is) == (branch != neg)
            v = env.get(t.left.id)
            if is_none:
                if v is not None and not isinstance(v, VConst):
                    env[t.left.id] = VConst(None)
            elif isinstance(v, VOpq):
                base, opt = strip_optional(v.typ)
                if opt and base:
                    env[t.left.id] = self.from_ann(base, v.src) if not self.classes_in(base) else VOpq(base, v.src)
        elif isinstance(t, ast.Name):
            v = env.get(t.id)
            truthy = branch != neg
            if truthy and isinstance(v, VOpq):
                base, opt = strip_optional(v.typ)
                if opt and base:
                    env[t.id] = VOpq(base, v.src)

    def exec_for(self, s, env):
        itv = self.ev(s.iter, env)
        kind, el = self.iter_elem(itv, s.iter)
        if kind == "concrete" and len(el) > MAX_CONCRETE_LOOP:
            kind, el = "abstract", self._join_all(list(el))
        if kind == "concrete":
            outs = []
            cur = env
            broke = []
            for e in el:
                self.bind(s.target, e, cur)
                res = self.exec_block(s.body, cur)
                nxt = [o[1] for o in res if o[0] in ("fall", "continue")]
                broke += [o[1] for o in res if o[0] == "break"]
                outs += [o for o in res if o[0] in ("return", "raise")]
                if not nxt:
                    cur = None
                    break
                m = nxt[0]
                for x in nxt[1:]:
                    m = self.join_env(m, x)
                cur = m
            ends = ([cur] if cur is not None else []) + broke
            if not ends:
                return outs
            m = ends[0]
            for x in ends[1:]:
                m = self.join_env(m, x)
            if m is not env:
                m = dict(m)
                env.clear()
                env.update(m)
            if s.orelse:
                return outs + self.exec_block(s.orelse, env)
            return outs + [("fall", env)]
        return self.abstract_loop(s, env, s.iter, lambda e: self.bind(s.target, el, e))

    def exec_while(self, s, env):
        t = self.truth(self.ev(s.test, env))
        if t is False:
            return [("fall", env)]
        return self.abstract_loop(s, env, s.test, lambda e: None)

    def abstract_loop(self, s, env, keynode, binder):
        """one symbolic pass; accumulators must grow by a suffix -> prefix . Star(suffix)"""
        key = src(keynode)
        pre = self.copy_env(env)
        body_env = self.copy_env(env)
        binder(body_env)
        res = self.exec_block(s.body, body_env)
        outs = [o for o in res if o[0] in ("return", "raise")]
        posts = [o[1] for o in res if o[0] in ("fall", "continue", "break")]
        if not posts:
            return outs + [("fall", env)]
        post = posts[0]
        for x in posts[1:]:
            post = self.join_env(post, x)
        for k2, v0 in pre.items():
            v1 = post.get(k2)
            if v1 is v0 or v1 is None:
                continue
            if constof(v0) is not NOC and constof(v0) == constof(v1) and type(v0) is type(v1):
                continue
            s0 = self._acc_shape(v0)
            s1 = self._acc_shape(v1)
            if s0 is not None and s1 is not None:
                i0 = [x for x in items_of(s0)] if s0 != EPS else []
                i1 = items_of(s1)
                ok, suffix = _strip_prefix(i0, i1)
                if ok:
                    new = seq(s0, Star(suffix, key))
                else:
                    new = Unk("loop rewrites accumulator '%s' (not prefix-extending)" % k2)
                env[k2] = VStr(new) if isinstance(v0, VStr) else VList(new)
            elif isinstance(v0, VTuple) and not v0.items and isinstance(v1, (VSeqObj, VTuple)):
                env[k2] = v1 if isinstance(v1, VSeqObj) else VSeqObj(self._join_all(v1.items), key)
            else:
                env[k2] = self.join_val(v0, v1)
        for k2, v1 in post.items():
            if k2 not in pre:
                env[k2] = v1
        if getattr(s, "orelse", None):
            return outs + self.exec_block(s.orelse, env)
        return outs + [("fall", env)]

    def _acc_shape(self, v):
        if isinstance(v, VStr):
            return v.sh
        if isinstance(v, VList):
            return v.sh
        if isinstance(v, VTuple) and v.is_list and (not v.items or all(isinstance(x, (VStr,)) for x in v.items)):
            return self.list_shape(v)
        return None


def _strip_prefix(i0: list, i1: list):
    """i1 must start with i0 (allowing the last literal of i0 to be a prefix of a longer literal)"""
    if i1[:len(i0)] == i0:
        return True, seq(*i1[len(i0):])
    if i0 and i1[:len(i0) - 1] == i0[:-1] and len(i1) >= len(i0) and \
            isinstance(i0[-1], Lit) and isinstance(i1[len(i0) - 1], Lit) and i1[len(i0) - 1].s.startswith(i0[-1].s):
        rest = i1[len(i0) - 1].s[len(i0[-1].s):]
        return True, seq(Lit(rest), *i1[len(i0):])
    return False, None


def _split_union(t: str) -> list[str]:
    from .absint import split_union
    return split_union(t.replace(" ", ""))


def _txt_src(recv) -> str:
    if isinstance(recv, VObj) and "text" in recv.fields:
        t = recv.fields["text"]
        if isinstance(t, VStr):
            srcs = sorted({x.src for x in _walk(t.sh) if isinstance(x, Txt)})
            return ", ".join(srcs)[:120] or "literal"
    return "self.text"


def _walk(sh):
    from .shapes import walk
    return walk(sh)
