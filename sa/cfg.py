"""Statement-level control-flow graph with exceptional edges, dominators and path queries.

Nodes are simple statements and the tests/headers of compound statements.  Every node that can
raise (contains a call, a subscript, an attribute access on a non-self object, or is a `raise`)
has an exceptional successor: the dispatch node of the innermost enclosing `try` (handlers /
finally), the exit node of the innermost `with`, or the function's exceptional exit.
"""
from __future__ import annotations

import ast
from dataclasses import dataclass, field


@dataclass(eq=False)
class Node:
    kind: str                 # entry | exit | xexit | stmt | test | loop | handler | finally | withexit | join
    ast: ast.AST | None = None
    succ: list = field(default_factory=list)      # normal successors
    xsucc: list = field(default_factory=list)     # exceptional successors
    label: str = ""

    @property
    def line(self) -> int:
        return getattr(self.ast, "lineno", 0) if self.ast is not None else 0

    def __repr__(self):
        return f"<{self.kind}:{self.line}:{self.label}>"


def can_raise(n: ast.AST) -> bool:
    for x in ast.walk(n):
        if isinstance(x, (ast.Call, ast.Raise, ast.Subscript, ast.Assert, ast.Await, ast.BinOp)):
            return True
        if isinstance(x, (ast.FunctionDef, ast.Lambda, ast.AsyncFunctionDef)) and x is not n:
            continue
    return False


class CFG:
    def __init__(self, fn: ast.AST):
        self.fn = fn
        self.entry = Node("entry")
        self.exit = Node("exit")
        self.xexit = Node("xexit")
        self.nodes: list[Node] = [self.entry, self.exit, self.xexit]
        body = fn.body if not isinstance(fn, ast.Lambda) else [ast.Expr(fn.body)]
        first = self._block(body, self.exit, {"brk": None, "cont": None, "exc": self.xexit, "ret": self.exit})
        self.entry.succ.append(first)
        self._preds = None

    # -- construction (backwards: each builder gets its successor) -------------------------
    def _new(self, kind, node=None, label="") -> Node:
        n = Node(kind, node, label=label)
        self.nodes.append(n)
        return n

    def _block(self, stmts, succ: Node, c) -> Node:
        cur = succ
        for s in reversed(stmts):
            cur = self._stmt(s, cur, c)
        return cur

    def _simple(self, s, succ, c) -> Node:
        n = self._new("stmt", s)
        n.succ.append(succ)
        if can_raise(s):
            n.xsucc.append(c["exc"])
        return n

    def _stmt(self, s, succ, c) -> Node:
        if isinstance(s, ast.Return):
            n = self._new("stmt", s, "return")
            n.succ.append(c["ret"])
            if s.value is not None and can_raise(s.value):
                n.xsucc.append(c["exc"])
            return n
        if isinstance(s, ast.Raise):
            n = self._new("stmt", s, "raise")
            n.xsucc.append(c["exc"])
            return n
        if isinstance(s, ast.Break):
            n = self._new("stmt", s, "break")
            n.succ.append(c["brk"])
            return n
        if isinstance(s, ast.Continue):
            n = self._new("stmt", s, "continue")
            n.succ.append(c["cont"])
            return n
        if isinstance(s, ast.If):
            t = self._new("test", s, "if")
            t.succ.append(self._block(s.body, succ, c))
            t.succ.append(self._block(s.orelse, succ, c) if s.orelse else succ)
            if can_raise(s.test):
                t.xsucc.append(c["exc"])
            return t
        if isinstance(s, (ast.For, ast.AsyncFor, ast.While)):
            head = self._new("loop", s, "loop")
            after = self._block(s.orelse, succ, c) if s.orelse else succ
            c2 = dict(c, brk=succ, cont=head)
            head.succ.append(self._block(s.body, head, c2))
            head.succ.append(after)
            hdr = s.iter if isinstance(s, (ast.For, ast.AsyncFor)) else s.test
            if can_raise(hdr) or isinstance(s, (ast.For, ast.AsyncFor)):
                head.xsucc.append(c["exc"])
            return head
        if isinstance(s, (ast.With, ast.AsyncWith)):
            # normal exit and exceptional exit both pass the with-exit node
            wx_n = self._new("withexit", s, "with-exit")
            wx_n.succ.append(succ)
            wx_x = self._new("withexit", s, "with-exit(exc)")
            wx_x.xsucc.append(c["exc"])
            c2 = dict(c, exc=wx_x)
            # return/break/continue inside the with also run __exit__
            for key in ("ret", "brk", "cont"):
                if c[key] is not None:
                    w = self._new("withexit", s, f"with-exit({key})")
                    w.succ.append(c[key])
                    c2[key] = w
            body = self._block(s.body, wx_n, c2)
            enter = self._new("stmt", s, "with-enter")
            enter.succ.append(body)
            enter.xsucc.append(c["exc"])
            return enter
        if isinstance(s, ast.Try):
            if s.finalbody:
                fin_n = self._block(s.finalbody, succ, c)                       # normal completion
                fx_tail = self._new("join", s, "finally-reraise")
                fx_tail.xsucc.append(c["exc"])
                fin_x = self._block(s.finalbody, fx_tail, c)                    # exception propagating
                c_in = dict(c, exc=fin_x)
                for key in ("ret", "brk", "cont"):
                    if c[key] is not None:
                        c_in[key] = self._block(s.finalbody, c[key], c)
                after_try = fin_n
            else:
                c_in = dict(c)
                after_try = succ
            if s.handlers:
                disp = self._new("handler", s, "except-dispatch")
                for h in s.handlers:
                    disp.succ.append(self._block(h.body, after_try, c_in))
                # an exception not matched by any handler propagates
                catches_all = any(h.type is None or (isinstance(h.type, ast.Name) and h.type.id in ("Exception", "BaseException"))
                                  for h in s.handlers)
                if not catches_all:
                    disp.xsucc.append(c_in["exc"])
                c_body = dict(c_in, exc=disp)
            else:
                c_body = c_in
            else_entry = self._block(s.orelse, after_try, c_in) if s.orelse else after_try
            return self._block(s.body, else_entry, c_body)
        if isinstance(s, (ast.FunctionDef, ast.AsyncFunctionDef, ast.ClassDef)):
            n = self._new("stmt", s, "def")
            n.succ.append(succ)
            return n
        if isinstance(s, ast.Match):
            t = self._new("test", s, "match")
            for case in s.cases:
                t.succ.append(self._block(case.body, succ, c))
            t.succ.append(succ)
            t.xsucc.append(c["exc"])
            return t
        return self._simple(s, succ, c)

    # -- queries ----------------------------------------------------------------------------
    def all_succ(self, n: Node, exceptional: bool = True):
        return n.succ + (n.xsucc if exceptional else [])

    def reachable(self, start: Node, exceptional: bool = True, blocked=()) -> set:
        seen = set()
        st = [start]
        blocked = set(id(b) for b in blocked)
        while st:
            x = st.pop()
            if id(x) in seen or id(x) in blocked:
                continue
            seen.add(id(x))
            st.extend(self.all_succ(x, exceptional))
        return seen

    def nodes_of(self, pred) -> list[Node]:
        live = self.reachable(self.entry)
        return [n for n in self.nodes if id(n) in live and n.ast is not None and pred(n)]

    def node_containing(self, sub: ast.AST) -> list[Node]:
        """nodes whose own expression part contains `sub`"""
        out = []
        for n in self.nodes:
            if n.ast is None:
                continue
            for part in own_parts(n):
                if any(x is sub for x in ast.walk(part)):
                    out.append(n)
                    break
        return out

    def dominators(self, exceptional: bool = True) -> dict:
        live = [n for n in self.nodes if id(n) in self.reachable(self.entry, exceptional)]
        preds = {id(n): [] for n in live}
        for n in live:
            for s in self.all_succ(n, exceptional):
                if id(s) in preds:
                    preds[id(s)].append(n)
        dom = {id(n): set(id(x) for x in live) for n in live}
        dom[id(self.entry)] = {id(self.entry)}
        changed = True
        while changed:
            changed = False
            for n in live:
                if n is self.entry:
                    continue
                ps = preds[id(n)]
                new = set.intersection(*[dom[id(p)] for p in ps]) if ps else set()
                new = new | {id(n)}
                if new != dom[id(n)]:
                    dom[id(n)] = new
                    changed = True
        return dom

    def dominates(self, a: Node, b: Node, exceptional: bool = True) -> bool:
        return id(a) in self.dominators(exceptional).get(id(b), set())

    def must_pass(self, start: Node, through, targets, exceptional: bool = True) -> bool:
        """every path from `start` to any node in `targets` passes a node in `through`"""
        r = self.reachable(start, exceptional, blocked=through)
        return not any(id(t) in r for t in targets)


def own_parts(n: Node) -> list[ast.AST]:
    """the expressions evaluated by the node itself (not the bodies of compound statements)"""
    a = n.ast
    if n.kind == "test" and isinstance(a, ast.If):
        return [a.test]
    if n.kind == "loop":
        return [a.iter, a.target] if isinstance(a, (ast.For, ast.AsyncFor)) else [a.test]
    if n.kind in ("withexit", "handler", "finally", "join"):
        return []
    if n.label == "with-enter":
        return [i.context_expr for i in a.items] + [i.optional_vars for i in a.items if i.optional_vars is not None]
    if n.label == "def":
        return []
    return [a]
