"""Shape domain: regular-expression-like abstractions of the strings a function can build.

    Lit(text) | Int(src) | Flt(src) | Txt(kind, src) | Seq | Alt | Star(body, key) | EB | Unk(why)

Txt.kind: 'esc'  user text that went through the escaper
          'raw'  user text that did not
          'hex'  output of bytes.hex()
"""
from __future__ import annotations

import re
from collections import Counter
from dataclasses import dataclass
from typing import Any


@dataclass(frozen=True)
class Lit:
    s: str


@dataclass(frozen=True)
class Int:
    src: str


@dataclass(frozen=True)
class Flt:
    src: str


@dataclass(frozen=True)
class Txt:
    kind: str
    src: str


@dataclass(frozen=True)
class Seq:
    items: tuple


@dataclass(frozen=True)
class Alt:
    items: tuple


@dataclass(frozen=True)
class Star:
    body: Any
    key: str


@dataclass(frozen=True)
class EB:
    """element boundary inside the shape of a list of strings"""


@dataclass(frozen=True)
class Unk:
    why: str


EPS = Seq(())


def seq(*xs):
    out = []
    for x in xs:
        if isinstance(x, Seq):
            out.extend(x.items)
        else:
            out.append(x)
    m: list = []
    for x in out:
        if isinstance(x, Lit) and x.s == "":
            continue
        if m and isinstance(m[-1], Lit) and isinstance(x, Lit):
            m[-1] = Lit(m[-1].s + x.s)
        else:
            m.append(x)
    return m[0] if len(m) == 1 else Seq(tuple(m))


def alt(*xs):
    out: list = []
    seen = set()
    for x in xs:
        for y in (x.items if isinstance(x, Alt) else (x,)):
            if y not in seen:
                seen.add(y)
                out.append(y)
    return out[0] if len(out) == 1 else Alt(tuple(out))


def items_of(sh) -> list:
    if isinstance(sh, Seq):
        return list(sh.items)
    return [sh]


def factor(a, b):
    """join of two shapes keeping the common prefix: P.(A|B)"""
    if a == b:
        return a
    ia, ib = items_of(a), items_of(b)
    i = 0
    while i < len(ia) and i < len(ib) and ia[i] == ib[i]:
        i += 1
    # split a shared literal prefix of the first differing literals
    head = list(ia[:i])
    ra, rb = ia[i:], ib[i:]
    if ra and rb and isinstance(ra[0], Lit) and isinstance(rb[0], Lit):
        sa, sb = ra[0].s, rb[0].s
        k = 0
        while k < len(sa) and k < len(sb) and sa[k] == sb[k]:
            k += 1
        if k:
            head.append(Lit(sa[:k]))
            ra = ([Lit(sa[k:])] if sa[k:] else []) + ra[1:]
            rb = ([Lit(sb[k:])] if sb[k:] else []) + rb[1:]
    return seq(*head, alt(seq(*ra), seq(*rb)))


def walk(sh):
    yield sh
    if isinstance(sh, (Seq, Alt)):
        for x in sh.items:
            yield from walk(x)
    elif isinstance(sh, Star):
        yield from walk(sh.body)


def has_unk(sh) -> list[str]:
    return [x.why for x in walk(sh) if isinstance(x, Unk)]


# ------------------------------------------------------------------ brace fold
def _lit_braces(s: str) -> tuple[int, int]:
    d = 0
    m = 0
    i = 0
    while i < len(s):
        c = s[i]
        if c == "\\" and i + 1 < len(s) and s[i + 1] in "{}\\":
            i += 2
            continue
        if c == "{":
            d += 1
        elif c == "}":
            d -= 1
            m = min(m, d)
        i += 1
    return d, m


def braces(sh) -> set:
    """set of (net delta, minimum prefix depth) the strings of `sh` can have; an entry whose
    first component is a str is an analysis problem ('UNK', why) / ('LOOP-UNBALANCED', key)."""
    if isinstance(sh, Lit):
        return {_lit_braces(sh.s)}
    if isinstance(sh, (Int, Flt, Txt, EB)):
        return {(0, 0)}
    if isinstance(sh, Seq):
        cur = {(0, 0)}
        for it in sh.items:
            nxt = set()
            for (d1, m1) in cur:
                if isinstance(d1, str):
                    nxt.add((d1, m1))
                    continue
                for (d2, m2) in braces(it):
                    if isinstance(d2, str):
                        nxt.add((d2, m2))
                    else:
                        nxt.add((d1 + d2, min(m1, d1 + m2)))
            cur = nxt
        return cur
    if isinstance(sh, Alt):
        r = set()
        for it in sh.items:
            r |= braces(it)
        return r
    if isinstance(sh, Star):
        b = braces(sh.body)
        err = {x for x in b if isinstance(x[0], str)}
        if err:
            return err
        if any(x[0] != 0 for x in b):
            return {("LOOP-UNBALANCED", sh.key)}
        return {(0, min(x[1] for x in b))} | {(0, 0)}
    if isinstance(sh, Unk):
        return {("UNK", sh.why)}
    raise TypeError(sh)


# ------------------------------------------------------------------ symbolic token counts
def count(sh, tok: str) -> set:
    """symbolic number of occurrences of control word `tok` (e.g. '\\cell'): a set of
    polynomials, each a frozenset of (monomial, coefficient); monomial '1' is the constant."""
    if isinstance(sh, Lit):
        n = len(re.findall(re.escape(tok) + r"(?![a-zA-Z])", sh.s))
        return {frozenset({("1", n)})} if n else {frozenset()}
    if isinstance(sh, (Int, Flt, Txt, EB, Unk)):
        return {frozenset()}
    if isinstance(sh, Seq):
        cur = {frozenset()}
        for it in sh.items:
            nxt = set()
            for a in cur:
                for b in count(it, tok):
                    c = Counter(dict(a))
                    c.update(dict(b))
                    nxt.add(frozenset((k, v) for k, v in c.items() if v))
            cur = nxt
        return cur
    if isinstance(sh, Alt):
        r = set()
        for it in sh.items:
            r |= count(it, tok)
        return r
    if isinstance(sh, Star):
        r = set()
        for b in count(sh.body, tok):
            r.add(frozenset(((sh.key if k == "1" else k + "*" + sh.key), v) for k, v in b))
        return r
    raise TypeError(sh)


# ------------------------------------------------------------------ prefixes / suffixes
def heads(sh, n: int = 24) -> set:
    """possible literal prefixes (up to n chars); '\0' marks a non-literal atom"""
    if isinstance(sh, Lit):
        return {sh.s[:n]}
    if isinstance(sh, (Int, Flt, Txt, Unk)):
        return {"\0"}
    if isinstance(sh, EB):
        return {""}
    if isinstance(sh, Alt):
        r = set()
        for x in sh.items:
            r |= heads(x, n)
        return r
    if isinstance(sh, Star):
        return {""} | heads(sh.body, n)
    if isinstance(sh, Seq):
        cur = {""}
        for it in sh.items:
            nxt = set()
            done = True
            for p in cur:
                if len(p) >= n or p.endswith("\0"):
                    nxt.add(p)
                    continue
                done = False
                for h in heads(it, n - len(p)):
                    nxt.add(p + h)
            cur = nxt
            if done:
                break
        return cur
    raise TypeError(sh)


def reverse(sh):
    if isinstance(sh, Lit):
        return Lit(sh.s[::-1])
    if isinstance(sh, Seq):
        return Seq(tuple(reverse(x) for x in reversed(sh.items)))
    if isinstance(sh, Alt):
        return Alt(tuple(reverse(x) for x in sh.items))
    if isinstance(sh, Star):
        return Star(reverse(sh.body), sh.key)
    return sh


def tails(sh, n: int = 24) -> set:
    return {t[::-1] for t in heads(reverse(sh), n)}


def alternatives(sh, limit: int = 64) -> list:
    """expand top-level alternatives of a shape (only Alt at the top or as direct Seq items)"""
    if isinstance(sh, Alt):
        out = []
        for x in sh.items:
            out.extend(alternatives(x, limit))
        return out[:limit]
    return [sh]


def show(sh, maxlen: int = 400) -> str:
    def r(x):
        if isinstance(x, Lit):
            return repr(x.s)[1:-1]
        if isinstance(x, Int):
            return "<int>"
        if isinstance(x, Flt):
            return "<FLOAT:%s>" % x.src
        if isinstance(x, Txt):
            return "<%s:%s>" % (x.kind, x.src[:30])
        if isinstance(x, EB):
            return "‖"
        if isinstance(x, Unk):
            return "<UNK:%s>" % x.why[:40]
        if isinstance(x, Seq):
            return "".join(r(i) for i in x.items)
        if isinstance(x, Alt):
            return "(" + "|".join(r(i) or "ε" for i in x.items) + ")"
        if isinstance(x, Star):
            return "(" + r(x.body) + ")*[" + x.key[:24] + "]"
        return "?"
    s = r(sh)
    return s if len(s) <= maxlen else s[:maxlen] + "…"
