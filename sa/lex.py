"""Lexical adjacency fold over shapes: RTF control-word / parameter / text boundaries.

State = what the string built so far ends with:
  T    ordinary text / delimiter / brace           (anything may follow)
  BS   a lone backslash                            (next char must start a control)
  CW   a control word's letters  (\\pard)           (digits = parameter, letter continues the
                                                    word, anything else ends it)
  CWN  control word + (part of) its numeric parameter
  CWM  control word followed by '-' (negative parameter started)
Issues reported:
  glue   user text (Txt) directly after CW/CWN/CWM without a delimiter
  float  a float-formatted number in parameter position (after CW / CWM)
  bs     lone backslash followed by an interpolation or end of string
  sym    backslash followed by a character that is neither a letter nor an RTF control symbol
"""
from __future__ import annotations

from .shapes import EB, Alt, Flt, Int, Lit, Seq, Star, Txt, Unk

SYMBOLS = set("{}\\*'~-_:|\n\r")


def _lit(s: str, st: str, issues: list, ctx: str):
    i = 0
    for ch in s:
        if st == "BS":
            if ch.isalpha() and ch.isascii():
                st = "CW"
            elif ch in SYMBOLS:
                st = "T"
            else:
                issues.append(("sym", "backslash followed by %r in literal %r" % (ch, s[:40]), ctx))
                st = "T"
        elif st == "CW":
            if ch.isalpha() and ch.isascii():
                st = "CW"
            elif ch.isdigit():
                st = "CWN"
            elif ch == "-":
                st = "CWM"
            elif ch == "\\":
                st = "BS"
            else:
                st = "T"
        elif st in ("CWN", "CWM"):
            if ch.isdigit():
                st = "CWN"
            elif ch == "\\":
                st = "BS"
            else:
                st = "T"
        else:
            st = "BS" if ch == "\\" else "T"
    return st


def fold(sh, states: frozenset, issues: list, ctx: str = "") -> frozenset:
    if isinstance(sh, Lit):
        return frozenset(_lit(sh.s, st, issues, ctx) for st in states)
    if isinstance(sh, EB):
        return states
    if isinstance(sh, Int):
        out = set()
        for st in states:
            if st == "BS":
                issues.append(("bs", "lone backslash followed by a number (%s)" % sh.src, ctx))
                out.add("T")
            elif st in ("CW", "CWM", "CWN"):
                out.add("CWN")
            else:
                out.add("T")
        return frozenset(out)
    if isinstance(sh, Flt):
        out = set()
        for st in states:
            if st in ("CW", "CWM"):
                issues.append(("float", "non-integer number in control-word parameter position (%s)" % sh.src, ctx))
            elif st == "BS":
                issues.append(("bs", "lone backslash followed by a number (%s)" % sh.src, ctx))
            out.add("T")
        return frozenset(out)
    if isinstance(sh, Txt):
        for st in states:
            if st in ("CW", "CWN", "CWM"):
                issues.append(("glue", "text <%s:%s> directly follows a control word without delimiter" % (sh.kind, sh.src[:60]), ctx))
            elif st == "BS":
                issues.append(("bs", "lone backslash followed by text <%s>" % sh.src[:60], ctx))
        # user text may be empty: the previous state can survive; text itself ends as T
        # (raw text containing valid RTF fragments is the input restriction of the property)
        return frozenset({"T"}) | frozenset(st for st in states if st == "T")
    if isinstance(sh, Unk):
        return frozenset({"T"})
    if isinstance(sh, Seq):
        cur = states
        for it in sh.items:
            cur = fold(it, cur, issues, ctx)
        return cur
    if isinstance(sh, Alt):
        out = set()
        for it in sh.items:
            out |= fold(it, states, issues, ctx)
        return frozenset(out)
    if isinstance(sh, Star):
        cur = states
        for _ in range(4):
            nxt = cur | fold(sh.body, cur, issues, ctx)
            if nxt == cur:
                break
            cur = nxt
        return cur
    raise TypeError(sh)


def check(sh, ctx: str = "") -> list:
    issues: list = []
    end = fold(sh, frozenset({"T"}), issues, ctx)
    if "BS" in end:
        issues.append(("bs", "string can end with a lone backslash", ctx))
    # de-duplicate
    seen, out = set(), []
    for x in issues:
        if x not in seen:
            seen.add(x)
            out.append(x)
    return out
