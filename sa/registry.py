"""Registry of claimed properties -> MANIFEST.json entries (tools/gen_manifest.py renders it)."""

TRUSTED = ("Trusted base: Python semantics without monkey-patching; pydantic validates/coerces constructor keywords "
           "to declared field types; polars/PIL/shutil/tempfile behave as documented; no getattr-computed calls. ")

CHECKS = {
    "C01": dict(
        technique="abstract interpretation of the string builders over a shape domain (brace/\\cellx-\\cell/lexical folds) + AST rules (type agreement, optional-return discipline, table agreement)",
        text="Static argument (A) for: single balanced top-level group with RTF signature on all three encode paths, "
             "\\cellx=\\cell per row, lexical adjacency of control words/parameters/text, integer parameters; necessary "
             "conditions (N) for crash-freedom: attribute->model type agreement, optional results tested before use, "
             "accepted values are encodable. Decided for every document the abstract document covers (all component "
             "presence combinations, all three paths) from the current source.",
        note=TRUSTED + "Assumes user text is free of unbalanced raw { } \\ (the property's input restriction) and that the escaper "
             "only adds complete \\uc1\\uN* escapes (its body is analysed under C10). Not decided: absence of all "
             "run-time exceptions; numeric positivity/monotonicity of \\cellx values.",
        ref="DESIGN.md §4 C01"),
    "C19": dict(
        technique="AST rules over pydantic validators: coverage matrix, raise discipline, name resolvability, table agreement",
        text="Necessary conditions (N), exception type argument (A): each constrained field named by the property has a "
             "validator with a ValueError raise guarded by the right kind of test against the right table (37-row matrix); "
             "every raise in validators is ValueError/FileNotFoundError; every cls./self. attribute read in a raising "
             "validator resolves; flat and nested list shapes both reach a raise; positivity guards include 0; accepted "
             "values are a subset of the emitter tables; document-level cross-field checks present and reachable.",
        note=TRUSTED + "Not decided: rejection of every concrete invalid value at every position (validators are checked "
             "structurally, not executed).",
        ref="DESIGN.md §4 C19"),
}

CHECKS["C10"] = dict(
    technique="interval analysis of the escaper loop over all code points + taint over abstract document shapes + CFG gating + writer encoding rule",
    text="Static argument (A): the per-character escaping loop is executed symbolically with ord(c) ranging over every Unicode "
         "scalar value; each path's code-point set and appended pieces are computed exactly (intervals, affine forms). "
         "Pass-through sets must lie inside the range the file encoding and \\ansi decode identically; \\u values must lie in "
         "[-32768,32767] and be the signed-16 image (BMP) or the UTF-16 surrogate pair; \\ucN must be followed by exactly N "
         "literal fallback characters; no raw user-text atom may appear in the document shape of any of the three encode "
         "paths; the escaping step must not be control-dependent on the conversion flag; all writers name their encoding.",
    note=TRUSTED + "Assumes RTF readers decode bytes < 0x80 identically under \\ansi and honour \\uc1. Not decided: third-party "
         "reader behaviour; raw RTF fragments the user supplies on purpose (input restriction).",
    ref="DESIGN.md §4 C10")

NOT_YET = "check not built yet in this session (design in DESIGN.md); claimed once its checker exists"

NOT_APPLICABLE: dict[str, str] = {}
