"""Registry of claimed properties -> MANIFEST.json entries (tools/gen_manifest.py renders it)."""

TRUSTED = ("Trusted base: Python semantics without monkey-patching; pydantic validates/coerces constructor keywords "
           "to declared field types; polars/PIL/shutil/tempfile behave as documented; no getattr-computed calls. ")

CHECKS = {
    "C01": dict(
        technique="abstract interpretation of the string builders over a shape domain (brace/\\cellx-\\cell/lexical folds) + AST rules (type agreement, optional-return discipline, table agreement)",
        text="Static argument (A) for: single balanced top-level group with RTF signature on all three encode paths, "
             "\\cellx=\\cell per row, lexical adjacency of control words/parameters/text, integer parameters; necessary "
             "conditions (N) for crash-freedom: attribute->model type agreement, optional results tested before use, "
             "accepted values are encodable. Decided for every document the abstract document covers (all component "
             "presence combinations, all three paths) from the current source.",
        note=TRUSTED + "Assumes user text is free of unbalanced raw { } \\ (the property's input restriction) and that the escaper "
             "only adds complete \\uc1\\uN* escapes (its body is analysed under C10). Not decided: absence of all "
             "run-time exceptions; numeric positivity/monotonicity of \\cellx values.",
        ref="DESIGN.md §4 C01"),
    "C19": dict(
        technique="AST rules over pydantic validators: coverage matrix, raise discipline, name resolvability, table agreement",
        text="Necessary conditions (N), exception type argument (A): each constrained field named by the property has a "
             "validator with a ValueError raise guarded by the right kind of test against the right table (37-row matrix); "
             "every raise in validators is ValueError/FileNotFoundError; every cls./self. attribute read in a raising "
             "validator resolves; flat and nested list shapes both reach a raise; positivity guards include 0; accepted "
             "values are a subset of the emitter tables; document-level cross-field checks present and reachable.",
        note=TRUSTED + "Not decided: rejection of every concrete invalid value at every position (validators are checked "
             "structurally, not executed).",
        ref="DESIGN.md §4 C19"),
}

NOT_YET = "check not built yet in this session (design in DESIGN.md); claimed once its checker exists"

NOT_APPLICABLE: dict[str, str] = {}
