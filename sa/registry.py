"""Registry of claimed properties -> MANIFEST.json entries (tools/gen_manifest.py renders it)."""

TRUSTED = ("Decided on the normalised program model (sa/normalise.py, sa/alpha.py: semantics-preserving undoing of ordinary refactorings; DESIGN II.8-II.9); a construct that cannot be re-identified is an analysis gap (exit 2), a VIOLATION needs positive evidence. Trusted base: Python semantics without monkey-patching; pydantic validates/coerces constructor keywords "
           "to declared field types; polars/PIL/shutil/tempfile behave as documented; no getattr-computed calls. ")

CHECKS = {
    "C01": dict(
        technique="abstract interpretation of the string builders over a shape domain (brace / \\cellx-\\cell / lexical folds; unsupported constructs join to Unk -> analysis gap) + structural rules (attribute->model type agreement through expanded keywords, optional-return discipline, table agreement)",
        text="Static argument (A) for: single balanced top-level group with RTF signature on all three encode paths, "
             "\\cellx=\\cell per row, lexical adjacency of control words/parameters/text, integer parameters; necessary "
             "conditions (N) for crash-freedom: attribute->model type agreement, optional results tested before use, "
             "accepted values are encodable. Decided for every document the abstract document covers (all component "
             "presence combinations, all three paths) from the current source.",
        note=TRUSTED + "Assumes user text is free of unbalanced raw { } \\ (the property's input restriction) and that the escaper "
             "only adds complete \\uc1\\uN* escapes (its body is analysed under C10). Not decided: absence of all "
             "run-time exceptions; numeric positivity/monotonicity of \\cellx values.",
        ref="DESIGN.md §4 C01"),
    "C19": dict(
        technique="abstract evaluation (SDT) of each field's validators and declared constraints on an uninterpreted value: every valuation in which the value lies outside the legal region must raise a ValueError subclass, for scalar / flat / nested position + raise discipline + exhaustive table agreement + decision tables of document-level cross-field checks",
        text="Static argument (A) per constrained field: its validators and declared constraints are evaluated on an uninterpreted value; in every "
             "valuation where the value is outside the legal region (code table, positive / non-negative, length) a ValueError subclass is raised, "
             "for scalar, flat and nested position; "
             "every raise in validators is ValueError/FileNotFoundError; every cls./self. attribute read in a raising "
             "validator resolves; flat and nested list shapes both reach a raise; positivity guards include 0; accepted "
             "values are a subset of the emitter tables; document-level cross-field checks present and reachable.",
        note=TRUSTED + "Not decided: pydantic type coercion and the content of before-validators; conditions other than the value's region are "
             "left free (all valuations must raise).",
        ref="DESIGN.md §4 C19"),
}

CHECKS["C10"] = dict(
    technique="interval + affine-form analysis of the escaper (entered through helpers, loop or comprehension) over all Unicode scalar values + taint over abstract document shapes + symbolic run of the text pipeline per flag value + writer-encoding rule",
    text="Static argument (A): the per-character escaping loop is executed symbolically with ord(c) ranging over every Unicode "
         "scalar value; each path's code-point set and appended pieces are computed exactly (intervals, affine forms). "
         "Pass-through sets must lie inside the range the file encoding and \\ansi decode identically; \\u values must lie in "
         "[-32768,32767] and be the signed-16 image (BMP) or the UTF-16 surrogate pair; \\ucN must be followed by exactly N "
         "literal fallback characters; no raw user-text atom may appear in the document shape of any of the three encode "
         "paths; the escaping step must not be control-dependent on the conversion flag; all writers name their encoding.",
    note=TRUSTED + "Assumes RTF readers decode bytes < 0x80 identically under \\ansi and honour \\uc1. Not decided: third-party "
         "reader behaviour; raw RTF fragments the user supplies on purpose (input restriction).",
    ref="DESIGN.md §4 C10")

CHECKS["C11"] = dict(
    technique="symbolic run of the conversion pipeline (uninterpreted text symbol, both flag values, fixed point over loops) + table confluence + regex-AST/table agreement exhaustive over 682 keys + callback evaluated on a symbolic match",
    text="Static argument (A) for the table-driven part: the ordered replacement table is confluent (no output re-translated, no "
         "key destroyed, documented token set exactly); the tokenizer regex, parsed with re._parser, has the documented form and "
         "is matched against every one of the 682 dictionary keys (exhaustive); control words injected before the LaTeX pass hit "
         "the dictionary exactly for \\geq/\\leq; the mapper table is the dictionary itself; conversion is one left-to-right "
         "pattern.sub with whole-match lookup and identity on miss. Necessary conditions (N): both passes are control-dependent "
         "on the cell's convert flag, nothing else rewrites the text, convert= is fed from text_convert, component defaults.",
    note=TRUSTED + "str.replace/re.sub behave as documented. Not decided: conversion results for arbitrary strings beyond what "
         "follows from the table/regex/gating rules.",
    ref="DESIGN.md §4 C11")

CHECKS["C12"] = dict(
    technique="forward must-analysis of the colour-context protocol over each CFG with exceptional edges + typestate over the call graph + pipeline normal forms through temporaries + may-analysis of collected attribute paths + exhaustive table integrity",
    text="Static argument (A): context typestate is propagated from rtf_encode over the call graph; the context-dependent index "
         "lookup is never entered unless a dominating set_document_context(document) precedes and no clear intervenes, on all "
         "three encode paths; table and index are computed by the same filter/validate/sort pipeline with one unconditional entry "
         "per colour after one default entry and index = position+1; colour control words take parameters only from the lookup; "
         "the collector reads every component and every emitted colour attribute; the 657-row master table and its derived maps "
         "agree (exhaustive); font ids = legal numbers - 1 with \\f{font-1} references.",
    note=TRUSTED + "Not decided: that each concrete element carries the requested colour (needs C09's binding rules as well).",
    ref="DESIGN.md §4 C12")

CHECKS["C14"] = dict(
    technique="set/clear pairing of the colour context on all normal and exceptional exits (CFG must-pass; generator and class-based context managers) + interprocedural ownership (freshness) analysis + order-sensitivity analysis of set iteration + idempotent process-state writes + memoisation / memo-key dependence",
    text="Static argument (A) for the state clauses: set/clear of the colour context is paired on every normal and exceptional exit; "
         "no process state is written except idempotent constant registrations; no time/random/env/hash-order dependence; no "
         "memoisation. Ownership (A relative to the alias model): every store or mutator on a user-facing component on the "
         "construction/encode call graphs goes through an object created by that call (flow-sensitive freshness, parameters fresh "
         "only if fresh at every call site); no in-place frame operation. Violations found on the current tree are recorded as "
         "known findings (caller-owned components are modified by RTFDocument.__init__ and _encode_multi_section).",
    note=TRUSTED + "Internal classes (PageContext, BroadcastValue, Cell…) are never user-supplied; deepcopy/model_copy(deep)/clone "
         "share no mutable state with their source; aliasing through container elements is tracked only to depth 1. Not decided: "
         "equality with a fresh interpreter's output for concrete histories.",
    ref="DESIGN.md §4 C14")

CHECKS["C15"] = dict(
    technique="shared-state inventory + store-site effect analysis over the call graph (sufficient condition for schedule independence); idempotent registration decided by enumerating the source's literal (name, class) pairs",
    text="Static argument (A, sufficient condition): no function reachable from rtf_encode writes process-shared mutable state "
         "(module-level containers/instances, singleton attributes, class-level containers or rebindable attributes, including "
         "those reached through self), except state held in contextvars.ContextVar/threading.local and idempotent registrations "
         "of constant (name, class) pairs; no memoised function on the graph. If nothing shared is written, every interleaving "
         "equals the sequential runs.",
    note=TRUSTED + "Documents encoded concurrently are distinct objects; third-party libraries are thread-safe for independent "
         "objects. Interleavings inside third-party code are not analysed.",
    ref="DESIGN.md §4 C15")

CHECKS["C06"] = dict(
    technique="decision tables exhaustive over presence x placement x first/last x needs_header (render, figure path, predicates) from abstract evaluation with one generic page/figure iteration + geometry words evaluated to symbolic strings + who-may-convert rule + memo-key dependence",
    text="Static argument (A) for the decision logic: the two placement predicates and the figure path's inline predicates are "
         "extracted as decision tables and equal the specification on every row; every emit site of PageRenderer.render is shown "
         "iff component present ∧ spec(its placement field) over all valuations of its guard; block order and once-ness are "
         "syntactic; needs_header/is_first/is_last at the three strategies equal (pageby_header ∨ first, first, last). Necessary "
         "conditions (N): page-break geometry uses the shared inch->twip conversion and the same six margin words in the same "
         "order as the document start; \\landscape iff orientation == 'landscape'; header/footer/settings emitted once per "
         "document; nobody rewrites page flags after pagination.",
    note=TRUSTED + "Not decided: numeric value of the geometry words; which rows land on which page.",
    ref="DESIGN.md §4 C06")

CHECKS["C13"] = dict(
    technique="abstract evaluation (LDT) of the suppression/restoration functions with polars operators as uninterpreted function symbols, judged on the built expression terms + accumulator as linear form + CFG dominance of validation",
    text="Static argument (A) for the null clause: every comparison with a shifted column in the suppression functions is null-aware. "
         "Necessary conditions (N): hierarchical show-condition = first row ∨ change of every higher level ∨ own change, combined by "
         "OR and evaluated on the unsuppressed frame; only the group column is rewritten (to null); page-start indices are "
         "cumulative heights of preceding pages and restoration covers indices x group columns; validate_data_sorting dominates "
         "suppression, raises ValueError and sees the whole table; the contiguity key of level i covers all levels up to i.",
    note=TRUSTED + "polars semantics of !=, ne_missing, shift as documented. Not decided: equality of the down-filled column with the "
         "input for concrete frames.",
    ref="DESIGN.md §4 C13")

CHECKS["C16"] = dict(
    technique="dataflow identity of the payload + slice-bound partition of the hex lines + offsets/marker set read from the parser's own expressions (generic scan iteration, marker byte over all 256 values) + decision tables (suffix x MIME, _get_dimension) + generic per-figure iteration + who-may-convert rule",
    text="Static argument (A) for payload and tables: file bytes (open rb, read, unmemoised) flow unmodified to bytes.hex(), the hex "
         "string is partitioned exactly by range(0,len,k)/[i:i+k] with k even, whitespace-joined; suffix/MIME/blip tables equal the "
         "documented ones; PNG IHDR and JPEG SOF offsets/marker set equal the format specifications; goal sizes use the shared "
         "inch->twip conversion. Necessary conditions (N): per-figure loop takes data/format/width/height by index with the "
         "last-value reuse rule and emits \\page iff not last; placement predicates equal the spec (decision tables).",
    note=TRUSTED + "struct.unpack and bytes.hex behave as documented. Not decided: pixel dimensions of arbitrary image files.",
    ref="DESIGN.md §4 C16")

CHECKS["C17"] = dict(
    technique="abstract evaluation (SDT) of assemble_rtf over a symbolic input list (generic position K of N, all valuations, position classes decided exactly) + writer/reader layout agreement from abstract document shapes + CFG ordering of reads/writes + structural content-skip rule",
    text="Necessary conditions (N): from the abstract document shape of each encode path, the line offset between the last 'fcharset' "
         "line and the first body line equals the constant find_start_index adds, the font-table closing line carries nothing else, "
         "and every document ends with a line that is exactly '}'; in assemble_rtf the FileNotFoundError guard over all inputs "
         "dominates the output open, no input is opened after the output, the empty list returns first, the start index is computed "
         "per input from its own lines for i > 0, closing-line drop and \\page insertion are restricted to non-final inputs, in order.",
    note=TRUSTED + "Inputs were written by this version of rtflite. Not decided: that assembled pages equal the concatenation for "
         "concrete inputs; duplicate colour tables of later inputs.",
    ref="DESIGN.md §4 C17")

CHECKS["C18"] = dict(
    technique="CFG with exceptional edges per writer + dataflow of path locations (target / temp / converter result): ordering of target touches after encode, convert and type test; temporary resources released on every exit",
    text="Static argument (A) for ordering: in write_rtf the rtf_encode() call dominates every filesystem operation on the target and "
         "the written value is its single-assigned result; in write_docx/html/pdf every temporary resource is a "
         "with-TemporaryDirectory item (or a context manager whose yield is protected by try/finally cleanup), every write goes "
         "to a temp-derived path except shutil.move(converter output, target), which is dominated by convert and the "
         "isinstance(Path) raise-guard inside both with blocks.",
    note=TRUSTED + "TemporaryDirectory removes its tree on exit; shutil.move within one file system. Not decided: atomicity of "
         "shutil.move across file systems; LibreOffice's own temporary files.",
    ref="DESIGN.md §4 C18")

CHECKS["C20"] = dict(
    technique="abstract evaluation of get_string_width with unit over its declared Literal domain: monomial normal forms W, W/dpi, 25.4*W/dpi; validation raises on every unsupported valuation; size/text reach the loader as the argument symbols; exhaustive font tables; memo-key dependence",
    text="Decides only the clauses visible in rtflite's source: unit conversions are exact multiples (A), number<->name maps are "
         "inverse, cover 1..10 and resolve to one font file (A, exhaustive), font/unit membership checks dominate every return and "
         "raise ValueError (A), the requested size and text reach the font loader/measurement unmodified (N). The numeric clauses "
         "(0 for '', non-negativity, monotonicity, 1% scaling, monospace advance) are properties of Pillow/FreeType's getlength on "
         "the bundled fonts and are NOT decided by this technique.",
    note=TRUSTED + "Not decided (no static argument over rtflite's source can bound FreeType's results): empty-string width, "
         "non-negativity, monotonicity under appending, scaling within 1%, monospace advance equality.",
    ref="DESIGN.md §4 C20")

CHECKS["C04"] = dict(
    technique="decision table of the page-break loop body with atoms classified by meaning through integer linear forms (exhaustive over consulted atoms, post-state as linear forms) + dataflow of forced-break flags + role-based recognition of row-wise change detection",
    text="Static argument (A) for the decision logic: the loop body of _assign_pages is evaluated over the atoms subline start, group "
         "start, new_page, i>0, current_rows>0, overflow; on all consistent rows the page counter increments exactly when "
         "current_rows>0 ∧ (subline start ∨ (new_page ∧ group start) ∨ overflow), the page is stored unconditionally, current_rows "
         "is reset/accumulated; overflow guard and available rows as linear forms. Necessary conditions (N): forced-break keyword "
         "arguments per strategy, no look-ahead (prefix stability), column-wise group-change flags, pages materialised in ascending "
         "order from [min,max] ranges, every row adds >= 1.",
    note=TRUSTED + "Row heights are those computed by calculate_row_metadata (the estimator is C03's subject). Not decided: where breaks "
         "fall for a concrete height vector.",
    ref="DESIGN.md §4 C04")

CHECKS["C05"] = dict(
    technique="abstract evaluation (LDT) of one generic iteration of the boundary/level loops and of the paginate functions over uninterpreted symbols, all valuations enumerated, judged as terms + decision tables for the three 'spanning rows shown' sites + linear forms",
    text="Necessary conditions (N), decision-table equality (A) for R05.2: heading values and boundaries come from the page's own "
         "(start_row, end_row) with page_relative_row = row_idx+1-start_row; 'spanning rows shown' at render and _render_body and "
         "'page_by columns removed' in prepare_dataframe are the same boolean function of (new_page, pageby_row); the divider literal "
         "and its filter form agree at all sites and yield no budget; sticky-flag discipline of the level loop in declaration order; "
         "heading rows are part of the first row's height; subline heading on every page; column-wise boundary detection and "
         "segment < headings < cursor order at each boundary.",
    note=TRUSTED + "Not decided: correct heading placement for concrete group runs (depends on run-time page assignment).",
    ref="DESIGN.md §4 C05")

CHECKS["C07"] = dict(
    technique="decision-table extraction of the border logic with lazy atom discovery, exhaustive over 392 configurations + abstract evaluation of header/override/section sites (generic iterations) + value tracing of deep copies + CFG path property + memo-key dependence analysis",
    text="Static argument (A) for the decision logic: _apply_pagination_borders with its helpers inlined is evaluated symbolically; "
         "every leaf's effects (row, side, style source; component overrides) are compared with the three-tier hierarchy on every "
         "configuration of first/last x header x footnote{text,as_table,placement} x source{...} (exhaustive). Plus: header top-edge "
         "site, override consumers, per-page deep copy and alias-free row expansion, no other border stores, data cells read their "
         "own (i,j), multi-section first/last clearing, processor applied unconditionally to every page.",
    note=TRUSTED + "Assumes a configured header list renders a header row on the first page and the four edge styles are non-empty. "
         "Not decided: border widths/colours (never emitted), page_by without column headers for the top-edge clause.",
    ref="DESIGN.md §4 C07, appendix C")

CHECKS["C02"] = dict(
    technique="abstract evaluation (TDT/LDT: uninterpreted symbols, one generic loop iteration, all valuations of consulted conditions) of the slicing layers and of _encode's cell loop, judged as terms and linear forms + structural provenance rule for column removal + effect analysis of the per-cell text pipeline",
    text="Structural necessary conditions (N): the slicing layers are cursor partitions (re-slice by cumulative heights twice; "
         "[prev:boundary) segments plus tail with row_offset = slice lower bound); a page is the [min,max] slice of the rows "
         "assigned to it and every row gets exactly one monotone page number (C04's tables); cell (i,j) is df.row(i)[j] with "
         "null->'' else str(), one cell per (i,j), one row per i; column removal keeps the frame's order and computes positions on "
         "the original frame; display predicate == removal predicate (C05's table); sections and pages in list order; the per-cell "
         "text pipeline touches no shared state and is not memoised.",
    note=TRUSTED + "polars slice/select/row as documented. Not decided: that the concatenated page rows equal the input for concrete "
         "frames (row->page arithmetic is run-time); cell text after escaping/conversion is C10/C11's subject.",
    ref="DESIGN.md §4 C02")

CHECKS["C03"] = dict(
    technique="budget ledger: reservation terms decomposed by role and compared with the emitters' guard atoms + signature-bound dataflow of the estimator inputs + linear forms of displayed-column widths + shared decision table of the page-break loop",
    text="Structural necessary conditions (N): every per-page row emitter of PageRenderer.render is paired with a reservation term or "
         "a per-row budget term whose guard is at least as wide; the break guard and available rows in normal form with the "
         "exhaustive break table (C04); the estimator receives the cell's own text and column width, single-assigned per cell, "
         "row height = max over cells; displayed-column widths from cumulative boundaries with removed columns skipped. Three "
         "classes of genuine budget holes on the current tree are recorded as known findings (automatic header not reserved, "
         "continuation heading not budgeted, estimator blind to font/size).",
    note=TRUSTED + "Not decided: that the estimated line count is >= the true wrapped line count (FreeType metrics), and per-page sums "
         "for concrete frames.",
    ref="DESIGN.md §4 C03")

CHECKS["C08"] = dict(
    technique="abstract evaluation (TDT) of width producers and consumers as terms (running-sum monomial of _col_widths, round(width*1440), per-section inheritance) + call-site width provenance through temporaries and if/else arms + structural column-removal provenance",
    text="Structural necessary conditions (N): every Cell.width is col_widths[j] or the table width; every row encoder receives "
         "document.rtf_page.col_width and hands it unchanged to Utils._col_widths with the component's own relative widths; body "
         "widths come from the reduced attributes; automatic headers re-base their widths to the displayed columns; widths and "
         "attribute matrices are cut with the removed index set of the original frame; _col_widths is the running sum of "
         "rel_i*W/sum(rel) (so the last boundary is W) and \\cellx is its shared inch->twip conversion; default/broadcast/inherit "
         "handling of col_rel_width in RTFDocument.__init__.",
    note=TRUSTED + "rtf_page.col_width is always set by RTFPage._set_default. Not decided: proportionality to within one twip for "
         "concrete widths (float arithmetic).",
    ref="DESIGN.md §4 C08")

CHECKS["C09"] = dict(
    technique="attribute consumption completeness (set logic) + binding table and lookup index forms read off constructor-argument terms of an abstract evaluation with generic (i, j) + list-shape/alias domain for BroadcastValue.to_list + structural column-removal provenance",
    text="Structural necessary conditions (N): every declared attribute reaches an emitter or a listed structural consumer; the "
         "(model field <- attribute) binding table holds at all TextContent/Cell/Row constructor sites of the three encoders; the "
         "lookup is BroadcastValue(value=attr).iloc(row+row_offset, col) with iloc = value[r%R][c%C] at (i,j); row_offset equals the "
         "slice lower bound; per-page deep copy with alias-free row expansion; attribute columns cut by original-frame positions. "
         "Known findings on the current tree: border_width / border_color_* never emitted; attribute rows re-based per page.",
    note=TRUSTED + "Not decided: equality of each emitted property value with the attribute value for concrete tables.",
    ref="DESIGN.md §4 C09")

NOT_YET = "check not built yet in this session (design in DESIGN.md); claimed once its checker exists"

NOT_APPLICABLE: dict[str, str] = {}
