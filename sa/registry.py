"""Registry of claimed properties -> MANIFEST.json entries (tools/gen_manifest.py renders it)."""

TRUSTED = ("Trusted base: Python semantics without monkey-patching; pydantic validates/coerces constructor keywords "
           "to declared field types; polars/PIL/shutil/tempfile behave as documented; no getattr-computed calls. ")

CHECKS = {
    "C01": dict(
        technique="abstract interpretation of the string builders over a shape domain (brace/\\cellx-\\cell/lexical folds) + AST rules (type agreement, optional-return discipline, table agreement)",
        text="Static argument (A) for: single balanced top-level group with RTF signature on all three encode paths, "
             "\\cellx=\\cell per row, lexical adjacency of control words/parameters/text, integer parameters; necessary "
             "conditions (N) for crash-freedom: attribute->model type agreement, optional results tested before use, "
             "accepted values are encodable. Decided for every document the abstract document covers (all component "
             "presence combinations, all three paths) from the current source.",
        note=TRUSTED + "Assumes user text is free of unbalanced raw { } \\ (the property's input restriction) and that the escaper "
             "only adds complete \\uc1\\uN* escapes (its body is analysed under C10). Not decided: absence of all "
             "run-time exceptions; numeric positivity/monotonicity of \\cellx values.",
        ref="DESIGN.md §4 C01"),
    "C19": dict(
        technique="AST rules over pydantic validators: coverage matrix, raise discipline, name resolvability, table agreement",
        text="Necessary conditions (N), exception type argument (A): each constrained field named by the property has a "
             "validator with a ValueError raise guarded by the right kind of test against the right table (37-row matrix); "
             "every raise in validators is ValueError/FileNotFoundError; every cls./self. attribute read in a raising "
             "validator resolves; flat and nested list shapes both reach a raise; positivity guards include 0; accepted "
             "values are a subset of the emitter tables; document-level cross-field checks present and reachable.",
        note=TRUSTED + "Not decided: rejection of every concrete invalid value at every position (validators are checked "
             "structurally, not executed).",
        ref="DESIGN.md §4 C19"),
}

CHECKS["C10"] = dict(
    technique="interval analysis of the escaper loop over all code points + taint over abstract document shapes + CFG gating + writer encoding rule",
    text="Static argument (A): the per-character escaping loop is executed symbolically with ord(c) ranging over every Unicode "
         "scalar value; each path's code-point set and appended pieces are computed exactly (intervals, affine forms). "
         "Pass-through sets must lie inside the range the file encoding and \\ansi decode identically; \\u values must lie in "
         "[-32768,32767] and be the signed-16 image (BMP) or the UTF-16 surrogate pair; \\ucN must be followed by exactly N "
         "literal fallback characters; no raw user-text atom may appear in the document shape of any of the three encode "
         "paths; the escaping step must not be control-dependent on the conversion flag; all writers name their encoding.",
    note=TRUSTED + "Assumes RTF readers decode bytes < 0x80 identically under \\ansi and honour \\uc1. Not decided: third-party "
         "reader behaviour; raw RTF fragments the user supplies on purpose (input restriction).",
    ref="DESIGN.md §4 C10")

CHECKS["C11"] = dict(
    technique="table confluence + regex-AST/table agreement + CFG gating rules over the text-conversion pipeline",
    text="Static argument (A) for the table-driven part: the ordered replacement table is confluent (no output re-translated, no "
         "key destroyed, documented token set exactly); the tokenizer regex, parsed with re._parser, has the documented form and "
         "is matched against every one of the 682 dictionary keys (exhaustive); control words injected before the LaTeX pass hit "
         "the dictionary exactly for \\geq/\\leq; the mapper table is the dictionary itself; conversion is one left-to-right "
         "pattern.sub with whole-match lookup and identity on miss. Necessary conditions (N): both passes are control-dependent "
         "on the cell's convert flag, nothing else rewrites the text, convert= is fed from text_convert, component defaults.",
    note=TRUSTED + "str.replace/re.sub behave as documented. Not decided: conversion results for arbitrary strings beyond what "
         "follows from the table/regex/gating rules.",
    ref="DESIGN.md §4 C11")

CHECKS["C12"] = dict(
    technique="typestate over the call graph with CFG dominance (colour context), pipeline normal-form agreement, exhaustive table integrity",
    text="Static argument (A): context typestate is propagated from rtf_encode over the call graph; the context-dependent index "
         "lookup is never entered unless a dominating set_document_context(document) precedes and no clear intervenes, on all "
         "three encode paths; table and index are computed by the same filter/validate/sort pipeline with one unconditional entry "
         "per colour after one default entry and index = position+1; colour control words take parameters only from the lookup; "
         "the collector reads every component and every emitted colour attribute; the 657-row master table and its derived maps "
         "agree (exhaustive); font ids = legal numbers - 1 with \\f{font-1} references.",
    note=TRUSTED + "Not decided: that each concrete element carries the requested colour (needs C09's binding rules as well).",
    ref="DESIGN.md §4 C12")

CHECKS["C14"] = dict(
    technique="CFG pairing with exceptional edges + interprocedural ownership (freshness) analysis + effect/determinism rules",
    text="Static argument (A) for the state clauses: set/clear of the colour context is paired on every normal and exceptional exit; "
         "no process state is written except idempotent constant registrations; no time/random/env/hash-order dependence; no "
         "memoisation. Ownership (A relative to the alias model): every store or mutator on a user-facing component on the "
         "construction/encode call graphs goes through an object created by that call (flow-sensitive freshness, parameters fresh "
         "only if fresh at every call site); no in-place frame operation. Violations found on the current tree are recorded as "
         "known findings (caller-owned components are modified by RTFDocument.__init__ and _encode_multi_section).",
    note=TRUSTED + "Internal classes (PageContext, BroadcastValue, Cell…) are never user-supplied; deepcopy/model_copy(deep)/clone "
         "share no mutable state with their source; aliasing through container elements is tracked only to depth 1. Not decided: "
         "equality with a fresh interpreter's output for concrete histories.",
    ref="DESIGN.md §4 C14")

CHECKS["C15"] = dict(
    technique="shared-state inventory + effect analysis over the call graph (sufficient condition for schedule independence)",
    text="Static argument (A, sufficient condition): no function reachable from rtf_encode writes process-shared mutable state "
         "(module-level containers/instances, singleton attributes, class-level containers or rebindable attributes, including "
         "those reached through self), except state held in contextvars.ContextVar/threading.local and idempotent registrations "
         "of constant (name, class) pairs; no memoised function on the graph. If nothing shared is written, every interleaving "
         "equals the sequential runs.",
    note=TRUSTED + "Documents encoded concurrently are distinct objects; third-party libraries are thread-safe for independent "
         "objects. Interleavings inside third-party code are not analysed.",
    ref="DESIGN.md §4 C15")

NOT_YET = "check not built yet in this session (design in DESIGN.md); claimed once its checker exists"

NOT_APPLICABLE: dict[str, str] = {}
