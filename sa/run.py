"""CLI: python -m sa.run <PROPERTY> [--tier quick|thorough] [--root DIR] [--explain PATH]"""
from __future__ import annotations

import argparse
import importlib
import json
import os
import sys
import traceback

from . import report
from .pm import PM, AnalysisError


def main(argv=None) -> int:
    ap = argparse.ArgumentParser()
    ap.add_argument("prop")
    ap.add_argument("--tier", default=os.environ.get("VERIF_TIER", "quick"), choices=["quick", "thorough"])
    ap.add_argument("--root", default=os.environ.get("VERIF_ROOT", "/repo"))
    ap.add_argument("--explain", default=None, help="print a stored violation payload")
    ap.add_argument("--evidence-dir", default=None)
    a = ap.parse_args(argv)
    if a.explain:
        print(json.dumps(json.load(open(a.explain)), indent=1))
        return 0
    try:
        seed = int(os.environ.get("VERIF_SEED", "0"))
    except ValueError:
        seed = 0
    if a.evidence_dir:
        report.EVIDENCE_DIR = type(report.EVIDENCE_DIR)(a.evidence_dir)
    prop = a.prop.upper()
    ctx = None
    try:
        pm = PM(a.root)
        ctx = report.Ctx(prop, pm, a.tier, seed)
        mod = importlib.import_module(f"sa.rules.{prop.lower()}")
        mod.check(ctx)
        if a.tier == "thorough":
            if hasattr(mod, "thorough"):
                mod.thorough(ctx)
            from . import selftest
            selftest.run(ctx)
            from . import corpus
            corpus.run(ctx)
        return report.finish(ctx)
    except AnalysisError as e:
        if ctx is None:
            print(f"ANALYSIS-ERROR property={prop} {e}")
            return 2
        return report.finish(ctx, error=str(e))
    except Exception as e:  # checker bug: never masquerade as a violation
        tb = traceback.format_exc()
        sys.stderr.write(tb)
        msg = f"checker crashed: {type(e).__name__}: {e}"
        if ctx is None:
            print(f"ANALYSIS-ERROR property={prop} {msg}")
            return 2
        return report.finish(ctx, error=msg)


if __name__ == "__main__":
    sys.exit(main())
