"""Small AST pattern matcher with metavariables, and a few helpers that let rules recognise a construct
by *role* (tolerant) and then verify its property-relevant attributes (strict).

pattern syntax: ordinary Python source in which a name starting with `_` followed by an upper-case letter
(`_X`, `_Seq`) is a metavariable matching any expression (the same metavariable must match structurally
equal expressions); `__` matches anything without binding.  Statement patterns work the same way.
"""
from __future__ import annotations

import ast
from functools import lru_cache

from .pm import unparse, walk_no_nested


def _is_meta(name: str) -> bool:
    return name == "__" or (len(name) >= 2 and name[0] == "_" and name[1].isupper())


@lru_cache(maxsize=512)
def _parse(pat: str, mode: str):
    t = ast.parse(pat.strip(), mode="eval" if mode == "e" else "exec")
    return t.body if mode == "e" else (t.body[0] if len(t.body) == 1 else t.body)


def match(pat: str | ast.AST, node: ast.AST, binds: dict | None = None, stmt: bool = False) -> dict | None:
    p = _parse(pat, "s" if stmt else "e") if isinstance(pat, str) else pat
    b = dict(binds or {})
    return b if _m(p, node, b) else None


def _m(p, n, b) -> bool:
    if isinstance(p, ast.Name) and _is_meta(p.id):
        if p.id == "__":
            return True
        if p.id in b:
            return isinstance(n, ast.AST) and ast.dump(b[p.id]) == ast.dump(n)
        if not isinstance(n, ast.AST):
            return False
        b[p.id] = n
        return True
    if isinstance(p, ast.Expr) and isinstance(n, ast.Expr):
        return _m(p.value, n.value, b)
    if type(p) is not type(n):
        return False
    for (f, pv), (_f, nv) in zip(ast.iter_fields(p), ast.iter_fields(n)):
        if f in ("ctx", "lineno", "col_offset", "end_lineno", "end_col_offset", "type_comment", "kind"):
            continue
        if isinstance(pv, list):
            if not isinstance(nv, list) or len(pv) != len(nv):
                return False
            for x, y in zip(pv, nv):
                if isinstance(x, ast.AST):
                    if not _m(x, y, b):
                        return False
                elif x != y:
                    return False
        elif isinstance(pv, ast.AST):
            if not isinstance(nv, ast.AST) or not _m(pv, nv, b):
                return False
        elif pv != nv:
            return False
    return True


def find(pat: str, root: ast.AST, nested: bool = True, stmt: bool = False):
    """all (node, bindings) under root matching the pattern"""
    it = ast.walk(root) if nested else walk_no_nested(root)
    out = []
    for n in it:
        b = match(pat, n, stmt=stmt)
        if b is not None:
            out.append((n, b))
    return out


# ------------------------------------------------------------------------------------------------ values

def assignments(fn: ast.AST) -> dict[str, list[ast.AST]]:
    """name -> every value expression assigned to it in the function (plain and annotated assignments)"""
    out: dict[str, list[ast.AST]] = {}
    for a in walk_no_nested(fn):
        if isinstance(a, ast.Assign):
            for t in a.targets:
                if isinstance(t, ast.Name):
                    out.setdefault(t.id, []).append(a.value)
                elif isinstance(t, (ast.Tuple, ast.List)):
                    for e in t.elts:
                        if isinstance(e, ast.Name):
                            out.setdefault(e.id, []).append(ast.Constant(value="<unpacked>"))
        elif isinstance(a, ast.AnnAssign) and isinstance(a.target, ast.Name) and a.value is not None:
            out.setdefault(a.target.id, []).append(a.value)
        elif isinstance(a, ast.AugAssign) and isinstance(a.target, ast.Name):
            out.setdefault(a.target.id, []).append(ast.Constant(value="<augmented>"))
        elif isinstance(a, (ast.For, ast.comprehension)):
            for e in ast.walk(a.target):
                if isinstance(e, ast.Name):
                    out.setdefault(e.id, []).append(ast.Constant(value="<loop>"))
        elif isinstance(a, ast.NamedExpr):
            out.setdefault(a.target.id, []).append(a.value)
        elif isinstance(a, ast.withitem) and a.optional_vars is not None:
            for e in ast.walk(a.optional_vars):
                if isinstance(e, ast.Name):
                    out.setdefault(e.id, []).append(ast.Constant(value="<with>"))
    return out


_MUTATORS = {"append", "extend", "add", "update", "sort", "insert", "pop", "remove", "clear", "setdefault", "discard", "reverse", "popitem"}


def mutated(fn: ast.AST) -> set[str]:
    """local names whose object is mutated in place somewhere in the function (method mutators, item/attribute
    stores, deletion, augmented assignment): their defining expression does not describe their value"""
    cached = getattr(fn, "_mutated_names", None)
    if cached is not None:
        return cached
    out = set()
    for n in ast.walk(fn):
        if isinstance(n, ast.Call) and isinstance(n.func, ast.Attribute) and n.func.attr in _MUTATORS and isinstance(n.func.value, ast.Name):
            out.add(n.func.value.id)
        elif isinstance(n, (ast.Subscript, ast.Attribute)) and isinstance(n.ctx, (ast.Store, ast.Del)) and isinstance(n.value, ast.Name):
            out.add(n.value.id)
        elif isinstance(n, ast.AugAssign) and isinstance(n.target, ast.Name):
            out.add(n.target.id)
    try:
        fn._mutated_names = out  # type: ignore[attr-defined]
    except Exception:
        pass
    return out


def resolve(e: ast.AST, fn: ast.AST, depth: int = 6, _asg=None) -> ast.AST:
    """see through single-assignment temporaries: a Name bound exactly once in the function (and not a
    parameter) is replaced by its defining expression, recursively"""
    asg = _asg if _asg is not None else assignments(fn)
    mut = mutated(fn)
    params = set()
    if isinstance(fn, (ast.FunctionDef, ast.AsyncFunctionDef)):
        a = fn.args
        params = {x.arg for x in list(a.posonlyargs) + list(a.args) + list(a.kwonlyargs)}

    class R(ast.NodeTransformer):
        def __init__(self, d):
            self.d = d

        def visit_Name(self, n):
            if isinstance(n.ctx, ast.Load) and n.id not in params and n.id not in mut and len(asg.get(n.id, [])) == 1 and self.d > 0:
                v = asg[n.id][0]
                if isinstance(v, ast.Constant) and isinstance(v.value, str) and v.value.startswith("<"):
                    return n
                import copy
                return R(self.d - 1).visit(copy.deepcopy(v))
            return n
    import copy
    return R(depth).visit(copy.deepcopy(e))


def strip_wrappers(e: ast.AST, names=("list", "tuple", "set", "frozenset", "sorted", "iter", "reversed")) -> ast.AST:
    """peel order/container conversions that do not change the multiset of elements"""
    while isinstance(e, ast.Call) and isinstance(e.func, ast.Name) and e.func.id in names and e.args:
        e = e.args[0]
    return e


def guards(node: ast.AST, fn: ast.AST) -> list[tuple[ast.AST, bool]]:
    """conditions that hold whenever `node` executes, as (test, polarity): enclosing if/while tests and the
    negations of earlier sibling guards that leave the block (`if c: continue/return/break/raise`)"""
    out: list[tuple[ast.AST, bool]] = []
    child = node
    p = getattr(node, "_parent", None)
    while p is not None and child is not fn:
        for fld in ("body", "orelse", "finalbody"):
            blk = getattr(p, fld, None)
            if isinstance(blk, list) and any(x is child for x in blk):
                idx = next(i for i, x in enumerate(blk) if x is child)
                for s in blk[:idx]:
                    if isinstance(s, ast.If) and not s.orelse and s.body and isinstance(s.body[-1], (ast.Continue, ast.Return, ast.Break, ast.Raise)):
                        out.append((s.test, False))
                    elif isinstance(s, ast.If) and s.orelse and s.body and isinstance(s.body[-1], (ast.Continue, ast.Return, ast.Break, ast.Raise)) \
                            and not isinstance(s.orelse[-1], (ast.Continue, ast.Return, ast.Break, ast.Raise)):
                        out.append((s.test, False))
                if isinstance(p, (ast.If, ast.While)):
                    if fld == "body":
                        out.append((p.test, True))
                    elif fld == "orelse" and isinstance(p, ast.If):
                        out.append((p.test, False))
        if isinstance(p, ast.IfExp):
            if child is p.body:
                out.append((p.test, True))
            elif child is p.orelse:
                out.append((p.test, False))
        if isinstance(p, ast.BoolOp) and isinstance(p.op, ast.And):
            idx = next((i for i, x in enumerate(p.values) if x is child), 0)
            for v in p.values[:idx]:
                out.append((v, True))
        child = p
        p = getattr(p, "_parent", None)
    return out


def guard_atoms(gs: list[tuple[ast.AST, bool]], fn: ast.AST | None = None) -> set[str]:
    """flatten guards into literal strings: conjunctions split, negations pushed inwards (De Morgan), temporaries
    resolved; `not x` is rendered '!x'"""
    out: set[str] = set()
    asg = assignments(fn) if fn is not None else None

    def add(e, pol):
        if fn is not None and isinstance(e, ast.Name):
            e2 = resolve(e, fn, _asg=asg)
            if not isinstance(e2, ast.Name):
                e = e2
        if isinstance(e, ast.UnaryOp) and isinstance(e.op, ast.Not):
            add(e.operand, not pol)
            return
        if isinstance(e, ast.BoolOp):
            if isinstance(e.op, ast.And) and pol:
                for v in e.values:
                    add(v, True)
                return
            if isinstance(e.op, ast.Or) and not pol:
                for v in e.values:
                    add(v, False)
                return
        if isinstance(e, ast.Compare) and len(e.ops) == 1 and not pol:
            neg = {ast.Eq: ast.NotEq, ast.NotEq: ast.Eq, ast.Lt: ast.GtE, ast.GtE: ast.Lt, ast.Gt: ast.LtE, ast.LtE: ast.Gt,
                   ast.In: ast.NotIn, ast.NotIn: ast.In, ast.Is: ast.IsNot, ast.IsNot: ast.Is}
            t = neg.get(type(e.ops[0]))
            if t is not None:
                e = ast.Compare(left=e.left, ops=[t()], comparators=e.comparators)
                pol = True
        out.add(("" if pol else "!") + unparse(e))
    for e, pol in gs:
        add(e, pol)
    return out


def alternatives(e: ast.AST, fn: ast.AST, limit: int = 16) -> list[ast.AST]:
    """every expression `e` may stand for when local temporaries are expanded: a name assigned once is replaced by
    its value, a name assigned several times (if/else arms) yields one alternative per assignment"""
    import copy
    asg = assignments(fn)
    mut = mutated(fn)
    params = set()
    if isinstance(fn, (ast.FunctionDef, ast.AsyncFunctionDef)):
        a = fn.args
        params = {x.arg for x in list(a.posonlyargs) + list(a.args) + list(a.kwonlyargs)}

    def expand(x: ast.AST, depth: int) -> list[ast.AST]:
        if depth <= 0:
            return [x]
        names = [n for n in ast.walk(x) if isinstance(n, ast.Name) and isinstance(n.ctx, ast.Load) and n.id not in params and n.id not in mut
                 and asg.get(n.id) and not any(isinstance(v, ast.Constant) and isinstance(v.value, str) and v.value.startswith("<") for v in asg[n.id])]
        if not names:
            return [x]
        first = names[0].id
        out = []
        for v in asg[first]:
            if any(isinstance(n, ast.Name) and n.id == first for n in ast.walk(v)):
                out.append(x)           # self-referential update: keep
                continue

            class S(ast.NodeTransformer):
                def visit_Name(self, n):
                    if isinstance(n.ctx, ast.Load) and n.id == first:
                        return copy.deepcopy(v)
                    return n
            out.extend(expand(S().visit(copy.deepcopy(x)), depth - 1))
            if len(out) > limit:
                break
        return out[:limit]
    return expand(copy.deepcopy(e), 6)


def leaves(e: ast.AST) -> list[str]:
    """attribute chains / names / constants an expression is built from (call arguments included)"""
    out = []

    def rec(n):
        if isinstance(n, ast.Attribute):
            base = n
            while isinstance(base, ast.Attribute):
                base = base.value
            if isinstance(base, ast.Name):
                out.append(unparse(n))
                return
        if isinstance(n, ast.Name):
            out.append(n.id)
            return
        if isinstance(n, ast.Constant):
            out.append(repr(n.value))
            return
        for c in ast.iter_child_nodes(n):
            rec(c)
    rec(e)
    return out
