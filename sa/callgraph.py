"""Call resolution and call graph (over-approximating: class-hierarchy analysis by method
name when the receiver cannot be typed)."""
from __future__ import annotations

import ast
import re
from typing import Iterable

from .pm import PM, FuncInfo, dotted, unparse, walk_no_nested

# untyped parameters of the repo, confirmed by reading (DESIGN.md appendix D)
DUCK = {
    "document": "RTFDocument", "page": "PageContext", "context": "PaginationContext",
    "rtf_attrs": "TableAttributes", "page_attrs": "TableAttributes", "processed_attrs": "TableAttributes",
    "rtf_body_attrs": "RTFBody", "base_attrs": "TableAttributes", "page_config": "RTFPage",
    "header_config": "RTFPageHeader", "footer_config": "RTFPageFooter", "title_config": "RTFTitle",
    "subline_config": "RTFSubline", "footnote_config": "RTFFootnote", "source_config": "RTFSource",
    "rtf_figure": "RTFFigure", "rtf_body": "RTFBody", "temp_document": "RTFDocument",
}

BUILTIN_METHODS = {
    "append", "extend", "join", "get", "items", "keys", "values", "update", "copy", "replace", "strip",
    "lower", "upper", "startswith", "endswith", "split", "format", "index", "sort", "add", "pop", "insert",
    "remove", "clear", "setdefault", "capitalize", "hex", "read", "write", "readlines", "writelines",
    "mkdir", "exists", "expanduser", "write_text", "read_text", "with_name", "is_dir", "model_copy",
    "clone", "slice", "select", "filter", "with_columns", "row", "rows", "to_dicts", "to_list", "shift",
    "alias", "then", "otherwise", "when", "unique", "min", "max", "cast", "fill_null", "is_empty",
    "get_column", "lit", "col", "int_range", "concat_str", "null_count", "sub", "findall", "group",
    "compile", "count", "find", "encode", "decode", "isdigit", "lstrip", "rstrip", "title", "move",
    "which", "run", "unpack", "getlength", "truetype", "files", "guess_type", "tolist", "to_native",
    "from_native", "iloc_", "discard", "is_null", "ne_missing", "eq_missing", "over", "sum", "len",
}


class CallGraph:
    def __init__(self, pm: PM):
        self.pm = pm
        self._self_attr_types: dict[str, dict[str, str]] = {}
        self.edges: dict[str, set[str]] = {}
        self.sites: dict[str, list[tuple[ast.Call, list[FuncInfo]]]] = {}
        self.by_name: dict[str, list[FuncInfo]] = {}
        self.imprecise: set[int] = set()   # id(call) resolved only by method name (CHA)
        for fi in pm.funcs.values():
            self.by_name.setdefault(fi.name, []).append(fi)
        for cname in pm.classes:
            self._self_attr_types[cname] = self._scan_init(cname)
        for key, fi in pm.funcs.items():
            self._scan(fi)

    # ---- typing helpers -------------------------------------------------------
    def _scan_init(self, cname: str) -> dict[str, str]:
        out: dict[str, str] = {}
        for c in reversed(self.pm.mro(cname)):
            ci = self.pm.classes.get(c)
            if not ci or "__init__" not in ci.methods:
                continue
            for n in ast.walk(ci.methods["__init__"].node):
                if isinstance(n, ast.Assign) and len(n.targets) == 1 and isinstance(n.targets[0], ast.Attribute) \
                        and isinstance(n.targets[0].value, ast.Name) and n.targets[0].value.id == "self" \
                        and isinstance(n.value, ast.Call):
                    cn = dotted(n.value.func).split(".")[-1]
                    if cn in self.pm.classes:
                        out[n.targets[0].attr] = cn
        return out

    def local_types(self, fi: FuncInfo) -> dict[str, str]:
        """name -> class for parameters (annotation / duck table) and locals bound to constructors."""
        out: dict[str, str] = {}
        node = fi.node
        args = node.args
        for a in list(args.posonlyargs) + list(args.args) + list(args.kwonlyargs):
            if a.annotation is not None:
                cs = [t for t in re.findall(r"[A-Za-z_][A-Za-z_0-9]*", unparse(a.annotation)) if t in self.pm.classes]
                if cs:
                    out[a.arg] = cs[0]
                    continue
            if a.arg in DUCK:
                out[a.arg] = DUCK[a.arg]
        for n in walk_no_nested(node):
            if isinstance(n, ast.Assign) and len(n.targets) == 1 and isinstance(n.targets[0], ast.Name):
                v = n.value
                if isinstance(v, ast.Call):
                    cn = dotted(v.func).split(".")[-1]
                    if cn in self.pm.classes:
                        out[n.targets[0].id] = cn
                    elif cn in ("deepcopy", "copy") and v.args and isinstance(v.args[0], ast.Name) and v.args[0].id in out:
                        out[n.targets[0].id] = out[v.args[0].id]
                    elif cn == "model_copy" and isinstance(v.func, ast.Attribute):
                        t = self.expr_class(fi, v.func.value, out)
                        if t:
                            out[n.targets[0].id] = t
        # loop variables: element class of the iterated expression
        for _ in range(2):
            for n in walk_no_nested(node):
                if isinstance(n, (ast.For, ast.comprehension)):
                    self._bind_loop(fi, n.target, n.iter, out)
        return out

    DUCK_ELEMS = {"pages": "PageContext", "bodies": "RTFBody", "headers": "RTFColumnHeader",
                  "headers_to_process": "RTFColumnHeader", "section_headers": "RTFColumnHeader"}

    def _elem_class(self, fi: FuncInfo, it: ast.AST, out: dict[str, str]) -> str | None:
        if isinstance(it, ast.Name):
            if it.id in self.DUCK_ELEMS:
                return self.DUCK_ELEMS[it.id]
        if isinstance(it, (ast.List, ast.Tuple)) and it.elts:
            return self.expr_class(fi, it.elts[0], out)
        if isinstance(it, ast.Attribute):
            base = self.expr_class(fi, it.value, out)
            if base:
                ann = self.pm.field_ann(base, it.attr)
                if ann:
                    cs = [t for t in re.findall(r"[A-Za-z_][A-Za-z_0-9]*", ann) if t in self.pm.classes]
                    if cs:
                        return cs[0]
        if isinstance(it, ast.Call) and dotted(it.func) in ("enumerate", "reversed", "sorted", "list"):
            return self._elem_class(fi, it.args[0], out) if it.args else None
        return None

    def _bind_loop(self, fi: FuncInfo, target: ast.AST, it: ast.AST, out: dict[str, str]) -> None:
        if isinstance(it, ast.Call) and dotted(it.func) == "zip" and isinstance(target, (ast.Tuple, ast.List)):
            for t, a in zip(target.elts, it.args):
                self._bind_loop(fi, t, a, out)
            return
        if isinstance(it, ast.Call) and dotted(it.func) == "enumerate" and isinstance(target, (ast.Tuple, ast.List)) and len(target.elts) == 2:
            inner = it.args[0] if it.args else None
            if inner is not None:
                self._bind_loop(fi, target.elts[1], inner, out)
            return
        if isinstance(target, ast.Name) and target.id not in out:
            c = self._elem_class(fi, it, out)
            if c:
                out[target.id] = c

    def expr_class(self, fi: FuncInfo, e: ast.AST, local: dict[str, str] | None = None) -> str | None:
        local = local if local is not None else self.local_types(fi)
        if isinstance(e, ast.Name):
            if e.id == "self" and fi.cls:
                return fi.cls
            if e.id == "cls" and fi.cls:
                return fi.cls
            if e.id in local:
                return local[e.id]
            r = self.pm.resolve(fi.module, e.id)
            if r and r[0] == "class":
                return r[1].name
            if r and r[0] == "value":
                mi, expr = r[1]
                if isinstance(expr, ast.Call):
                    cn = dotted(expr.func).split(".")[-1]
                    if cn in self.pm.classes:
                        return cn
            return None
        if isinstance(e, ast.Attribute):
            base = self.expr_class(fi, e.value, local)
            if base:
                if isinstance(e.value, ast.Name) and e.value.id == "self" and e.attr in self._self_attr_types.get(base, {}):
                    return self._self_attr_types[base][e.attr]
                ann = self.pm.field_ann(base, e.attr)
                if ann:
                    cs = [t for t in re.findall(r"[A-Za-z_][A-Za-z_0-9]*", ann) if t in self.pm.classes]
                    if cs:
                        return cs[0]
                if e.attr in self._self_attr_types.get(base, {}):
                    return self._self_attr_types[base][e.attr]
            return None
        if isinstance(e, ast.Call):
            cn = dotted(e.func).split(".")[-1]
            if cn in self.pm.classes:
                return cn
        return None

    # ---- resolution -------------------------------------------------------------
    def resolve_call(self, fi: FuncInfo, call: ast.Call, local: dict[str, str] | None = None) -> list[FuncInfo]:
        f = call.func
        pm = self.pm
        if isinstance(f, ast.Name):
            # nested function of the enclosing function(s)
            p = fi
            while p is not None:
                key = f"{p.short}.<locals>.{f.id}"
                if key in pm.funcs:
                    return [pm.funcs[key]]
                p = p.parent
            r = pm.resolve(fi.module, f.id)
            if r:
                if r[0] == "func":
                    return [r[1]]
                if r[0] == "class":
                    return self._ctor(r[1].name)
            return []
        if isinstance(f, ast.Attribute):
            m = f.attr
            if isinstance(f.value, ast.Call) and isinstance(f.value.func, ast.Name) and f.value.func.id == "super":
                if fi.cls:
                    for c in pm.mro(fi.cls)[1:]:
                        ci = pm.classes.get(c)
                        if ci and m in ci.methods:
                            return [ci.methods[m]]
                return []
            cls = self.expr_class(fi, f.value, local)
            if cls:
                got = pm.find_method(cls, m)
                out = [got] if got else []
                # dynamic dispatch: overriding definitions in subclasses
                for sc in pm.subclasses(cls):
                    ci = pm.classes[sc]
                    if m in ci.methods and ci.methods[m] not in out:
                        out.append(ci.methods[m])
                if not out and m in pm.classes.get(cls, None).__dict__.get("methods", {}):
                    pass
                if out:
                    return out
                nested = f"{cls}.{m}"
                if nested in pm.classes:
                    return self._ctor(nested)
                return []
            # module attribute (import module as x; x.f())
            if isinstance(f.value, ast.Name):
                r = pm.resolve(fi.module, f.value.id)
                if r and r[0] == "module":
                    r2 = pm.resolve(r[1].name, m)
                    if r2 and r2[0] == "func":
                        return [r2[1]]
                    if r2 and r2[0] == "class":
                        return self._ctor(r2[1].name)
                    return []
                if r and r[0] == "ext":
                    return []
            if m in BUILTIN_METHODS and not any(x.cls for x in self.by_name.get(m, [])):
                return []
            # CHA by method name
            self.imprecise.add(id(call))
            return [x for x in self.by_name.get(m, []) if x.cls]
        return []

    def _ctor(self, cname: str) -> list[FuncInfo]:
        out = []
        init = self.pm.find_method(cname, "__init__")
        if init:
            out.append(init)
        new = self.pm.find_method(cname, "__new__")
        if new:
            out.append(new)
        post = self.pm.find_method(cname, "__post_init__") or self.pm.find_method(cname, "model_post_init")
        if post:
            out.append(post)
        # pydantic validators run at construction
        for c in self.pm.mro(cname):
            ci = self.pm.classes.get(c)
            if not ci:
                continue
            for fi in ci.methods.values():
                if fi.validator_fields() or fi.model_validator_mode():
                    out.append(fi)
        return out

    def _scan(self, fi: FuncInfo) -> None:
        local = self.local_types(fi)
        sites = []
        tg: set[str] = set()
        for n in walk_no_nested(fi.node):
            if isinstance(n, ast.Call):
                cands = self.resolve_call(fi, n, local)
                sites.append((n, cands))
                for c in cands:
                    tg.add(c.short)
            elif isinstance(n, ast.Lambda):
                for sub in ast.walk(n.body):
                    if isinstance(sub, ast.Call):
                        cands = self.resolve_call(fi, sub, local)
                        sites.append((sub, cands))
                        for c in cands:
                            tg.add(c.short)
        # nested function definitions are reachable from their parent
        for key, other in self.pm.funcs.items():
            if other.parent is fi:
                tg.add(other.short)
        self.edges[fi.short] = tg
        self.sites[fi.short] = sorted(sites, key=lambda s: (s[0].lineno, s[0].col_offset))

    def reachable(self, roots: Iterable[str]) -> set[str]:
        seen: set[str] = set()
        stack = [r for r in roots]
        while stack:
            x = stack.pop()
            if x in seen:
                continue
            seen.add(x)
            stack.extend(self.edges.get(x, ()))
        return seen

    def callers_of(self, short: str) -> list[tuple[FuncInfo, ast.Call]]:
        out = []
        for caller, sites in self.sites.items():
            for call, cands in sites:
                if any(c.short == short for c in cands):
                    out.append((self.pm.funcs[caller] if caller in self.pm.funcs else None, call))
        return [(a, b) for a, b in out if a is not None]
