"""Name recovery (alpha-conversion) for local variables.

Many rules identify a construct by the local names the repository uses (`prev_row`, `page_attrs`,
`current_rows` ...).  A behaviour-preserving rename of such a local must not change a verdict.  Before
the rules run, every function of the analysed tree is aligned with the same-named function of a
*reference copy* of the package (sa/reference/, the tree the rules were written against): statements are
aligned by their name-blind shape (difflib), aligned statements are walked in parallel, and every local
of the analysed function that corresponds consistently and injectively to a local of the reference is
renamed to the reference's name, in place, in the parsed tree.

This is alpha-conversion only: nothing but local variable names changes, the reference is never used to
decide a verdict, and a local that cannot be mapped consistently keeps its name (the rules then behave
as they would without this step).
"""
from __future__ import annotations

import ast
import difflib
import pathlib

REF_ROOT = pathlib.Path(__file__).resolve().parent / "reference"


def _params(fn) -> set[str]:
    out = set()
    for sub in ast.walk(fn):
        if isinstance(sub, (ast.FunctionDef, ast.AsyncFunctionDef, ast.Lambda)):
            a = sub.args
            out |= {x.arg for x in list(a.posonlyargs) + list(a.args) + list(a.kwonlyargs)}
            if a.vararg:
                out.add(a.vararg.arg)
            if a.kwarg:
                out.add(a.kwarg.arg)
        if isinstance(sub, (ast.Global, ast.Nonlocal)):
            out |= set(sub.names)
        if isinstance(sub, (ast.FunctionDef, ast.AsyncFunctionDef)) and sub is not fn:
            out.add(sub.name)
        if isinstance(sub, (ast.Import, ast.ImportFrom)):
            for al in sub.names:
                out.add((al.asname or al.name).split(".")[0])
    return out


def locals_of(fn) -> set[str]:
    return {n.id for n in ast.walk(fn) if isinstance(n, ast.Name) and isinstance(n.ctx, ast.Store)} - _params(fn)


def _simple_statements(fn) -> list[ast.AST]:
    """statements and compound-statement headers in source order"""
    out = []

    def rec(body):
        for s in body:
            out.append(s)
            for fld in ("body", "orelse", "finalbody"):
                b = getattr(s, fld, None)
                if isinstance(b, list) and b and isinstance(b[0], ast.stmt):
                    rec(b)
            if isinstance(s, ast.Try):
                for h in s.handlers:
                    rec(h.body)
    rec(fn.body)
    return out


def _header(s: ast.AST) -> ast.AST:
    """the part of a statement that is its own (not nested statement bodies)"""
    if isinstance(s, (ast.If, ast.While)):
        return s.test
    if isinstance(s, (ast.For, ast.AsyncFor)):
        return ast.Tuple(elts=[s.target, s.iter], ctx=ast.Load())
    if isinstance(s, (ast.With, ast.AsyncWith)):
        return ast.Tuple(elts=[i.context_expr for i in s.items] + [i.optional_vars for i in s.items if i.optional_vars is not None], ctx=ast.Load())
    if isinstance(s, ast.Try):
        return ast.Constant(value="try")
    if isinstance(s, (ast.FunctionDef, ast.AsyncFunctionDef)):
        return ast.Constant(value="def " + s.name)
    return s


def _shape(node: ast.AST, loc: set[str]) -> str:
    parts = []
    for n in ast.walk(node):
        if isinstance(n, ast.Name):
            parts.append("_" if n.id in loc else n.id)
        elif isinstance(n, ast.Attribute):
            parts.append("." + n.attr)
        elif isinstance(n, ast.Constant):
            parts.append(repr(n.value)[:20])
        elif isinstance(n, ast.keyword):
            parts.append((n.arg or "**") + "=")
        else:
            parts.append(type(n).__name__)
    return " ".join(parts)


def _pairs(a: ast.AST, b: ast.AST):
    """parallel walk of two trees of the same shape yielding (Name, Name) pairs"""
    if type(a) is not type(b):
        return
    if isinstance(a, ast.Name):
        yield a, b
        return
    for (fa, va), (fb, vb) in zip(ast.iter_fields(a), ast.iter_fields(b)):
        if isinstance(va, ast.AST) and isinstance(vb, ast.AST):
            yield from _pairs(va, vb)
        elif isinstance(va, list) and isinstance(vb, list) and len(va) == len(vb):
            for x, y in zip(va, vb):
                if isinstance(x, ast.AST) and isinstance(y, ast.AST):
                    yield from _pairs(x, y)


def mapping(cur_fn, ref_fn) -> dict[str, str]:
    lc, lr = locals_of(cur_fn), locals_of(ref_fn)
    if not lc or not lr:
        return {}
    sc, sr = _simple_statements(cur_fn), _simple_statements(ref_fn)
    hc, hr = [_header(s) for s in sc], [_header(s) for s in sr]
    kc, kr = [_shape(h, lc) for h in hc], [_shape(h, lr) for h in hr]
    sm = difflib.SequenceMatcher(a=kc, b=kr, autojunk=False)
    votes: dict[str, dict[str, int]] = {}
    for blk in sm.get_matching_blocks():
        for k in range(blk.size):
            for x, y in _pairs(hc[blk.a + k], hr[blk.b + k]):
                if x.id in lc and y.id in lr:
                    votes.setdefault(x.id, {}).setdefault(y.id, 0)
                    votes[x.id][y.id] += 1
    out: dict[str, str] = {}
    merged_with_self: set[str] = set()
    groups: dict[str, list[str]] = {}
    for cur, cand in votes.items():
        if len(cand) != 1:
            continue                      # inconsistent: keep the name
        groups.setdefault(next(iter(cand)), []).append(cur)
    for ref, curs in groups.items():
        if len(curs) == 1:
            out[curs[0]] = ref
            continue
        # several current locals correspond to one reference local (typically the locals of two inlined copies of
        # a helper): merging them is sound when their occurrence ranges are disjoint and each range starts with a
        # definition (then no value flows from one range into the next)
        ranges = []
        deferred = set()
        for h in hc:
            for d in ast.walk(h):
                if isinstance(d, (ast.GeneratorExp, ast.Lambda, ast.FunctionDef, ast.AsyncFunctionDef)):
                    deferred |= {n.id for n in ast.walk(d) if isinstance(n, ast.Name)}
        if any(c in deferred for c in curs):
            continue                      # a deferred read (generator / lambda / closure) makes occurrence ranges meaningless
        for c in curs:
            occ = [(i, n) for i, h in enumerate(hc) for n in ast.walk(h) if isinstance(n, ast.Name) and n.id == c]
            if not occ or not isinstance(occ[0][1].ctx, ast.Store) and not _first_is_store(hc[occ[0][0]], c):
                ranges = None
                break
            ranges.append((occ[0][0], occ[-1][0]))
        if ranges is None:
            continue
        ranges.sort()
        if all(ranges[i][1] < ranges[i + 1][0] for i in range(len(ranges) - 1)):
            for c in curs:
                out[c] = ref
            if ref in curs:
                merged_with_self.add(ref)     # the reference name itself is one of the (disjoint) ranges
    # never rename onto a name that is live in the function under a different role
    params_c = _params(cur_fn)
    used = {n.id for n in ast.walk(cur_fn) if isinstance(n, ast.Name)}
    safe = {cur: ref for cur, ref in out.items() if cur != ref and ref not in params_c}
    # capture avoidance, to a fixed point: a target name that is used in this function must itself be
    # renamed away by the (simultaneous) substitution, otherwise two distinct variables would be merged
    while True:
        bad = [cur for cur, ref in safe.items() if ref in used and ref not in safe and ref not in merged_with_self]
        if not bad:
            break
        for cur in bad:
            del safe[cur]
    return safe


def _first_is_store(header, name) -> bool:
    """in this statement header, is `name` written (loop target / assignment target) and not read before that?
    (for `for x in f(y)` and `x = e` the only occurrence is the target)"""
    loads = [n for n in ast.walk(header) if isinstance(n, ast.Name) and n.id == name and isinstance(n.ctx, ast.Load)]
    stores = [n for n in ast.walk(header) if isinstance(n, ast.Name) and n.id == name and isinstance(n.ctx, ast.Store)]
    return bool(stores) and not loads



def visible_names(root: ast.AST):
    """Name nodes under root together with the set of names shadowed at that point by parameters of enclosing nested
    lambdas / function definitions (relative to root): a rename of an outer local must not touch a use that actually
    refers to such a parameter"""
    out = []

    def rec(n, shadow):
        if isinstance(n, (ast.Lambda, ast.FunctionDef, ast.AsyncFunctionDef)) and n is not root:
            a = n.args
            ps = {x.arg for x in list(a.posonlyargs) + list(a.args) + list(a.kwonlyargs)}
            if a.vararg:
                ps.add(a.vararg.arg)
            if a.kwarg:
                ps.add(a.kwarg.arg)
            # defaults are evaluated in the enclosing scope
            for d in list(a.defaults) + [d for d in a.kw_defaults if d is not None]:
                rec(d, shadow)
            inner = shadow | ps
            body = n.body if isinstance(n.body, list) else [n.body]
            for b in body:
                rec(b, inner)
            if not isinstance(n, ast.Lambda):
                for d in n.decorator_list:
                    rec(d, shadow)
            return
        if isinstance(n, ast.Name):
            out.append((n, shadow))
        for c in ast.iter_child_nodes(n):
            rec(c, shadow)
    rec(root, frozenset())
    return out


def rename_scoped(root: ast.AST, m: dict) -> int:
    k = 0
    for n, shadow in visible_names(root):
        if n.id in m and n.id not in shadow:
            n.id = m[n.id]
            k += 1
    return k


def apply(cur_fn, m: dict[str, str]) -> int:
    return rename_scoped(cur_fn, m)


def _param_mapping(cur_fn, ref_fn) -> dict[str, str]:
    """parameters renamed in place: same number of parameters, same kinds, names differ at some positions; the
    reference's name must be free in the analysed function"""
    def plist(fn):
        a = fn.args
        return [x.arg for x in list(a.posonlyargs) + list(a.args)], [x.arg for x in a.kwonlyargs], (a.vararg.arg if a.vararg else None), (a.kwarg.arg if a.kwarg else None)
    cp, ck, cv, cw = plist(cur_fn)
    rp, rk, rv, rw = plist(ref_fn)
    if len(cp) != len(rp) or len(ck) != len(rk) or (cv is None) != (rv is None) or (cw is None) != (rw is None):
        return {}
    pairs = list(zip(cp, rp)) + list(zip(ck, rk))
    m = {c: r for c, r in pairs if c != r and c not in ("self", "cls") and r not in ("self", "cls")}
    if not m:
        return {}
    # a rename, not a reordering: no reference name may also be a current parameter elsewhere, and it must be unused
    used = {n.id for n in ast.walk(cur_fn) if isinstance(n, ast.Name)} | set(cp) | set(ck)
    if any(r in used for r in m.values()) or len(set(m.values())) != len(m):
        return {}
    # defaults must agree (a renamed AND re-defaulted parameter is something else)
    if [ast.dump(d) for d in cur_fn.args.defaults] != [ast.dump(d) for d in ref_fn.args.defaults]:
        return {}
    return m


def _index(tree: ast.Module) -> dict[str, ast.AST]:
    out = {}

    def rec(node, prefix):
        for c in ast.iter_child_nodes(node):
            if isinstance(c, ast.ClassDef):
                rec(c, prefix + c.name + ".")
            elif isinstance(c, (ast.FunctionDef, ast.AsyncFunctionDef)):
                out[prefix + c.name] = c
    rec(tree, "")
    return out


def normalise(modules: dict, pkg: str = "rtflite") -> dict:
    """modules: dotted name -> ModuleInfo (with .tree, .path).  Renames locals in place; returns a report."""
    report = {"functions": 0, "renamed_functions": 0, "renamed_names": 0}
    if not REF_ROOT.is_dir():
        return report
    param_renames: list[tuple[str, dict[str, str]]] = []
    for name, mi in modules.items():
        rel = pathlib.Path(mi.path)
        try:
            relp = rel.relative_to(pathlib.Path("src") / pkg)
        except ValueError:
            continue
        ref_file = REF_ROOT / pkg / relp
        if not ref_file.exists():
            continue
        try:
            ref_tree = ast.parse(ref_file.read_text(encoding="utf-8"))
        except SyntaxError:
            continue
        cur_idx, ref_idx = _index(mi.tree), _index(ref_tree)
        for q, fn in cur_idx.items():
            report["functions"] += 1
            rf = ref_idx.get(q)
            if rf is None:
                continue
            pm_ = _param_mapping(fn, rf)
            if pm_:
                report["renamed_params"] = report.get("renamed_params", 0) + len(pm_)
                for node in ast.walk(fn):
                    if isinstance(node, ast.Name) and node.id in pm_:
                        node.id = pm_[node.id]
                    elif isinstance(node, ast.arg) and node.arg in pm_:
                        node.arg = pm_[node.arg]
                param_renames.append((fn.name, pm_))
            m = mapping(fn, rf)
            if m:
                report["renamed_functions"] += 1
                report["renamed_names"] += len(m)
                apply(fn, m)
    if param_renames:
        # keyword arguments at call sites, for functions whose name is defined once in the package
        defs: dict[str, int] = {}
        for mi in modules.values():
            for n in ast.walk(mi.tree):
                if isinstance(n, (ast.FunctionDef, ast.AsyncFunctionDef)):
                    defs[n.name] = defs.get(n.name, 0) + 1
        for fname, pm_ in param_renames:
            if defs.get(fname, 0) != 1:
                continue
            for mi in modules.values():
                for n in ast.walk(mi.tree):
                    if isinstance(n, ast.Call):
                        f = n.func
                        nm = f.attr if isinstance(f, ast.Attribute) else (f.id if isinstance(f, ast.Name) else None)
                        if nm == fname:
                            for k in n.keywords:
                                if k.arg in pm_:
                                    k.arg = pm_[k.arg]
    return report
