"""Thorough tier: discrimination self-test of the rules on scratch copies of src/rtflite.

For a property P:
  * behaviour-preserving variants (whole package re-emitted through ast.unparse: comments dropped,
    layout and quoting normalised; docstrings stripped; every local variable renamed) must give the same verdict as the real tree
    (no new violation, same known findings);
  * every mutant of P's table (one rule instance broken by a text edit that still parses) must make
    the check report a VIOLATION of the expected rule.
A mutant whose anchor text no longer occurs in the tree is skipped and listed; if more than a third
are skipped the self-test itself is out of date (ANALYSIS-ERROR).  Scratch copies live in a fresh
temp directory outside /repo and /verif and are removed afterwards.
"""
from __future__ import annotations

import ast
import importlib
import json
import os
import pathlib
import shutil
import subprocess
import sys
import tempfile
from concurrent.futures import ProcessPoolExecutor

from .pm import AnalysisError

HERE = pathlib.Path(__file__).resolve().parent.parent

# (property, name, relative file, old text, new text, expected rule prefix)
MUTANTS = [
    # ---- C01
    ("C01", "drop closing brace of paragraph template", "row.py", 'f"{formatted_text}}}\\\\par}}"', 'f"{formatted_text}}}\\\\par"', "R01.1"),
    ("C01", "cell contents filtered", "row.py", 'rtf.extend(cell.text._as_rtf(method="cell") for cell in self.row_cells)',
     'rtf.extend(cell.text._as_rtf(method="cell") for cell in self.row_cells if cell.text.text)', "R01.2"),
    ("C01", "float row height formatted into \\trgaph", "row.py", "row_height = int(Utils._inch_to_twip(self.height) / 2)", "row_height = Utils._inch_to_twip(self.height) / 2", "R01.3"),
    ("C01", "text glued to font control word", "row.py", 'f"{self._get_text_formatting()} {formatted_text}}}"', 'f"{self._get_text_formatting()}{formatted_text}}}"', "R01.3"),
    ("C01", "figure document without closing brace", "encoding/unified_encoder.py", 'parts.append("\\n\\n}")', 'parts.append("\\n\\n")', "R01.1"),
    ("C01", "header None guard removed", "encoding/renderer.py", "            if header_rtf:\n                header_elements.extend(header_rtf)", "            header_elements.extend(header_rtf)", "R01.5"),
    ("C01", "size field back to int", "row.py", 'size: float = Field(default=9, description="Font size")', 'size: int = Field(default=9, description="Font size")', "R01.4"),
    ("C01", "footer emptiness guard weakened to a None test", "services/encoding_service.py", "if footer_config is None or not footer_config.text:", "if footer_config is None or footer_config.text is None:", "R01.11"),
    # ---- C02
    ("C02", "cursor advanced by one row less", "encoding/unified_encoder.py", "            current_idx += rows\n", "            current_idx += rows - 1\n", "R02.1"),
    ("C02", "tail segment dropped when single row", "encoding/renderer.py", "if prev_row < len(page_df):", "if prev_row < len(page_df) - 1:", "R02.1"),
    ("C02", "cell read from previous column", "attributes.py", "raw_value = row[j]", "raw_value = row[j - 1]", "R02.4"),
    ("C02", "columns sorted after removal", "services/encoding_service.py", "col for col in processed_df.columns if col not in columns_to_remove\n            ]", "col for col in sorted(processed_df.columns) if col not in columns_to_remove\n            ]", "R02.5"),
    ("C02", "page slice one row short", "pagination/strategies/defaults.py", "page_df = context.df.slice(start_row, end_row - start_row + 1)", "page_df = context.df.slice(start_row, end_row - start_row)", "R04.5"),
    ("C02", "null rendered as None", "attributes.py", 'cell_value = "" if raw_value is None else str(raw_value)', "cell_value = str(raw_value)", "R02.4"),
    # ---- C03
    ("C03", "footnote reservation dropped", "services/document_service.py", "        if document.rtf_footnote and document.rtf_footnote.text:\n            additional_rows += 1\n", "", "R03.1"),
    ("C03", "overflow tolerated by one row", "pagination/core.py", "(current_rows + row_height > available_rows)", "(current_rows + row_height > available_rows + 1)", "R04.1"),
    ("C03", "heading rows not added to row height", "pagination/core.py", "total_rows = max_lines_in_row + pageby_rows + subline_rows", "total_rows = max_lines_in_row + subline_rows", "R04.6"),
    ("C03", "column width taken as cumulative boundary", "pagination/core.py", "col_width = current_cumulative - prev_cumulative", "col_width = current_cumulative", "R03.6"),
    # ---- C04
    ("C04", "overflow guard >= instead of > (breaks one row early)", "pagination/core.py", "(current_rows + row_height > available_rows)", "(current_rows + row_height >= available_rows)", "R04.1"),
    ("C04", "current_rows > 0 guard dropped", "pagination/core.py", ") and current_rows > 0:", ") and True:", "R04.1"),
    ("C04", "subline break skipped", "pagination/core.py", 'if row["is_subline_start"] and i > 0:\n                force_break = True', 'if row["is_subline_start"] and i > 0:\n                force_break = False', "R04.1"),
    ("C04", "new_page ignored by page_by strategy", "pagination/strategies/grouping.py", "            new_page=context.rtf_body.new_page,\n", "            new_page=False,\n", "R04.2"),
    ("C04", "page slice from wrong bound", "pagination/strategies/grouping.py", "            page_df = context.df.slice(start_row, end_row - start_row + 1)\n            display_page_num = int(page_num)\n\n            is_first = display_page_num == 1\n            # Repeating", "            page_df = context.df.slice(start_row + 1, end_row - start_row + 1)\n            display_page_num = int(page_num)\n\n            is_first = display_page_num == 1\n            # Repeating", "R04.5"),
    ("C04", "only first grouping column compared", "pagination/core.py", "                for col in page_by:\n                    if str(prev_row[col]) != str(curr_row[col]):\n                        is_diff = True\n                        break\n                page_by_changes[i] = is_diff", "                col = page_by[0]\n                if str(prev_row[col]) != str(curr_row[col]):\n                    is_diff = True\n                page_by_changes[i] = is_diff", "R04.4"),
    # ---- C05
    ("C05", "heading taken from row after page start", "pagination/strategies/grouping.py", "val = df[col][start_row]", "val = df[col][start_row + 1]", "R05.1"),
    ("C05", "sticky flag reset inside level loop", "encoding/renderer.py", "                        if str(val) != str(last_val) or force_render:\n                            force_render = True", "                        if str(val) != str(last_val) or force_render:\n                            force_render = str(val) != str(last_val)", "R05.4"),
    ("C05", "spanning rows hidden when pageby_row is first_row", "encoding/renderer.py", '                not document.rtf_body.new_page\n                or document.rtf_body.pageby_row != "column"\n            )\n            and "group_values" in page.pageby_header_info', '                not document.rtf_body.new_page\n            )\n            and "group_values" in page.pageby_header_info', "R05.2"),
    ("C05", "divider literal changed at one site", "pagination/strategies/grouping.py", 'if str(val) != "-----":\n                group_values[col] = val', 'if str(val) != "----":\n                group_values[col] = val', "R05.3"),
    ("C05", "subline heading only on first page", "encoding/renderer.py", "        if page.subline_header:", "        if page.subline_header and page.is_first_page:", "R05.6"),
    # ---- C06
    ("C06", "placement 'last' answered with first", "encoding/renderer.py", '        if location == "last":\n            return page.is_last_page', '        if location == "last":\n            return page.is_first_page', "R06.1"),
    ("C06", "footnote placed by page_source", "encoding/renderer.py", "and self._should_show(document.rtf_page.page_footnote, page)", "and self._should_show(document.rtf_page.page_source, page)", "R06.1"),
    ("C06", "needs_header ignores pageby_header", "pagination/strategies/defaults.py", "context.rtf_body.pageby_header or display_page_num == 1", "display_page_num == 1", "R06.3"),
    ("C06", "page break margins in different order", "services/encoding_service.py", '            "\\\\margt",\n            "\\\\margb",', '            "\\\\margb",\n            "\\\\margt",', "R06.4"),
    ("C06", "page break truncates instead of rounding", "services/encoding_service.py", 'f"\\\\paperw{Utils._inch_to_twip(page_config.width)}"', 'f"\\\\paperw{int(page_config.width * 1440)}"', "R06.4"),
    ("C06", "page header emitted per page", "encoding/renderer.py", "        # 2. Title\n", "        page_elements.append(self.encoding_service.encode_page_header(document.rtf_page_header))\n        # 2. Title\n", "R06.5"),
    # ---- C07
    ("C07", "middle pages use page.border_first", "pagination/processor.py", "        if not page.is_first_page and document.rtf_body.border_first:\n            self._apply_body_border_first(\n                document, page_attrs, page_df_width, page_shape\n            )", "        if not page.is_first_page and document.rtf_body.border_first:\n            for col_idx in range(page_df_width):\n                page_attrs = self._apply_border_to_cell(\n                    page_attrs, 0, col_idx, \"top\", document.rtf_page.border_first, page_shape\n                )", "R07.1"),
    ("C07", "bottom edge written to first row", "pagination/processor.py", "                            page_attrs,\n                            page_df_height - 1,\n                            col_idx,\n                            \"bottom\",\n                            border_style,", "                            page_attrs,\n                            0,\n                            col_idx,\n                            \"bottom\",\n                            border_style,", "R07.1"),
    ("C07", "last page uses body.border_last", "pagination/processor.py", "                            \"bottom\",\n                            document.rtf_page.border_last,\n                            page_shape,", "                            \"bottom\",\n                            document.rtf_body.border_last[0][0],\n                            page_shape,", "R07.1"),
    ("C07", "footnote preferred over source as last row", "pagination/processor.py", "        if has_source and source_as_table:\n            target_component = \"source\"\n        elif has_footnote and footnote_as_table:\n            target_component = \"footnote\"", "        if has_footnote and footnote_as_table:\n            target_component = \"footnote\"\n        elif has_source and source_as_table:\n            target_component = \"source\"", "R07.1"),
    ("C07", "per-page attributes not copied", "pagination/processor.py", "page_attrs = deepcopy(base_attrs)", "page_attrs = base_attrs", "R07.4"),
    ("C07", "header top edge on every page", "encoding/renderer.py", "                page.is_first_page\n                and i == 0\n                and document.rtf_page.border_first", "                i == 0\n                and document.rtf_page.border_first", "R07.2"),
    # ---- C08
    ("C08", "spanning row uses a fixed width", "encoding/renderer.py", "page_width=document.rtf_page.col_width or 8.5,\n                    rtf_body_attrs=document.rtf_body,\n                    col_idx=current_col_idx,\n                )\n                page_elements.extend(spanning_row)", "page_width=8.5,\n                    rtf_body_attrs=document.rtf_body,\n                    col_idx=current_col_idx,\n                )\n                page_elements.extend(spanning_row)", "R08.1"),
    ("C08", "boundaries not cumulative", "row.py", "cumulative_sum := cumulative_sum + (width * col_width / total_width)", "cumulative_sum := (width * col_width / total_width)", "R08.4"),
    ("C08", "widths cut with positions in the shrinking frame", "services/encoding_service.py", "original_df.columns.index(col) for col in columns_to_remove", "processed_df.columns.index(col) for col in columns_to_remove if col in processed_df.columns", "R08.3"),
    ("C08", "footnote laid out in page width", "encoding/renderer.py", "                page.page_number,\n                document.rtf_page.col_width,\n                border_style=border_style,\n            )\n            if footnote_content:", "                page.page_number,\n                document.rtf_page.width,\n                border_style=border_style,\n            )\n            if footnote_content:", "R08.1"),
    # ---- C09
    ("C09", "indent_left fed from indent_first", "attributes.py", 'indent_left=get_broadcast_value("text_indent_left", i, j),', 'indent_left=get_broadcast_value("text_indent_first", i, j),', "R09.2"),
    ("C09", "row offset ignored in lookup", "attributes.py", "            return BroadcastValue(value=attr_value, dimension=dim).iloc(\n                row_idx + row_offset, col_idx\n            )", "            return BroadcastValue(value=attr_value, dimension=dim).iloc(\n                row_idx, col_idx\n            )", "R09.3"),
    ("C09", "modular lookup transposed", "attributes.py", "return self.value[row_index % len(self.value)][\n                column_index % len(self.value[0])\n            ]", "return self.value[column_index % len(self.value)][\n                row_index % len(self.value[0])\n            ]", "R09.3"),
    ("C09", "segment encoded with offset 0", "encoding/renderer.py", "                    elements.extend(\n                        page_attrs._encode(segment, col_widths, row_offset=prev_row)\n                    )\n\n                # Spanning Row (Nested)", "                    elements.extend(\n                        page_attrs._encode(segment, col_widths, row_offset=0)\n                    )\n\n                # Spanning Row (Nested)", "R09.4"),
    ("C09", "vertical justification not passed", "attributes.py", '                    vertical_justification=get_broadcast_value(\n                        "cell_vertical_justification", i, j\n                    ),\n', "", "R09.2"),
    # ---- C10
    ("C10", "pass-through widened to Latin-1", "row.py", "if unicode_int < 128:", "if unicode_int < 256:", "R10.1"),
    ("C10", "BMP wrap off by one", "row.py", "rtf_value = unicode_int - (0 if unicode_int < 32768 else 65536)", "rtf_value = unicode_int - (0 if unicode_int <= 32768 else 65536)", "R10.1"),
    ("C10", "two fallback characters for uc1", "row.py", 'converted_text += f"\\\\uc1\\\\u{rtf_value}*"', 'converted_text += f"\\\\uc1\\\\u{rtf_value}**"', "R10.2"),
    ("C10", "low surrogate without wrap", "row.py", "low = 0xDC00 + ((unicode_int - 0x10000) & 0x3FF) - 65536", "low = 0xDC00 + ((unicode_int - 0x10000) & 0x3FF)", "R10.1"),
    ("C10", "subline heading bypasses escaper", "encoding/renderer.py", "        text = TextContent(text=text, convert=False)._convert_special_chars()\n", "", "R10.3"),
    ("C10", "write without encoding", "encode.py", 'target_path.write_text(rtf_code, encoding="utf-8")', "target_path.write_text(rtf_code)", "R10.4"),
    # ---- C11
    ("C11", "replacement output re-translated", "core/constants.py", '"^": "\\\\super ",', '"^": "\\\\super <= ",', "R11.1"),
    ("C11", "regex made non-greedy", "text_conversion/converter.py", 'pattern = r"\\\\[a-zA-Z]+(?:\\{[^}]*\\})?"', 'pattern = r"\\\\[a-zA-Z]+?(?:\\{[^}]*\\})?"', "R11.2"),
    ("C11", "mapping loop not gated", "row.py", "        if self.convert:\n            rtf_chars = RTFConstants.RTF_CHAR_MAPPING", "        if True:\n            rtf_chars = RTFConstants.RTF_CHAR_MAPPING", "R11.4"),
    ("C11", "miss returns empty string", "text_conversion/symbols.py", "return self.latex_to_char.get(latex_command, latex_command)", 'return self.latex_to_char.get(latex_command, "")', "R11.5"),
    ("C11", "title conversion off by default", "input.py", '"text_convert": [True],  # Enable LaTeX conversion for titles', '"text_convert": [False],  # Enable LaTeX conversion for titles', "R11.5"),
    # ---- C12
    ("C12", "index off by one", "services/color_service.py", "return sorted_colors.index(color) + 1", "return sorted_colors.index(color)", "R12.2"),
    ("C12", "table sorted by name, index by master order", "services/color_service.py", "            sorted_colors = sorted(\n                validated_colors, key=lambda x: self._name_to_type[x]\n            )", "            sorted_colors = sorted(validated_colors)", "R12.2"),
    ("C12", "page footer colours not collected", "services/color_service.py", "            document.rtf_page_header,\n            document.rtf_page_footer,\n        ]", "            document.rtf_page_header,\n        ]", "R12.3"),
    ("C12", "context cleared before assembly", "encoding/unified_encoder.py", "            # F. Assembly\n            return", "            color_service.clear_document_context()\n            # F. Assembly\n            return", "R12.1"),
    ("C12", "font reference not shifted", "row.py", 'rtf.append(f"{{\\\\f{int(self.font - 1)}")', 'rtf.append(f"{{\\\\f{int(self.font)}")', "R12.5"),
    # ---- C13
    ("C13", "plain != with shifted column", "services/grouping_service.py", "is_first_occurrence = (df[column].ne_missing(df[column].shift(1))) | (", "is_first_occurrence = (df[column] != df[column].shift(1)) | (", "R13.1"),
    ("C13", "higher levels not considered", "services/grouping_service.py", "            for higher_col in group_by[:i]:", "            for higher_col in group_by[:0]:", "R13.2"),
    ("C13", "page start indices include page 1", "encoding/unified_encoder.py", "                if i > 0:\n                    page_start_indices.append(cumulative)", "                if i >= 0:\n                    page_start_indices.append(cumulative)", "R13.4"),
    ("C13", "validation skipped", "services/grouping_service.py", "        self.validate_data_sorting(df, group_by=group_by)\n\n        # Create a copy", "        # Create a copy", "R13.5"),
    # ---- C14
    ("C14", "finally removed", "encoding/unified_encoder.py", "        finally:\n            color_service.clear_document_context()\n", "        finally:\n            pass\n", "R14.1"),
    ("C14", "footnote modified in place in figure path", "encoding/unified_encoder.py", "            footnote_component = deepcopy(footnote_component)\n", "", "R14.2"),
    ("C14", "header copy removed", "encoding/renderer.py", "            header_copy = deepcopy(header)", "            header_copy = header", "R14.2"),
    ("C14", "timestamp in output", "services/encoding_service.py", '        return "{\\\\rtf1\\\\ansi\\n\\\\deff0\\\\deflang1033"', '        import time\n\n        return "{\\\\rtf1\\\\ansi\\n\\\\deff0\\\\deflang1033" + ("" if time.time() > 0 else " ")', "R14.4"),
    ("C14", "colour list order from a set", "services/color_service.py", "            sorted_colors = sorted(\n                validated_colors, key=lambda x: self._name_to_type[x]\n            )\n\n            # Create dense", "            sorted_colors = list(set(validated_colors))\n\n            # Create dense", "R14.4"),
    # ---- C15
    ("C15", "context back in a singleton attribute", "services/color_service.py", "        _document_colors.set(used_colors)", "        self._ctx = used_colors", "R15.1"),
    ("C15", "class-level page cache in renderer", "encoding/renderer.py", "    def __init__(self):\n        self.encoding_service = RTFEncodingService()\n        self.document_service = RTFDocumentService()\n        self.figure_service = RTFFigureService()\n\n    def render(self, document: Any, page: PageContext) -> list[str]:\n        \"\"\"Render a single page to RTF.\"\"\"\n", "    _last = {}\n\n    def __init__(self):\n        self.encoding_service = RTFEncodingService()\n        self.document_service = RTFDocumentService()\n        self.figure_service = RTFFigureService()\n\n    def render(self, document: Any, page: PageContext) -> list[str]:\n        \"\"\"Render a single page to RTF.\"\"\"\n        self._last[\"page\"] = page.page_number\n", "R15.1"),
    # ---- C16
    ("C16", "odd hex line length", "services/figure_service.py", "line_length = 80", "line_length = 81", "R16.1"),
    ("C16", "hex lines overlap", "services/figure_service.py", "lines.append(hex_string[i : i + line_length])", "lines.append(hex_string[i : i + line_length + 1])", "R16.1"),
    ("C16", "jpeg tagged as png", "services/figure_service.py", '"jpeg": "\\\\jpegblip"', '"jpeg": "\\\\pngblip"', "R16.2"),
    ("C16", "PNG height read from width bytes", "services/figure_service.py", 'height = struct.unpack(">I", data[20:24])[0]', 'height = struct.unpack(">I", data[16:20])[0]', "R16.3"),
    ("C16", "last size not reused", "services/figure_service.py", "return dimension[index] if index < len(dimension) else dimension[-1]", "return dimension[index] if index < len(dimension) else dimension[0]", "R16.5"),
    ("C16", "page break after every figure", "encoding/unified_encoder.py", '            if not is_last:\n                parts.append(r"\\page ")', '            if True:\n                parts.append(r"\\page ")', "R16.5"),
    # ---- C17
    ("C17", "reader skips three lines", "assemble.py", "return last_idx + 2", "return last_idx + 3", "R17.1"),
    ("C17", "figure documents end with the brace on the last text line", "encoding/unified_encoder.py", 'parts.append("\\n\\n}")', 'parts.append("}")', "R17.1"),
    ("C17", "existence check after opening output", "assemble.py", "    if missing_files:\n        raise FileNotFoundError(f\"Missing files: {', '.join(missing_files)}\")\n\n    # Read all files", "    open(output_file, \"w\").close()\n    if missing_files:\n        raise FileNotFoundError(f\"Missing files: {', '.join(missing_files)}\")\n\n    # Read all files", "R17.2"),
    ("C17", "page command after the last input too", "assemble.py", "        if i < len(rtf_contents) - 1:\n            processed_parts.append(new_page_cmd)", "        if i < len(rtf_contents):\n            processed_parts.append(new_page_cmd)", "R17.2"),
    # ---- C18
    ("C18", "target written before encode", "encode.py", "        print(target_path)\n        rtf_code = self.rtf_encode()\n        target_path.write_text(rtf_code, encoding=\"utf-8\")", "        print(target_path)\n        target_path.write_text(\"\", encoding=\"utf-8\")\n        rtf_code = self.rtf_encode()\n        target_path.write_text(rtf_code, encoding=\"utf-8\")", "R18.1"),
    ("C18", "mkdtemp instead of context manager", "encode.py", "            with tempfile.TemporaryDirectory() as convert_tmpdir:\n                converted = converter.convert(\n                    input_files=rtf_path,\n                    output_dir=Path(convert_tmpdir),\n                    format=\"pdf\",", "            convert_tmpdir = tempfile.mkdtemp()\n            if True:\n                converted = converter.convert(\n                    input_files=rtf_path,\n                    output_dir=Path(convert_tmpdir),\n                    format=\"pdf\",", "R18.2"),
    ("C18", "move before the type check", "encode.py", "                if not isinstance(converted, Path):\n                    raise TypeError(\n                        \"LibreOffice conversion returned an unexpected output for a \"\n                        \"single input file; expected `Path`, got object of type \"\n                        f\"{type(converted)!r} with value {converted!r}.\"\n                    )\n                docx_path = converted\n                shutil.move(str(docx_path), target_path)", "                docx_path = converted\n                shutil.move(str(docx_path), target_path)\n                if not isinstance(converted, Path):\n                    raise TypeError(\"unexpected\")", "R18.3"),
    ("C18", "intermediate RTF next to the target", "encode.py", "            rtf_path = Path(tmpdir) / f\"{target_path.stem}.rtf\"\n            rtf_code = self.rtf_encode()\n            rtf_path.write_text(rtf_code, encoding=\"utf-8\")\n\n            with tempfile.TemporaryDirectory() as convert_tmpdir:\n                converted = converter.convert(\n                    input_files=rtf_path,\n                    output_dir=Path(convert_tmpdir),\n                    format=\"html\",", "            rtf_path = target_path.parent / f\"{target_path.stem}.rtf\"\n            rtf_code = self.rtf_encode()\n            rtf_path.write_text(rtf_code, encoding=\"utf-8\")\n\n            with tempfile.TemporaryDirectory() as convert_tmpdir:\n                converted = converter.convert(\n                    input_files=rtf_path,\n                    output_dir=Path(convert_tmpdir),\n                    format=\"html\",", "R18.3"),
    # ---- C19
    ("C19", "orientation not validated", "input.py", '        if v not in ["portrait", "landscape"]:', '        if v not in ["portrait", "landscape", v]:', "R19.1"),
    ("C19", "positivity excludes zero", "input.py", "        if v is not None and v <= 0:", "        if v is not None and v < 0:", "R19.5"),
    ("C19", "TypeError for bad vertical alignment", "attributes.py", '                    raise ValueError(\n                        f"Invalid cell vertical justification: {justification}"\n                    )', '                    raise TypeError(\n                        f"Invalid cell vertical justification: {justification}"\n                    )', "R19.2"),
    ("C19", "nested text_format not validated", "attributes.py", "            for row in v:\n                for format in row:\n                    for fmt in format:\n                        if fmt not in FORMAT_CODES:\n                            raise ValueError(f\"Invalid text format: {fmt}\")", "            pass", "R19.4"),
    ("C19", "new_page check removed", "input.py", "        self._validate_page_by_logic()\n        return self", "        return self", "R19.7"),
    ("C19", "cell justification validated against the text table again", "attributes.py", "if justification not in ROW_JUSTIFICATION_CODES:", "if justification not in TEXT_JUSTIFICATION_CODES:", "R19.6"),
    # ---- C20
    ("C20", "mm conversion uses 25", "strwidth.py", '"mm": lambda x: (x / dpi) * 25.4,', '"mm": lambda x: (x / dpi) * 25,', "R20.1"),
    ("C20", "font 10 mapped to another name", "fonts_mapping.py", '            "Courier New": 9,\n            "Symbol": 10,', '            "Courier New": 10,\n            "Symbol": 9,', "R20.2"),
    ("C20", "unit error is KeyError", "strwidth.py", '        raise ValueError(f"Unsupported unit: {unit}")', '        raise KeyError(f"Unsupported unit: {unit}")', "R20.3"),
    ("C20", "size rounded before loading", "strwidth.py", "size_param = int(math.ceil(font_size)) if _PILLOW_REQUIRES_INT_SIZE else font_size", "size_param = int(math.ceil(font_size)) if _PILLOW_REQUIRES_INT_SIZE else round(font_size)", "R20.4"),
]


def _copy_tree(dst: pathlib.Path, root: str) -> None:
    src = pathlib.Path(root) / "src" / "rtflite"
    (dst / "src").mkdir(parents=True, exist_ok=True)
    shutil.copytree(src, dst / "src" / "rtflite", ignore=shutil.ignore_patterns("__pycache__", "*.ttf", "*.otf", "fonts"))


def _strip_docstrings(tree: ast.AST) -> None:
    for n in ast.walk(tree):
        if isinstance(n, (ast.FunctionDef, ast.AsyncFunctionDef, ast.ClassDef, ast.Module)) and n.body and \
                isinstance(n.body[0], ast.Expr) and isinstance(n.body[0].value, ast.Constant) and isinstance(n.body[0].value.value, str):
            if len(n.body) > 1:
                n.body = n.body[1:]


def _rename_locals(tree: ast.AST, suffix: str = "_r") -> None:
    """consistently rename every local variable (not parameters, imports, nested function names) of every
    outermost function/method: a behaviour-preserving alpha-conversion"""
    from .alpha import locals_of

    def outer(node):
        for c in ast.iter_child_nodes(node):
            if isinstance(c, (ast.FunctionDef, ast.AsyncFunctionDef)):
                yield c
            elif isinstance(c, ast.ClassDef):
                yield from outer(c)
    for fn in outer(tree):
        m = {a: a + suffix for a in locals_of(fn)}
        for n in ast.walk(fn):
            if isinstance(n, ast.Name) and n.id in m:
                n.id = m[n.id]


def make_benign(dst: pathlib.Path, root: str, kind: str) -> None:
    _copy_tree(dst, root)
    for p in (dst / "src" / "rtflite").rglob("*.py"):
        tree = ast.parse(p.read_text(encoding="utf-8"))
        if kind == "unparse+nodoc":
            _strip_docstrings(tree)
        if kind == "rename-locals":
            _rename_locals(tree)
        p.write_text(ast.unparse(tree) + "\n", encoding="utf-8")


def _run_check(prop: str, root: str, evdir: str) -> dict:
    r = subprocess.run([sys.executable, "-m", "sa.run", prop, "--root", root, "--evidence-dir", evdir, "--tier", "quick"],
                       cwd=str(HERE), capture_output=True, text=True, env={**os.environ, "PYTHONDONTWRITEBYTECODE": "1", "VERIF_TIER": "quick"})
    try:
        cov = json.load(open(os.path.join(evdir, prop + ".json")))["coverage"]
    except Exception:
        cov = {"new_violations": [], "known_findings_matched": []}
    return {"rc": r.returncode, "new": cov.get("new_violations", []), "known": cov.get("known_findings_matched", []),
            "tail": r.stdout.strip().splitlines()[-3:]}


def _job(args):
    kind, prop, root, name, rel, old, new, rule = args
    tmp = tempfile.mkdtemp(prefix="verif-selftest-")
    try:
        dst = pathlib.Path(tmp) / "tree"
        if kind.startswith("benign"):
            make_benign(dst, root, kind.split(":", 1)[1])
        else:
            _copy_tree(dst, root)
            f = dst / "src" / "rtflite" / rel
            text = f.read_text(encoding="utf-8")
            if text.count(old) != 1:
                return {"kind": kind, "name": name, "status": "skipped", "why": f"anchor text occurs {text.count(old)}x in {rel}"}
            text2 = text.replace(old, new)
            try:
                ast.parse(text2)
            except SyntaxError as e:
                return {"kind": kind, "name": name, "status": "skipped", "why": f"mutant does not parse: {e}"}
            f.write_text(text2, encoding="utf-8")
        res = _run_check(prop, str(dst), os.path.join(tmp, "ev"))
        res.update({"kind": kind, "name": name, "rule": rule, "status": "ran"})
        return res
    finally:
        shutil.rmtree(tmp, ignore_errors=True)


def run(ctx) -> None:
    """called by sa.run for --tier thorough after the quick rules"""
    prop = ctx.prop
    root = str(ctx.pm.root)
    base_known = sorted(f.key for f in ctx.findings)      # includes known findings (filtered later by report)
    jobs = [("benign:unparse", prop, root, "ast.unparse round trip of the whole package", "", "", "", ""),
            ("benign:unparse+nodoc", prop, root, "ast.unparse round trip with docstrings stripped", "", "", "", ""),
            ("benign:rename-locals", prop, root, "every local variable of every function renamed (alpha-conversion)", "", "", "", "")]
    muts = [m for m in MUTANTS if m[0] == prop]
    for m in muts:
        jobs.append(("mutant", prop, root, m[1], m[2], m[3], m[4], m[5]))
    workers = min(16, max(1, len(jobs)))
    with ProcessPoolExecutor(max_workers=workers) as ex:
        results = list(ex.map(_job, jobs))
    killed = skipped = survived = 0
    base_keys = set(base_known)
    for r in results:
        if r["status"] == "skipped":
            skipped += 1
            ctx.instance("SELFTEST", "sa/selftest.py", f"{r['kind']} `{r['name']}` skipped: {r['why']}", nontrivial=False)
            continue
        if r["kind"].startswith("benign"):
            same = set(r["new"]) | set(r["known"])
            extra = sorted(same - base_keys)
            missing = sorted(base_keys - same)
            ok = r["rc"] in (0, 1) and not extra and not missing
            ctx.instance("SELFTEST", "sa/selftest.py", f"behaviour-preserving variant `{r['name']}`: exit {r['rc']}, findings identical to the real tree: {ok}")
            if not ok:
                raise AnalysisError(f"self-test: behaviour-preserving variant `{r['name']}` changed the verdict (exit {r['rc']}, extra {extra[:2]}, missing {missing[:2]})")
        else:
            new = [k for k in (r["new"] + r["known"]) if k not in base_keys]
            hit = [k for k in new if k.split("|")[0].startswith(r["rule"][:3]) or k.split("|")[0] == r["rule"]]
            exact = [k for k in new if k.split("|")[0] == r["rule"]]
            if r["rc"] == 1 and new:
                killed += 1
                ctx.instance("SELFTEST", "sa/selftest.py", f"mutant `{r['name']}` -> VIOLATION {sorted({k.split('|')[0] for k in new})} (expected {r['rule']}{'' if exact else ', reported by a sibling rule'})")
            else:
                survived += 1
                ctx.instance("SELFTEST", "sa/selftest.py", f"mutant `{r['name']}` SURVIVED (exit {r['rc']}, {r['tail'][-1:] })")
    ctx.extra["selftest"] = {"mutants": len(muts), "killed": killed, "skipped": skipped, "survived": survived, "benign_variants": 3}
    if muts and skipped * 3 > len(muts):
        raise AnalysisError(f"self-test: {skipped}/{len(muts)} mutants no longer apply to the tree; the mutant table is out of date")
    if survived:
        raise AnalysisError(f"self-test: {survived} mutant(s) of {prop} were not detected: the rules lost discrimination")
