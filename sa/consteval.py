"""Constant evaluation of repo expressions through the abstract interpreter (no repo code runs)."""
from __future__ import annotations

import ast

from .absexec import Exec
from .absint import NOC, constof
from .pm import PM, AnalysisError


_CACHE: dict[int, Exec] = {}


def interp_for(pm: PM) -> Exec:
    it = _CACHE.get(id(pm))
    if it is None:
        it = Exec(pm, sanitiser_axiom=False)
        it.enter_numeric = True
        _CACHE[id(pm)] = it
    return it


def const_name(pm: PM, module: str, name: str):
    """value of module-level NAME (following imports), or NOC"""
    it = interp_for(pm)
    v = it.ev(ast.Name(id=name, ctx=ast.Load()), {"__module__": module})
    return constof(v)


def const_expr(pm: PM, module: str, expr: ast.AST, env: dict | None = None):
    it = interp_for(pm)
    e = {"__module__": module}
    if env:
        e.update(env)
    return constof(it.ev(expr, e))


def const_attr(pm: PM, cls: str, attr: str):
    it = interp_for(pm)
    v = it.class_attr(cls, attr)
    if v is None:
        raise AnalysisError(f"class attribute {cls}.{attr} not found")
    return constof(v)


def const_call(pm: PM, short: str):
    """constant returned by a zero-argument repo function/staticmethod, or NOC"""
    from .docshape import _DUMMY
    it = interp_for(pm)
    fi = pm.func(short)
    return constof(it.call_func(fi, None, [], {}, _DUMMY))


# ---------------------------------------------------------------------------------------------- keyword expansion
def _subst(expr: ast.AST, binds: dict) -> ast.AST:
    """copy of expr with the names in `binds` replaced by Constant nodes"""
    import copy

    class S(ast.NodeTransformer):
        def visit_Name(self, n):
            if isinstance(n.ctx, ast.Load) and n.id in binds:
                return ast.copy_location(ast.Constant(value=binds[n.id]), n)
            return n
    return S().visit(copy.deepcopy(expr))


def _fold(pm: PM, module: str, expr: ast.AST) -> ast.AST:
    """replace the outermost sub-expressions that evaluate to a scalar constant by that constant"""
    class F(ast.NodeTransformer):
        def generic_visit(self, n):
            if isinstance(n, ast.expr) and not isinstance(n, (ast.Constant, ast.Name, ast.Starred)) and not isinstance(getattr(n, "ctx", None), ast.Store):
                try:
                    v = const_expr(pm, module, n)
                except Exception:
                    v = NOC
                if v is not NOC and isinstance(v, (str, int, float, bool, type(None))):
                    return ast.copy_location(ast.Constant(value=v), n)
            return super().generic_visit(n)

        def visit(self, n):
            return self.generic_visit(n)
    return F().visit(expr)


def _bind_target(target: ast.AST, value, out: dict) -> bool:
    if isinstance(target, ast.Name):
        out[target.id] = value
        return True
    if isinstance(target, (ast.Tuple, ast.List)) and isinstance(value, (tuple, list)) and len(value) == len(target.elts):
        return all(_bind_target(t, v, out) for t, v in zip(target.elts, value))
    return False


def expand_keywords(pm: PM, fi, call: ast.Call):
    """(pairs, complete): the keyword arguments of a call as (name, value expression) pairs with `**mapping`
    arguments expanded when the mapping is a dict display or a dict comprehension over a constant table
    (table-driven construction).  The value expressions of expanded entries have the comprehension variables
    replaced by the constants of the table row.  complete=False when some `**x` could not be expanded."""
    from .astmatch import assignments, mutated
    pairs, complete = [], True
    asg = None
    for k in call.keywords:
        if k.arg is not None:
            pairs.append((k.arg, k.value))
            continue
        v = k.value
        seen = 0
        while isinstance(v, ast.Name) and seen < 4:
            if asg is None:
                fn = fi.node
                asg = assignments(fn)
                mut = mutated(fn)
            vals = asg.get(v.id, [])
            if len(vals) != 1 or v.id in mut or isinstance(vals[0], ast.Constant):
                break
            v = vals[0]
            seen += 1
        if isinstance(v, ast.Call) and isinstance(v.func, ast.Name) and v.func.id == "dict" and len(v.args) == 1 and not v.keywords:
            v = v.args[0]
        if isinstance(v, ast.Dict) and all(kk is not None for kk in v.keys):
            ok = True
            for kk, vv in zip(v.keys, v.values):
                name = const_expr(pm, fi.module, kk)
                if not isinstance(name, str):
                    ok = False
                    break
                pairs.append((name, vv))
            complete = complete and ok
            continue
        if isinstance(v, ast.DictComp) and len(v.generators) == 1 and not v.generators[0].ifs:
            g = v.generators[0]
            table = const_expr(pm, fi.module, g.iter)
            if table is not NOC and isinstance(table, (list, tuple, dict)):
                rows = list(table)
                ok = True
                for row in rows:
                    binds: dict = {}
                    if not _bind_target(g.target, row, binds):
                        ok = False
                        break
                    name = const_expr(pm, fi.module, _subst(v.key, binds))
                    if not isinstance(name, str):
                        ok = False
                        break
                    pairs.append((name, _fold(pm, fi.module, _subst(v.value, binds))))
                complete = complete and ok
                continue
        complete = False
    return pairs, complete
