"""Constant evaluation of repo expressions through the abstract interpreter (no repo code runs)."""
from __future__ import annotations

import ast

from .absexec import Exec
from .absint import NOC, constof
from .pm import PM, AnalysisError


_CACHE: dict[int, Exec] = {}


def interp_for(pm: PM) -> Exec:
    it = _CACHE.get(id(pm))
    if it is None:
        it = Exec(pm, sanitiser_axiom=False)
        it.enter_numeric = True
        _CACHE[id(pm)] = it
    return it


def const_name(pm: PM, module: str, name: str):
    """value of module-level NAME (following imports), or NOC"""
    it = interp_for(pm)
    v = it.ev(ast.Name(id=name, ctx=ast.Load()), {"__module__": module})
    return constof(v)


def const_expr(pm: PM, module: str, expr: ast.AST, env: dict | None = None):
    it = interp_for(pm)
    e = {"__module__": module}
    if env:
        e.update(env)
    return constof(it.ev(expr, e))


def const_attr(pm: PM, cls: str, attr: str):
    it = interp_for(pm)
    v = it.class_attr(cls, attr)
    if v is None:
        raise AnalysisError(f"class attribute {cls}.{attr} not found")
    return constof(v)


def const_call(pm: PM, short: str):
    """constant returned by a zero-argument repo function/staticmethod, or NOC"""
    from .docshape import _DUMMY
    it = interp_for(pm)
    fi = pm.func(short)
    return constof(it.call_func(fi, None, [], {}, _DUMMY))
