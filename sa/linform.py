"""Normal form of integer/real arithmetic: a linear form {term-text: coefficient, '': constant}.

Non-linear sub-expressions become opaque terms keyed by their unparsed text (after recursive
normalisation of commutative + and *), so algebraically equal rewrites compare equal:
  end - start + 1  ==  1 + end - start ;  a + b > c  ->  compare(a + b - c)
"""
from __future__ import annotations

import ast
from fractions import Fraction

from .pm import unparse


def linform(e: ast.AST, env: dict | None = None) -> dict:
    """env maps local names to expressions to inline (single-assignment locals)."""
    env = env or {}
    out: dict = {}

    def add(d, k, v):
        d[k] = d.get(k, 0) + v
        if d[k] == 0:
            del d[k]

    def rec(n, coef, acc, depth=0):
        if isinstance(n, ast.Constant) and isinstance(n.value, (int, float)) and not isinstance(n.value, bool):
            add(acc, "", coef * (Fraction(n.value) if isinstance(n.value, int) else Fraction(str(n.value))))
            return
        if isinstance(n, ast.Name) and n.id in env and depth < 8:
            rec(env[n.id], coef, acc, depth + 1)
            return
        if isinstance(n, ast.UnaryOp) and isinstance(n.op, ast.USub):
            rec(n.operand, -coef, acc, depth)
            return
        if isinstance(n, ast.UnaryOp) and isinstance(n.op, ast.UAdd):
            rec(n.operand, coef, acc, depth)
            return
        if isinstance(n, ast.BinOp):
            if isinstance(n.op, ast.Add):
                rec(n.left, coef, acc, depth)
                rec(n.right, coef, acc, depth)
                return
            if isinstance(n.op, ast.Sub):
                rec(n.left, coef, acc, depth)
                rec(n.right, -coef, acc, depth)
                return
            if isinstance(n.op, ast.Mult):
                l, r = linform(n.left, env), linform(n.right, env)
                if set(l) <= {""}:
                    k = l.get("", 0)
                    for t, v in r.items():
                        add(acc, t, coef * k * v)
                    return
                if set(r) <= {""}:
                    k = r.get("", 0)
                    for t, v in l.items():
                        add(acc, t, coef * k * v)
                    return
                a, b = sorted([show(l), show(r)])
                add(acc, f"({a})*({b})", coef)
                return
            if isinstance(n.op, ast.Div):
                r = linform(n.right, env)
                if set(r) <= {""} and r.get("", 0) != 0:
                    k = r[""]
                    for t, v in linform(n.left, env).items():
                        add(acc, t, coef * v / k)
                    return
                add(acc, f"({show(linform(n.left, env))})/({show(r)})", coef)
                return
        add(acc, unparse(n), coef)

    rec(e, Fraction(1), out)
    return {k: (int(v) if isinstance(v, Fraction) and v.denominator == 1 else v) for k, v in out.items()}


def show(lf: dict) -> str:
    parts = []
    for k in sorted(lf):
        v = lf[k]
        parts.append(f"{v}" if k == "" else (f"{k}" if v == 1 else f"{v}*{k}"))
    return " + ".join(parts) or "0"


def compare_form(c: ast.Compare, env: dict | None = None):
    """(op, linform(left - right)) normalised so that op in {'>','>=','==','!='} where possible"""
    if len(c.ops) != 1:
        return None
    op = c.ops[0]
    diff = linform(ast.BinOp(left=c.left, op=ast.Sub(), right=c.comparators[0]), env)
    if isinstance(op, ast.Lt):
        return (">", {k: -v for k, v in diff.items()})
    if isinstance(op, ast.LtE):
        return (">=", {k: -v for k, v in diff.items()})
    if isinstance(op, ast.Gt):
        return (">", diff)
    if isinstance(op, ast.GtE):
        return (">=", diff)
    if isinstance(op, ast.Eq):
        return ("==", _canon_sign(diff))
    if isinstance(op, ast.NotEq):
        return ("!=", _canon_sign(diff))
    return None


def _canon_sign(d: dict) -> dict:
    if not d:
        return d
    first = sorted(d)[0] if "" not in d or len(d) > 1 else ""
    ks = [k for k in sorted(d) if k != ""] or [""]
    if d[ks[0]] < 0:
        return {k: -v for k, v in d.items()}
    return d


def single_assign_env(fn: ast.AST) -> dict:
    """locals assigned exactly once by a plain `name = expr` (not in a loop updating itself)"""
    from .pm import walk_no_nested
    counts: dict[str, int] = {}
    vals: dict[str, ast.AST] = {}
    for n in walk_no_nested(fn):
        if isinstance(n, ast.Assign):
            for t in n.targets:
                if isinstance(t, ast.Name):
                    counts[t.id] = counts.get(t.id, 0) + 1
                    vals[t.id] = n.value
                elif isinstance(t, (ast.Tuple, ast.List)):
                    for e in t.elts:
                        if isinstance(e, ast.Name):
                            counts[e.id] = counts.get(e.id, 0) + 2
        elif isinstance(n, (ast.AugAssign, ast.AnnAssign)) and isinstance(n.target, ast.Name):
            counts[n.target.id] = counts.get(n.target.id, 0) + 2
        elif isinstance(n, (ast.For, ast.comprehension)):
            for e in ast.walk(n.target):
                if isinstance(e, ast.Name):
                    counts[e.id] = counts.get(e.id, 0) + 2
    return {k: v for k, v in vals.items() if counts.get(k) == 1}
