"""C17 - assemble_rtf yields one well-formed document with every input in order.

R17.1 writer/reader layout agreement: the encoders' literal preamble gives the line on which the font table closes
(that line must carry nothing else; every document ends with a line consisting of '}' only); a non-first input must be
kept from the line after it.  R17.2 behaviour of assemble_rtf observed by interpreting its syntax tree over an
in-memory file system with model documents (empty list, single input, all layout combinations of two/three inputs,
missing inputs).  R17.3 a second call after an input was rewritten assembles the new content (functools caches are
modelled faithfully by the interpreter).

This module also hosts the model interpreter and the file-system model shared by the C17..C20 rules.
"""
from __future__ import annotations

import ast

from .. import shapes as S
from ..docshape import PATHS, doc_shape, make_interp
from ..pm import AnalysisError, dotted, unparse, walk_no_nested
from ..report import Ctx

# ================================================================================================
# Model interpreter: the syntax tree of a repository function is interpreted over *model values*
# (ordinary Python data for data, small model objects for the outside world: files, paths, converters,
# font loaders ...).  Nothing of the repository is imported or executed by Python itself.  Rules use it
# to observe what a function *does* on representative model inputs (what it reads, writes, raises and
# returns) instead of matching how its source is spelled; a construct outside the supported subset
# raises Unsupported (an AnalysisError: analysis gap, never a violation).
# ================================================================================================
import builtins as _bi
import collections as _collections
import collections.abc as _abc
import copy as _copy
import functools as _functools
import itertools as _itertools
import math as _math
import operator as _operator
import os.path as _ospath
import re as _re
import string as _string
import typing as _typing
import fractions as _fractions
import decimal as _decimal
import numbers as _numbers
import textwrap as _textwrap
import bisect as _bisect
import heapq as _heapq
import statistics as _statistics


class Unsupported(AnalysisError):
    """construct outside the interpreted subset / unmodelled external"""


class NeedChoice(Exception):
    def __init__(self, key, domain):
        self.key, self.domain = key, list(domain)


class PyExc(Exception):
    """an exception propagating inside the interpreted program; .val is the exception object (Obj)"""

    def __init__(self, val):
        Exception.__init__(self, repr(val))
        self.val = val


class _Return(Exception):
    def __init__(self, v):
        self.v = v


class _Break(Exception):
    pass


class _Continue(Exception):
    pass


EXC_BASES = {
    "BaseException": None, "Exception": "BaseException", "ArithmeticError": "Exception", "ZeroDivisionError": "ArithmeticError",
    "OverflowError": "ArithmeticError", "AssertionError": "Exception", "AttributeError": "Exception", "EOFError": "Exception",
    "ImportError": "Exception", "ModuleNotFoundError": "ImportError", "LookupError": "Exception", "IndexError": "LookupError",
    "KeyError": "LookupError", "NameError": "Exception", "OSError": "Exception", "FileNotFoundError": "OSError",
    "FileExistsError": "OSError", "PermissionError": "OSError", "IsADirectoryError": "OSError", "NotADirectoryError": "OSError",
    "TimeoutError": "OSError", "RuntimeError": "Exception", "NotImplementedError": "RuntimeError", "RecursionError": "RuntimeError",
    "StopIteration": "Exception", "TypeError": "Exception", "ValueError": "Exception", "UnicodeError": "ValueError",
    "UnicodeDecodeError": "UnicodeError", "UnicodeEncodeError": "UnicodeError", "KeyboardInterrupt": "BaseException",
    "SystemExit": "BaseException", "GeneratorExit": "BaseException", "Warning": "Exception", "UserWarning": "Warning",
    "DeprecationWarning": "Warning", "IOError": "OSError", "EnvironmentError": "OSError",
    "ValidationError": "ValueError",          # pydantic_core.ValidationError
}


class BuiltinExc:
    """a builtin exception class"""

    def __init__(self, name):
        self.name = name

    def mro_names(self):
        out, n = [], self.name
        while n is not None:
            out.append(n)
            n = EXC_BASES.get(n)
        return out + ["object"]

    def __repr__(self):
        return f"<class {self.name}>"

    def __deepcopy__(self, memo):
        return self


_BEXC = {n: BuiltinExc(n) for n in EXC_BASES}
_BEXC["IOError"] = _BEXC["EnvironmentError"] = _BEXC["OSError"]


class ClassVal:
    """a class defined in the analysed repository"""

    def __init__(self, it, ci):
        self.it, self.ci, self.name = it, ci, ci.name
        self.statics = {}          # class attributes assigned at run time / evaluated lazily

    def mro_names(self):
        out = []
        for c in self.it.pm.mro(self.ci.name):
            if c in self.it.pm.classes:
                out.append(c)
            elif c in EXC_BASES:
                out.extend(x for x in _BEXC[c].mro_names() if x not in out)
            else:
                out.append(c)
        return out + ["object"]

    def __repr__(self):
        return f"<class {self.name}>"

    def __deepcopy__(self, memo):
        return self

    def __call__(self, *a, **k):
        return self.it.call(self, list(a), k)


class Obj:
    """an instance of a repository class, of a builtin exception, or (cls None) a plain namespace"""

    def __init__(self, cls, attrs=None):
        self.cls = cls
        self.attrs = dict(attrs or {})

    def __repr__(self):
        if self.cls is not None and "BaseException" in self.cls.mro_names():
            return f"{self.cls.name}({', '.join(repr(a) for a in self.attrs.get('args', ()))})"
        return f"<{self.cls.name if self.cls is not None else 'namespace'} object>"


class Unknown:
    """an arbitrary value coming from outside the analysed code (pure-function results on it are Unknown too)"""

    def __init__(self, label):
        self.label = label

    def __repr__(self):
        return f"<?{self.label}>"

    def __deepcopy__(self, memo):
        return self


class ExtRef:
    """a name imported from outside the repository for which no model is registered"""

    def __init__(self, dotted):
        self.dotted = dotted

    def __repr__(self):
        return f"<ext {self.dotted}>"

    def __deepcopy__(self, memo):
        return self


class ModVal:
    def __init__(self, mi):
        self.mi = mi

    def __repr__(self):
        return f"<module {self.mi.name}>"

    def __deepcopy__(self, memo):
        return self


class Func:
    def __init__(self, it, node, module, closure, fi=None, cls=None):
        self.it, self.node, self.module, self.closure, self.fi, self.cls = it, node, module, closure, fi, cls
        self.name = getattr(node, "name", "<lambda>")
        facts = getattr(node, "_mpy_facts", None)
        if facts is None:
            facts = (not isinstance(node, ast.Lambda) and any(isinstance(n, (ast.Yield, ast.YieldFrom)) for n in walk_no_nested(node)),
                     [dotted(d) for d in getattr(node, "decorator_list", [])])
            node._mpy_facts = facts
        self.is_gen, self.decos = facts

    def __repr__(self):
        return f"<function {self.name}>"

    def __call__(self, *a, **k):
        return self.it.call(self, list(a), k)

    def __deepcopy__(self, memo):
        return self


class Bound:
    def __init__(self, func, recv):
        self.func, self.recv = func, recv

    def __call__(self, *a, **k):
        return self.func.it.call(self, list(a), k)

    def __repr__(self):
        return f"<bound {self.func.name}>"

    def __deepcopy__(self, memo):
        return self


class GenCM:
    """result of calling a @contextmanager generator function"""

    def __init__(self, gen):
        self.gen = gen


class SuperProxy:
    def __init__(self, obj, after):
        self.obj, self.after = obj, after


class Frame:
    __slots__ = ("vars", "parent", "module", "func", "outer_names")

    def __init__(self, module, parent=None, func=None):
        self.vars, self.parent, self.module, self.func = {}, parent, module, func
        self.outer_names = set()


_NATIVE_MODULES = {"math": _math, "collections.abc": _abc, "collections": _collections, "itertools": _itertools,
                   "functools": _functools, "operator": _operator, "string": _string, "re": _re, "typing": _typing,
                   "copy": _copy, "os.path": _ospath, "fractions": _fractions, "decimal": _decimal, "numbers": _numbers,
                   "textwrap": _textwrap, "bisect": _bisect, "heapq": _heapq, "statistics": _statistics}
_IMPURE_NATIVE = {"os.path.exists", "os.path.isfile", "os.path.isdir", "os.path.getsize", "os.path.abspath", "os.path.expanduser",
                  "os.path.realpath", "os.path.getmtime", "os.path.islink", "os.path.lexists", "os.path.samefile",
                  "functools.lru_cache", "functools.cache", "functools.cached_property", "functools.wraps"}
_PURE_OSPATH = {"join", "basename", "dirname", "splitext", "split", "normpath", "isabs", "sep", "commonprefix", "splitdrive", "extsep"}
_SAFE_BUILTINS = ("abs", "all", "any", "ascii", "bin", "bool", "bytes", "bytearray", "chr", "complex", "dict", "divmod", "enumerate",
                  "filter", "float", "format", "frozenset", "hash", "hex", "int", "iter", "list", "map", "max", "min", "next", "object",
                  "oct", "ord", "pow", "range", "reversed", "round", "set", "slice", "sorted", "sum", "tuple", "zip", "str")
_NATIVE_ERRORS = (KeyError, IndexError, ValueError, TypeError, AttributeError, ZeroDivisionError, StopIteration, OverflowError, LookupError,
                  AssertionError, RecursionError)
_BINOPS = {ast.Add: _operator.add, ast.Sub: _operator.sub, ast.Mult: _operator.mul, ast.Div: _operator.truediv,
           ast.FloorDiv: _operator.floordiv, ast.Mod: _operator.mod, ast.Pow: _operator.pow, ast.BitOr: _operator.or_,
           ast.BitAnd: _operator.and_, ast.BitXor: _operator.xor, ast.LShift: _operator.lshift, ast.RShift: _operator.rshift,
           ast.MatMult: _operator.matmul}
_CMPOPS = {ast.Eq: _operator.eq, ast.NotEq: _operator.ne, ast.Lt: _operator.lt, ast.LtE: _operator.le, ast.Gt: _operator.gt,
           ast.GtE: _operator.ge, ast.Is: _operator.is_, ast.IsNot: _operator.is_not}
_OPQ = (Unknown, ExtRef)


class Interp:
    """interpreter of repository syntax trees over model values.

    externals: dotted external name (as imported, e.g. 'os.path.exists', 'tempfile.TemporaryDirectory', 'shutil')
    -> model value (any Python object; callables are called natively with model values).
    Hooks for subclasses: make_model (instantiate a pydantic model), before_call (fault injection), isinstance_ext.
    """

    MAX_STEPS = 400000

    def __init__(self, pm, externals=None, lenient=True):
        self.pm = pm
        self.externals = {"os.environ": Unknown("os.environ"), "os.name": Unknown("os.name"), "sys.platform": Unknown("sys.platform"),
                          "os.sep": "/", "os.altsep": None, "os.linesep": "\n", "os.curdir": ".", "os.pardir": "..",
                          "sys.version_info": Unknown("sys.version_info"), "sys.stdout": ExtRef("sys.stdout"), "sys.stderr": ExtRef("sys.stderr"),
                          "warnings.warn": (lambda *a, **k: None), "logging.getLogger": (lambda *a, **k: Unknown("logger"))}
        self.externals.update(externals or {})
        self.overrides = {}               # repository class / function short name -> model standing in for it
        self.lenient = lenient            # unmodelled external calls give Unknown instead of Unsupported
        self.valuation = {}
        self.steps = 0
        self.depth = 0
        self._globals = {}
        self._classes = {}
        self._nt = {}
        self._pending = set()
        self.notes = []
        self.exc_stack = []
        self.choice_reads = 0
        self._memo = {}
        self._decorated = {}
        self.in_definition = 0

    # ------------------------------------------------------------------ choices (forking on unknown booleans)
    def choose(self, key, domain=(True, False)):
        self.choice_reads += 1
        if key in self.valuation:
            return self.valuation[key]
        raise NeedChoice(key, domain)

    def explore(self, thunk, limit=256):
        """run thunk() under every valuation of the choices it consults -> [(valuation, outcome)] where outcome is
        ('return', v) or ('raise', exception Obj)"""
        out, pending, n = [], [dict()], 0
        while pending:
            v = pending.pop()
            n += 1
            if n > limit:
                raise Unsupported(f"more than {limit} combinations of unknown conditions")
            self.valuation = v
            try:
                out.append((v, self.outcome(thunk)))
            except NeedChoice as e:
                for x in e.domain:
                    pending.append({**v, e.key: x})
        self.valuation = {}
        return out

    def outcome(self, thunk):
        self.steps = 0
        self.depth = 0
        try:
            return ("return", thunk())
        except PyExc as e:
            return ("raise", e.val)

    # ------------------------------------------------------------------ exceptions
    def exc_class(self, name):
        return _BEXC[name]

    def make_exc(self, name, *args):
        """an exception raised by the interpreter or a model (not by a `raise` statement of the analysed code)"""
        return Obj(_BEXC.get(name) or BuiltinExc(name), {"args": tuple(args), "__origin__": "interp"})

    def throw(self, name, *args):
        raise PyExc(self.make_exc(name, *args))

    def is_exc_obj(self, v):
        return isinstance(v, Obj) and v.cls is not None and "BaseException" in v.cls.mro_names()

    def exc_names(self, v):
        return v.cls.mro_names() if isinstance(v, Obj) and v.cls is not None else []

    def native(self, f, *a, **k):
        """call a native Python callable with model values; native errors become interpreted exceptions"""
        try:
            return f(*a, **k)
        except (PyExc, Unsupported, NeedChoice, _Return):
            raise
        except _NATIVE_ERRORS as e:
            if any(isinstance(x, _OPQ) for x in list(a) + list(k.values())):
                return Unknown(f"{getattr(f, '__name__', 'call')}(…)")
            if any(isinstance(x, (Obj, ClassVal, Func, Bound)) for x in list(a) + list(k.values())) and isinstance(e, (TypeError, AttributeError)):
                raise Unsupported(f"native {getattr(f, '__name__', f)} applied to a model object: {e}")
            raise PyExc(self.make_exc(type(e).__name__, *e.args))

    # ------------------------------------------------------------------ names
    def class_val(self, ci):
        cv = self._classes.get(ci.name)
        if cv is None:
            cv = self._classes[ci.name] = ClassVal(self, ci)
        return cv

    _DECO_SKIP = {"staticmethod", "classmethod", "property", "cached_property", "computed_field", "field_validator", "model_validator",
                  "validator", "root_validator", "field_serializer", "model_serializer", "lru_cache", "cache", "contextmanager",
                  "asynccontextmanager", "wraps", "overload", "abstractmethod", "override", "final", "deprecated", "no_type_check",
                  "setter", "getter", "deleter", "dataclass", "total_ordering"}

    def func_val(self, fi, closure=None):
        f = Func(self, fi.node, fi.module, closure, fi=fi, cls=fi.cls)
        if not fi.node.decorator_list:
            return f
        if closure is None and id(fi.node) in self._decorated:
            return self._decorated[id(fi.node)]
        d = self.decorated(f, fi.node, closure if closure is not None else Frame(fi.module))
        if closure is None:
            self._decorated[id(fi.node)] = d
        return d

    def decorated(self, f, node, fr):
        """apply the decorators that are defined in the repository (or locally): they are part of what the function does;
        decorators from outside are the identity here unless they are modelled elsewhere (memoisation, contextmanager, ...)"""
        for d in reversed(node.decorator_list):
            if dotted(d).split(".")[-1] in self._DECO_SKIP:
                continue
            root = d.func if isinstance(d, ast.Call) else d
            while isinstance(root, ast.Attribute):
                root = root.value
            if not isinstance(root, ast.Name):
                continue
            local, x = False, fr
            while x is not None and not local:
                local = root.id in x.vars
                x = x.parent
            r = self.pm.resolve(f.module if isinstance(f, Func) else fr.module, root.id)
            if not local and (r is None or r[0] not in ("func", "class", "value", "module")):
                continue
            self.in_definition += 1          # decoration happens when the module is imported, not during the observed call
            try:
                dv = self.ev(d, fr)
                if isinstance(dv, _OPQ):
                    continue
                f = self.call(dv, [f], {})
            finally:
                self.in_definition -= 1
        return f

    def ext(self, dotted_name):
        """value of an external (non-repository) dotted name: a registered model, an attribute of one, a pure
        standard-library function, or an ExtRef placeholder"""
        if dotted_name in self.externals:
            return self.externals[dotted_name]
        parts = dotted_name.split(".")
        for i in range(len(parts) - 1, 0, -1):          # attribute of a registered model
            head = ".".join(parts[:i])
            if head in self.externals and not isinstance(self.externals[head], ExtRef):
                v = self.externals[head]
                for a in parts[i:]:
                    v = self.getattr(v, a)
                return v
        if dotted_name == "typing.TYPE_CHECKING":
            return False
        if dotted_name in _NATIVE_MODULES:
            return ExtRef(dotted_name)                   # leaves are resolved one by one (impure ones are never native)
        if dotted_name not in _IMPURE_NATIVE and (not dotted_name.startswith("os.path.") or parts[-1] in _PURE_OSPATH):
            for i in range(len(parts) - 1, 0, -1):
                head = ".".join(parts[:i])
                if head in _NATIVE_MODULES:
                    v = _NATIVE_MODULES[head]
                    try:
                        for a in parts[i:]:
                            v = getattr(v, a)
                    except AttributeError:
                        break
                    if isinstance(v, type(_math)):
                        break
                    return v
        return ExtRef(dotted_name)

    def global_name(self, module, name):
        key = (module, name)
        if key in self._globals:
            return self._globals[key]
        r = self.pm.resolve(module, name)
        if r is None:
            if name in _BEXC:
                v = _BEXC[name]
            else:
                v = self.builtin(name)
                if v is None and name not in ("None",):
                    v = Unknown(name)
            self._globals[key] = v
            return v
        kind, x = r
        if kind in ("class", "func") and (x.name if kind == "class" else x.short) in self.overrides:
            return self.overrides[x.name if kind == "class" else x.short]
        if kind == "class":
            v = self.class_val(x)
        elif kind == "func":
            v = self.func_val(x)
        elif kind == "module":
            v = ModVal(x)
        elif kind == "ext":
            v = self.ext(x)
        else:
            mi, expr = x
            k2 = (mi.name, name)
            if k2 in self._globals:
                return self._globals[k2]
            if k2 in self._pending:
                raise Unsupported(f"cyclic module-level definition of {name}")
            self._pending.add(k2)
            before = self.choice_reads
            self.in_definition += 1          # module-level code runs at import time, not during the observed call
            try:
                v = self.ev(expr, Frame(mi.name))
            finally:
                self.in_definition -= 1
                self._pending.discard(k2)
            if self.choice_reads != before:
                return v                      # depends on an unknown condition: valid for this valuation only
            self._globals[k2] = v
        self._globals[key] = v
        return v

    def builtin(self, name):
        if "builtins." + name in self.externals:
            return self.externals["builtins." + name]
        if name in _SAFE_BUILTINS:
            return getattr(_bi, name)
        m = getattr(self, "bi_" + name, None)
        if m is not None:
            return m
        if name in ("True", "False", "None"):
            return {"True": True, "False": False, "None": None}[name]
        if name in ("NotImplemented", "Ellipsis"):
            return getattr(_bi, name)
        return None

    def lookup(self, name, fr):
        f = fr
        while f is not None:
            if name in f.vars:
                return f.vars[name]
            f = f.parent
        return self.global_name(fr.module, name)

    # ------------------------------------------------------------------ builtins needing the interpreter
    def bi_print(self, *a, sep=" ", end="\n", file=None, flush=False):
        if file is None or isinstance(file, ExtRef) and file.dotted in ("sys.stdout", "sys.stderr"):
            return None
        if isinstance(file, _OPQ):
            raise Unsupported(f"print to an unknown stream {file!r}")
        text = (" " if sep is None else sep).join(self.fmt(x, "s") if not isinstance(x, str) else x for x in a) + ("\n" if end is None else end)
        self.call(self.getattr(file, "write"), [text], {})
        return None

    def bi_len(self, v):
        if isinstance(v, ClassVal) and self.is_enum(v):
            return len(self.enum_members(v))
        if isinstance(v, Obj):
            m = self.find_method(v, "__len__")
            if m is None:
                self.throw("TypeError", "object has no len()")
            return self.call(m, [], {})
        if isinstance(v, _OPQ):
            return Unknown(f"len({v!r})")
        return self.native(len, v)

    def bi_isinstance(self, v, t):
        return self.isinst(v, t)

    def bi_issubclass(self, c, t):
        ts = t if isinstance(t, tuple) else (t,)
        if isinstance(c, (ClassVal, BuiltinExc)):
            return any(isinstance(x, (ClassVal, BuiltinExc)) and x.name in c.mro_names() for x in ts)
        if isinstance(c, type) and all(isinstance(x, type) for x in ts):
            return issubclass(c, ts)
        raise Unsupported("issubclass on model values")

    def bi_getattr(self, o, name, *default):
        try:
            return self.getattr(o, name)
        except PyExc as e:
            if default and "AttributeError" in self.exc_names(e.val):
                return default[0]
            raise

    def bi_hasattr(self, o, name):
        try:
            self.getattr(o, name)
            return True
        except PyExc as e:
            if "AttributeError" in self.exc_names(e.val):
                return False
            raise

    def bi_setattr(self, o, name, v):
        self.setattr(o, name, v)

    def bi_type(self, v):
        if isinstance(v, Obj):
            return v.cls
        if isinstance(v, _OPQ):
            return Unknown(f"type({v!r})")
        for cv, t in self._nt.items():
            if type(v) is t:
                return self._classes[cv]
        return type(v)

    def bi_callable(self, v):
        return isinstance(v, (Func, Bound, ClassVal, BuiltinExc)) or callable(v)

    def bi_repr(self, v):
        return self.fmt(v, "r")

    def bi_id(self, v):
        return id(v)

    def bi_vars(self, v):
        if isinstance(v, Obj):
            return v.attrs
        raise Unsupported("vars()")

    def bi_super(self, *a):
        raise Unsupported("super() outside a method")

    def bi_open(self, *a, **k):
        raise Unsupported("open() is not modelled here")

    def bi_staticmethod(self, f):
        return f

    def bi_classmethod(self, f):
        return f

    def bi_property(self, f):
        return f

    # ------------------------------------------------------------------ values
    def truth(self, v):
        if isinstance(v, Obj):
            for nm in ("__bool__", "__len__"):
                m = self.find_method(v, nm)
                if m is not None:
                    return bool(self.call(m, [], {}))
            return True
        if isinstance(v, _OPQ):
            return self.choose(f"bool({v!r})")
        if isinstance(v, (ClassVal, BuiltinExc, Func, Bound, ModVal)):
            return True
        return bool(self.native(bool, v))

    def fmt(self, v, conv=None, spec=""):
        if isinstance(v, Obj):
            if self.is_exc_obj(v):
                if conv == "r":
                    return repr(v)
                a = v.attrs.get("args", ())
                s = self.fmt(a[0]) if len(a) == 1 else (str(tuple(a)) if a else "")
            else:
                m = self.find_method(v, "__str__") if conv != "r" else self.find_method(v, "__repr__")
                if m is None and "_name_" in v.attrs and isinstance(v.cls, ClassVal) and self.is_enum(v.cls):
                    plain = self.enum_plain(v)
                    s = str(plain) if plain is not v and conv != "r" and "StrEnum" in v.cls.mro_names() else f"{v.cls.name}.{v.attrs['_name_']}"
                else:
                    s = self.call(m, [], {}) if m is not None else repr(v)
            return format(s, spec) if spec else s
        if isinstance(v, (list, tuple, dict, set, frozenset)) and not spec:
            return repr(v) if conv in (None, "r") else str(v)
        if isinstance(v, (_OPQ, ClassVal, BuiltinExc, Func, Bound, ModVal)):
            return repr(v)
        if conv == "r":
            v = repr(v)
        elif conv == "a":
            v = ascii(v)
        elif conv == "s":
            v = str(v)
        return self.native(format, v, spec)

    def isinst(self, v, t):
        if isinstance(t, tuple):
            return any(self.isinst(v, x) for x in t)
        if isinstance(t, (ClassVal, BuiltinExc)):
            if isinstance(v, Obj) and v.cls is not None:
                return t.name in v.cls.mro_names()
            if isinstance(t, ClassVal) and t.name in self._nt:
                return type(v) is self._nt[t.name]
            if isinstance(v, _OPQ):
                return self.choose(f"isinstance({v!r}, {t.name})")
            return False
        if isinstance(t, _OPQ):
            return self.isinstance_ext(v, t)
        if isinstance(v, _OPQ):
            return self.choose(f"isinstance({v!r}, {getattr(t, '__name__', t)})")
        if isinstance(v, Obj):
            return t is object
        try:
            return isinstance(v, t)
        except TypeError:
            return self.isinstance_ext(v, t)

    def isinstance_ext(self, v, t):
        """isinstance against an unmodelled external type"""
        if isinstance(v, (bool, int, float, str, bytes, list, tuple, dict, set, frozenset, type(None), Obj)):
            return False
        return self.choose(f"isinstance({v!r}, {t!r})")

    # ------------------------------------------------------------------ attributes
    def find_method(self, obj, name):
        """bound method `name` of an Obj defined in a repository class, or None"""
        if not isinstance(obj, Obj) or not isinstance(obj.cls, ClassVal):
            return None
        fi = self.pm.find_method(obj.cls.ci.name, name)
        if fi is None:
            return None
        return Bound(self.func_val(fi), obj)

    def is_enum(self, cv):
        return isinstance(cv, ClassVal) and any(n in ("Enum", "IntEnum", "StrEnum", "Flag", "IntFlag") for n in cv.mro_names())

    def enum_members(self, cv):
        ms = cv.statics.get("__members__")
        if ms is None:
            ms, last = {}, 0
            names = cv.mro_names()
            for nm, expr in cv.ci.class_assigns.items():
                if nm.startswith("_") or (nm in cv.ci.fields and cv.ci.fields[nm].value is None):
                    continue
                if isinstance(expr, ast.Call) and dotted(expr.func).split(".")[-1] == "auto":
                    val = nm.lower() if "StrEnum" in names else (last + 1 if isinstance(last, int) else 1)
                else:
                    val = self.ev(expr, Frame(cv.ci.module))
                last = val
                ms[nm] = Obj(cv, {"name": nm, "value": val, "_name_": nm, "_value_": val})
            cv.statics["__members__"] = ms
        return ms

    def enum_plain(self, v):
        """the value an enum member with a str/int mix-in compares as"""
        if isinstance(v, Obj) and isinstance(v.cls, ClassVal) and "_value_" in v.attrs and self.is_enum(v.cls) \
                and any(n in ("str", "int", "StrEnum", "IntEnum", "IntFlag") for n in v.cls.mro_names()):
            return v.attrs["_value_"]
        return v

    def class_attr(self, cv, name, recv=None):
        """attribute looked up on the class (through the MRO); recv = instance for binding"""
        if name in cv.statics:
            return cv.statics[name]
        if self.is_enum(cv):
            ms = self.enum_members(cv)
            if name in ms:
                return ms[name]
            if name == "__members__":
                return ms
        for c in self.pm.mro(cv.ci.name):
            ci = self.pm.classes.get(c)
            if ci is None:
                continue
            if c != cv.ci.name:
                st = self.class_val(ci).statics
                if name in st:
                    return st[name]
            if name in ci.methods:
                fi = ci.methods[name]
                f = self.func_val(fi)
                if "staticmethod" in fi.decorators or not isinstance(f, Func):
                    return f
                if fi.is_classmethod:
                    return Bound(f, cv)
                if any(d.split(".")[-1] in ("property", "cached_property", "computed_field") for d in fi.decorators):
                    if recv is not None:
                        return self.call(Bound(f, recv), [], {})
                    return f
                return Bound(f, recv) if recv is not None else f
            if name in ci.class_assigns:
                v = self.field_default(ci.class_assigns[name], Frame(ci.module)) if name in ci.fields else self.ev(ci.class_assigns[name], Frame(ci.module))
                if v is NotImplemented:
                    continue
                self.class_val(ci).statics[name] = v
                return v
        raise KeyError(name)

    def getattr(self, o, name):
        if isinstance(o, Obj):
            if name in o.attrs:
                return o.attrs[name]
            if name == "__dict__":
                return o.attrs
            if name == "__class__":
                return o.cls
            if isinstance(o.cls, ClassVal):
                try:
                    return self.class_attr(o.cls, name, recv=o)
                except KeyError:
                    pass
                v = self.model_attr(o, name)
                if v is not NotImplemented:
                    return v
            self.throw("AttributeError", f"'{o.cls.name if o.cls is not None else 'namespace'}' object has no attribute '{name}'")
        if isinstance(o, ClassVal):
            if name in ("__name__", "__qualname__"):
                return o.name
            try:
                return self.class_attr(o, name)
            except KeyError:
                v = self.model_class_attr(o, name)
                if v is not NotImplemented:
                    return v
                self.throw("AttributeError", f"type object '{o.name}' has no attribute '{name}'")
        if isinstance(o, BuiltinExc):
            if name in ("__name__", "__qualname__"):
                return o.name
            self.throw("AttributeError", name)
        if isinstance(o, ModVal):
            return self.global_name(o.mi.name, name)
        if isinstance(o, ExtRef):
            return self.ext(o.dotted + "." + name)
        if isinstance(o, Unknown):
            return Unknown(f"{o.label}.{name}")
        if isinstance(o, SuperProxy):
            return self.super_attr(o, name)
        if isinstance(o, (Func, Bound)):
            if name in ("__name__", "__qualname__"):
                return (o.func if isinstance(o, Bound) else o).name
            self.throw("AttributeError", name)
        try:
            return getattr(o, name)
        except AttributeError:
            self.throw("AttributeError", f"'{type(o).__name__}' object has no attribute '{name}'")

    def model_attr(self, o, name):
        return NotImplemented

    def model_class_attr(self, cv, name):
        return NotImplemented

    def super_attr(self, sp, name):
        obj, after = sp.obj, sp.after
        cv = obj.cls if isinstance(obj, Obj) else obj
        mro = self.pm.mro(cv.ci.name)
        rest = mro[mro.index(after) + 1:] if after in mro else []
        for c in rest:
            ci = self.pm.classes.get(c)
            if ci is not None and name in ci.methods:
                fi = ci.methods[name]
                f = self.func_val(fi)
                if "staticmethod" in fi.decorators:
                    return f
                return Bound(f, cv if fi.is_classmethod else obj)
        return self.super_fallback(obj, name, rest)

    def super_fallback(self, obj, name, rest):
        if name == "__init__":
            return lambda *a, **k: self.base_init(obj, a, k)
        raise Unsupported(f"super().{name} resolves outside the repository")

    def base_init(self, obj, a, k):
        """object.__init__ / external base __init__"""
        if a or k:
            raise Unsupported(f"external base __init__ of {obj.cls.name} with arguments")
        return None

    def setattr(self, o, name, v):
        if isinstance(o, Obj):
            o.attrs[name] = v
        elif isinstance(o, ClassVal):
            o.statics[name] = v
        elif isinstance(o, (_OPQ, ModVal, Func, Bound, BuiltinExc)):
            raise Unsupported(f"attribute store on {o!r}")
        else:
            self.native(setattr, o, name, v)

    # ------------------------------------------------------------------ calls
    def before_call(self, node, f, args, kwargs):
        """hook: called before every call made by interpreted code (fault injection)"""

    def call(self, f, args, kwargs, node=None):
        if isinstance(f, Bound):
            return self.call_func(f.func, [f.recv] + list(args), kwargs)
        if isinstance(f, Func):
            return self.call_func(f, list(args), kwargs)
        if isinstance(f, ClassVal):
            return self.instantiate(f, list(args), kwargs)
        if isinstance(f, BuiltinExc):
            return Obj(f, {"args": tuple(args)})
        if isinstance(f, ExtRef):
            return self.call_ext(f, args, kwargs)
        if isinstance(f, Unknown):
            return Unknown(f"{f.label}(…)")
        if isinstance(f, Obj):
            m = self.find_method(f, "__call__")
            if m is None:
                self.throw("TypeError", "object is not callable")
            return self.call(m, args, kwargs)
        if not callable(f):
            self.throw("TypeError", f"'{type(f).__name__}' object is not callable")
        if isinstance(f, type) and f in (int, float, str, bool, list, tuple, dict, set, frozenset) and args and isinstance(args[0], Obj):
            if f is str:
                return self.fmt(args[0])
            if f is bool:
                return self.truth(args[0])
            raise Unsupported(f"{f.__name__}() of a model object")
        if f in (str, repr) and args and isinstance(args[0], (_OPQ, ClassVal, BuiltinExc)):
            return self.fmt(args[0])
        if f is bool and args and isinstance(args[0], _OPQ):
            return self.truth(args[0])
        if f in (sorted, min, max) and any(isinstance(x, _OPQ) for x in args):
            return Unknown(f"{f.__name__}(…)")
        return self.native(f, *args, **kwargs)

    STRICT_EXT = ("shutil.", "os.", "tempfile.", "io.", "pathlib.", "subprocess.", "fileinput.", "glob.", "zipfile.", "tarfile.", "mmap.",
                  "codecs.open", "builtins.")

    def call_ext(self, f, args, kwargs):
        vals = list(args) + list(kwargs.values())
        if any(isinstance(x, _Model) for x in vals) or any(isinstance(y, _Model) for x in vals if isinstance(x, (list, tuple)) for y in x):
            raise Unsupported(f"unmodelled external {f.dotted} is applied to a model object")
        if f.dotted.startswith(self.STRICT_EXT):
            raise Unsupported(f"call of unmodelled external {f.dotted} (may touch the file system)")
        if self.lenient:
            self.notes.append(f"unmodelled external call {f.dotted}")
            return Unknown(f"{f.dotted}(…)")
        raise Unsupported(f"call of unmodelled external {f.dotted}")

    def bind(self, func, args, kwargs):
        a = func.node.args
        fr = Frame(func.module, parent=func.closure, func=func)
        pos = list(a.posonlyargs) + list(a.args)
        defaults = [None] * (len(pos) - len(a.defaults)) + list(a.defaults)
        args = list(args)
        kwargs = dict(kwargs)
        for i, p in enumerate(pos):
            if i < len(args):
                if p.arg in kwargs and p not in a.posonlyargs:
                    self.throw("TypeError", f"{func.name}() got multiple values for argument '{p.arg}'")
                fr.vars[p.arg] = args[i]
            elif p.arg in kwargs and p not in a.posonlyargs:
                fr.vars[p.arg] = kwargs.pop(p.arg)
            elif defaults[i] is not None:
                fr.vars[p.arg] = self.ev(defaults[i], Frame(func.module, parent=func.closure))
            else:
                self.throw("TypeError", f"{func.name}() missing required argument '{p.arg}'")
        extra = args[len(pos):]
        if a.vararg is not None:
            fr.vars[a.vararg.arg] = tuple(extra)
        elif extra:
            self.throw("TypeError", f"{func.name}() takes {len(pos)} positional arguments but {len(args)} were given")
        for p, d in zip(a.kwonlyargs, a.kw_defaults):
            if p.arg in kwargs:
                fr.vars[p.arg] = kwargs.pop(p.arg)
            elif d is not None:
                fr.vars[p.arg] = self.ev(d, Frame(func.module, parent=func.closure))
            else:
                self.throw("TypeError", f"{func.name}() missing keyword-only argument '{p.arg}'")
        if a.kwarg is not None:
            fr.vars[a.kwarg.arg] = kwargs
        elif kwargs:
            self.throw("TypeError", f"{func.name}() got an unexpected keyword argument '{sorted(kwargs)[0]}'")
        return fr

    def call_func(self, func, args, kwargs):
        fr = self.bind(func, args, kwargs)
        if isinstance(func.node, ast.Lambda):
            return self.ev(func.node.body, fr)
        if self.depth > 60:
            raise Unsupported("interpretation depth exceeded in " + func.name)
        if any(d.split(".")[-1] in ("lru_cache", "cache") for d in func.decos) and not func.is_gen:
            # functools memoisation is part of the observable behaviour (stale results): model it faithfully
            try:
                key = (id(func.node), tuple(args), tuple(sorted(kwargs.items())))
                hash(key)
            except TypeError:
                self.throw("TypeError", "unhashable argument to a memoised function")
            if key not in self._memo:
                self._memo[key] = self._run_body(func, fr)
            return self._memo[key]
        return self._run_body(func, fr)

    def _run_body(self, func, fr):
        if func.is_gen:
            g = self.gen_body(func, fr)
            if any(d.split(".")[-1] == "contextmanager" for d in func.decos):
                return GenCM(g)
            return g
        self.depth += 1
        try:
            for _ in self.block(func.node.body, fr):
                raise Unsupported("yield in a non-generator context")
        except _Return as r:
            return r.v
        finally:
            self.depth -= 1
        return None

    def gen_body(self, func, fr):
        try:
            yield from self.block(func.node.body, fr)
        except _Return:
            return

    def instantiate(self, cv, args, kwargs):
        names = cv.mro_names()
        if "BaseException" in names:
            o = Obj(cv, {"args": tuple(args)})
            init = self.pm.find_method(cv.ci.name, "__init__")
            if init is not None:
                self.call_func(self.func_val(init), [o] + args, kwargs)
            return o
        if "NamedTuple" in names:
            t = self._nt.get(cv.name)
            if t is None:
                flds = list(self.pm.all_fields(cv.ci.name))
                dfl = [self.ev(cv.ci.class_assigns[f], Frame(cv.ci.module)) for f in flds if f in cv.ci.class_assigns]
                t = self._nt[cv.name] = _collections.namedtuple(cv.name, flds, defaults=dfl or None)
            return self.native(t, *args, **kwargs)
        if "BaseModel" in names:
            return self.make_model(cv, args, kwargs)
        if any(d.split(".")[-1] == "dataclass" for d in [dotted(x) for x in cv.ci.node.decorator_list]):
            o = Obj(cv, {})
            flds = self.pm.all_fields(cv.ci.name)
            it = iter(args)
            for nm, decl in flds.items():
                if "ClassVar" in unparse(decl.annotation):
                    continue
                try:
                    o.attrs[nm] = next(it)
                    continue
                except StopIteration:
                    pass
                if nm in kwargs:
                    o.attrs[nm] = kwargs[nm]
                elif decl.value is not None:
                    o.attrs[nm] = self.field_default(decl.value, Frame(cv.ci.module))
                else:
                    self.throw("TypeError", f"{cv.name}() missing argument '{nm}'")
            m = self.find_method(o, "__post_init__")
            if m is not None:
                self.call(m, [], {})
            return o
        if self.is_enum(cv):
            if len(args) != 1 or kwargs:
                self.throw("TypeError", f"{cv.name}() takes exactly one value")
            for m in self.enum_members(cv).values():
                if m is args[0] or (not isinstance(args[0], (Obj, ) + _OPQ) and self.compare(ast.Eq(), m.attrs["_value_"], args[0])):
                    return m
            if isinstance(args[0], _OPQ):
                raise Unsupported(f"{cv.name}(<unknown value>)")
            self.throw("ValueError", f"{args[0]!r} is not a valid {cv.name}")
        if any(n in names for n in ("Protocol", "TypedDict")):
            raise Unsupported(f"instantiation of {cv.name}")
        o = Obj(cv, {})
        init = self.pm.find_method(cv.ci.name, "__init__")
        if init is not None:
            self.call_func(self.func_val(init), [o] + args, kwargs)
        elif args or kwargs:
            ext = [n for n in names if n not in self.pm.classes and n != "object"]
            if ext:
                raise Unsupported(f"{cv.name}(...) initialised by external base {ext[0]}")
            self.throw("TypeError", f"{cv.name}() takes no arguments")
        return o

    def field_default(self, expr, fr):
        """default of a dataclass / pydantic field declaration"""
        if isinstance(expr, ast.Call) and dotted(expr.func).split(".")[-1] in ("field", "Field"):
            for k in expr.keywords:
                if k.arg == "default":
                    return self.ev(k.value, fr)
                if k.arg == "default_factory":
                    return self.call(self.ev(k.value, fr), [], {})
            if expr.args and dotted(expr.func).split(".")[-1] == "Field":
                if isinstance(expr.args[0], ast.Constant) and expr.args[0].value is Ellipsis:
                    return NotImplemented
                return self.ev(expr.args[0], fr)
            return NotImplemented
        return self.ev(expr, fr)

    def make_model(self, cv, args, kwargs):
        raise Unsupported(f"construction of pydantic model {cv.name} is not modelled here")

    # ------------------------------------------------------------------ statements (generators: a repository generator
    # function maps onto a Python generator, so `with` over @contextmanager functions and try/finally behave faithfully)
    def block(self, stmts, fr):
        for s in stmts:
            yield from self.stmt(s, fr)

    def tick(self):
        self.steps += 1
        if self.steps > self.MAX_STEPS:
            raise Unsupported("step budget exceeded (unbounded loop on model inputs?)")

    def stmt(self, s, fr):
        self.tick()
        if isinstance(s, ast.Expr):
            if isinstance(s.value, (ast.Yield, ast.YieldFrom)):
                yield from self.do_yield(s.value, fr)
            elif not isinstance(s.value, ast.Constant):
                self.ev(s.value, fr)
        elif isinstance(s, ast.Assign):
            if isinstance(s.value, (ast.Yield, ast.YieldFrom)):
                v = yield from self.do_yield(s.value, fr)
            else:
                v = self.ev(s.value, fr)
            for t in s.targets:
                self.assign(t, v, fr)
        elif isinstance(s, ast.AnnAssign):
            if s.value is not None:
                self.assign(s.target, self.ev(s.value, fr), fr)
        elif isinstance(s, ast.AugAssign):
            cur = self.ev(_load(s.target), fr)
            v = self.ev(s.value, fr)
            if isinstance(s.op, ast.Add) and isinstance(cur, list) and not isinstance(v, _OPQ):
                self.native(cur.extend, v)          # in-place semantics of list +=
                self.assign(s.target, cur, fr)
            else:
                self.assign(s.target, self.binop(s.op, cur, v), fr)
        elif isinstance(s, ast.Return):
            raise _Return(self.ev(s.value, fr) if s.value is not None else None)
        elif isinstance(s, ast.If):
            yield from self.block(s.body if self.truth(self.ev(s.test, fr)) else s.orelse, fr)
        elif isinstance(s, ast.For):
            it = self.iterate(self.ev(s.iter, fr))
            broke = False
            for x in it:
                self.tick()
                self.assign(s.target, x, fr)
                try:
                    yield from self.block(s.body, fr)
                except _Continue:
                    continue
                except _Break:
                    broke = True
                    break
            if not broke:
                yield from self.block(s.orelse, fr)
        elif isinstance(s, ast.While):
            broke = False
            while self.truth(self.ev(s.test, fr)):
                self.tick()
                try:
                    yield from self.block(s.body, fr)
                except _Continue:
                    continue
                except _Break:
                    broke = True
                    break
            if not broke:
                yield from self.block(s.orelse, fr)
        elif isinstance(s, ast.Raise):
            if s.exc is None:
                if not self.exc_stack:
                    self.throw("RuntimeError", "No active exception to re-raise")
                raise PyExc(self.exc_stack[-1])
            e = self.ev(s.exc, fr)
            if isinstance(e, (ClassVal, BuiltinExc)):
                e = self.call(e, [], {})
            if isinstance(e, _OPQ):
                e = Obj(BuiltinExc(repr(e)), {"args": ()})
            if not self.is_exc_obj(e):
                self.throw("TypeError", "exceptions must derive from BaseException")
            if s.cause is not None:
                e.attrs["__cause__"] = self.ev(s.cause, fr)
            raise PyExc(e)
        elif isinstance(s, ast.Try):
            yield from self.do_try(s, fr)
        elif isinstance(s, ast.With):
            yield from self.do_with(s, 0, fr)
        elif isinstance(s, ast.Assert):
            if not self.truth(self.ev(s.test, fr)):
                self.throw("AssertionError", *( [self.ev(s.msg, fr)] if s.msg is not None else []))
        elif isinstance(s, (ast.Pass, ast.Global)):
            pass
        elif isinstance(s, ast.Nonlocal):
            fr.outer_names.update(s.names)
        elif isinstance(s, ast.Break):
            raise _Break()
        elif isinstance(s, ast.Continue):
            raise _Continue()
        elif isinstance(s, (ast.FunctionDef, ast.AsyncFunctionDef)):
            fi = self.pm.func_by_node.get(id(s))
            f = Func(self, s, fr.module, fr, fi=fi, cls=None)
            fr.vars[s.name] = self.decorated(f, s, fr) if s.decorator_list else f
        elif isinstance(s, ast.Import):
            for a in s.names:
                nm = (a.asname or a.name.split(".")[0])
                target = a.name if a.asname else a.name.split(".")[0]
                fr.vars[nm] = ModVal(self.pm.modules[target]) if target in self.pm.modules else self.ext(target)
        elif isinstance(s, ast.ImportFrom):
            mi = self.pm.modules.get(fr.module)
            base = self.pm._resolve_from(mi, s) if mi is not None else (s.module or "")
            for a in s.names:
                nm = a.asname or a.name
                if f"{base}.{a.name}" in self.pm.modules:
                    fr.vars[nm] = ModVal(self.pm.modules[f"{base}.{a.name}"])
                elif base in self.pm.modules:
                    fr.vars[nm] = self.global_name(base, a.name)
                else:
                    fr.vars[nm] = self.ext(f"{base}.{a.name}")
        elif isinstance(s, ast.Delete):
            for t in s.targets:
                if isinstance(t, ast.Name):
                    fr.vars.pop(t.id, None)
                elif isinstance(t, ast.Subscript):
                    self.native(_operator.delitem, self.ev(t.value, fr), self.ev_slice(t.slice, fr))
                elif isinstance(t, ast.Attribute):
                    o = self.ev(t.value, fr)
                    if isinstance(o, Obj):
                        o.attrs.pop(t.attr, None)
                    else:
                        raise Unsupported("del of attribute")
        elif isinstance(s, ast.Match):
            subj = self.ev(s.subject, fr)
            for case in s.cases:
                if self.match_pattern(case.pattern, subj, fr) and (case.guard is None or self.truth(self.ev(case.guard, fr))):
                    yield from self.block(case.body, fr)
                    break
        else:
            raise Unsupported("statement " + type(s).__name__)

    def do_yield(self, y, fr):
        if isinstance(y, ast.YieldFrom):
            r = yield from self.iterate(self.ev(y.value, fr))
            return r
        v = self.ev(y.value, fr) if y.value is not None else None
        sent = yield v
        return sent

    def do_try(self, s, fr):
        try:
            try:
                yield from self.block(s.body, fr)
            except PyExc as e:
                names = self.exc_names(e.val)
                for h in s.handlers:
                    if h.type is None:
                        ok = True
                    else:
                        t = self.ev(h.type, fr)
                        ts = t if isinstance(t, tuple) else (t,)
                        ok = False
                        for x in ts:
                            if isinstance(x, (ClassVal, BuiltinExc)):
                                ok = ok or x.name in names
                            elif isinstance(x, _OPQ):
                                ok = ok or self.choose(f"except {x!r} catches {names[0]}")
                            else:
                                raise Unsupported("except clause type " + repr(x))
                    if ok:
                        if h.name:
                            fr.vars[h.name] = e.val
                        self.exc_stack.append(e.val)
                        try:
                            yield from self.block(h.body, fr)
                        finally:
                            self.exc_stack.pop()
                        break
                else:
                    raise
            else:
                yield from self.block(s.orelse, fr)
        finally:
            if s.finalbody:
                # a return/raise inside finally replaces the pending outcome, as in Python
                for _ in self.block(s.finalbody, fr):
                    raise Unsupported("yield inside finally")

    def do_with(self, s, i, fr):
        if i == len(s.items):
            yield from self.block(s.body, fr)
            return
        item = s.items[i]
        cm = self.ev(item.context_expr, fr)
        val = self.cm_enter(cm)
        if item.optional_vars is not None:
            self.assign(item.optional_vars, val, fr)
        try:
            yield from self.do_with(s, i + 1, fr)
        except PyExc as e:
            if not self.cm_exit(cm, e.val):
                raise
        except (_Return, _Break, _Continue):
            self.cm_exit(cm, None)
            raise
        else:
            self.cm_exit(cm, None)

    def cm_enter(self, cm):
        if isinstance(cm, GenCM):
            try:
                return next(cm.gen)
            except StopIteration:
                self.throw("RuntimeError", "generator didn't yield")
        if isinstance(cm, Obj):
            m = self.find_method(cm, "__enter__")
            if m is None:
                self.throw("TypeError", "object does not support the context manager protocol")
            return self.call(m, [], {})
        if isinstance(cm, _OPQ):
            if self.lenient:
                return Unknown(f"{cm!r}.__enter__()")
            raise Unsupported(f"with over unmodelled {cm!r}")
        if hasattr(cm, "__enter__"):
            return cm.__enter__()
        self.throw("TypeError", f"'{type(cm).__name__}' object does not support the context manager protocol")

    def cm_exit(self, cm, exc):
        """returns True if the exception is swallowed"""
        if isinstance(cm, GenCM):
            if exc is None:
                try:
                    next(cm.gen)
                except StopIteration:
                    return False
                self.throw("RuntimeError", "generator didn't stop")
            try:
                cm.gen.throw(PyExc(exc))
            except StopIteration:
                return True
            except PyExc as e2:
                if e2.val is exc:
                    return False
                raise
            self.throw("RuntimeError", "generator didn't stop after throw()")
        if isinstance(cm, Obj):
            m = self.find_method(cm, "__exit__")
            a = [None, None, None] if exc is None else [exc.cls, exc, None]
            return bool(self.truth(self.call(m, a, {}))) if m is not None else False
        if isinstance(cm, _OPQ):
            return False
        a = (None, None, None) if exc is None else (exc.cls, exc, None)
        return bool(cm.__exit__(*a))

    def match_pattern(self, p, v, fr):
        if isinstance(p, ast.MatchValue):
            return self.compare(ast.Eq(), v, self.ev(p.value, fr))
        if isinstance(p, ast.MatchSingleton):
            return v is p.value
        if isinstance(p, ast.MatchOr):
            return any(self.match_pattern(x, v, fr) for x in p.patterns)
        if isinstance(p, ast.MatchAs):
            if p.pattern is not None and not self.match_pattern(p.pattern, v, fr):
                return False
            if p.name:
                fr.vars[p.name] = v
            return True
        if isinstance(p, ast.MatchSequence) and isinstance(v, (list, tuple)) and not any(isinstance(x, ast.MatchStar) for x in p.patterns):
            return len(v) == len(p.patterns) and all(self.match_pattern(x, y, fr) for x, y in zip(p.patterns, v))
        raise Unsupported("match pattern " + type(p).__name__)

    def iterate(self, v):
        if isinstance(v, ClassVal) and self.is_enum(v):
            return iter(list(self.enum_members(v).values()))
        if isinstance(v, Obj):
            m = self.find_method(v, "__iter__")
            if m is None:
                self.throw("TypeError", f"'{v.cls.name}' object is not iterable")
            return self.iterate(self.call(m, [], {}))
        if isinstance(v, _OPQ):
            raise Unsupported(f"iteration over unknown value {v!r}")
        try:
            return iter(v)
        except TypeError:
            self.throw("TypeError", f"'{type(v).__name__}' object is not iterable")

    def assign(self, t, v, fr):
        if isinstance(t, ast.Name):
            f = fr
            if t.id in fr.outer_names:
                f = fr.parent
                while f is not None and t.id not in f.vars:
                    f = f.parent
                f = f or fr
            f.vars[t.id] = v
        elif isinstance(t, (ast.Tuple, ast.List)):
            if isinstance(v, _OPQ):
                for i, e in enumerate(t.elts):
                    self.assign(e.value if isinstance(e, ast.Starred) else e, Unknown(f"{v!r}[{i}]"), fr)
                return
            vals = list(self.iterate(v))
            star = [i for i, e in enumerate(t.elts) if isinstance(e, ast.Starred)]
            if star:
                i = star[0]
                after = len(t.elts) - i - 1
                if len(vals) < len(t.elts) - 1:
                    self.throw("ValueError", "not enough values to unpack")
                for e, x in zip(t.elts[:i], vals[:i]):
                    self.assign(e, x, fr)
                self.assign(t.elts[i].value, vals[i:len(vals) - after], fr)
                for e, x in zip(t.elts[i + 1:], vals[len(vals) - after:]):
                    self.assign(e, x, fr)
            else:
                if len(vals) != len(t.elts):
                    self.throw("ValueError", f"cannot unpack {len(vals)} values into {len(t.elts)} targets")
                for e, x in zip(t.elts, vals):
                    self.assign(e, x, fr)
        elif isinstance(t, ast.Attribute):
            self.setattr(self.ev(t.value, fr), t.attr, v)
        elif isinstance(t, ast.Subscript):
            base = self.ev(t.value, fr)
            k = self.ev_slice(t.slice, fr)
            if isinstance(base, Obj):
                m = self.find_method(base, "__setitem__")
                if m is None:
                    self.throw("TypeError", "object does not support item assignment")
                self.call(m, [k, v], {})
            elif isinstance(base, _OPQ):
                raise Unsupported(f"item store on {base!r}")
            else:
                self.native(_operator.setitem, base, k, v)
        elif isinstance(t, ast.Starred):
            self.assign(t.value, v, fr)
        else:
            raise Unsupported("assignment target " + type(t).__name__)

    # ------------------------------------------------------------------ expressions
    def ev(self, n, fr):
        m = getattr(self, "ev_" + type(n).__name__, None)
        if m is None:
            raise Unsupported("expression " + type(n).__name__)
        return m(n, fr)

    def ev_Constant(self, n, fr):
        return n.value

    def ev_Name(self, n, fr):
        return self.lookup(n.id, fr)

    def ev_Attribute(self, n, fr):
        return self.getattr(self.ev(n.value, fr), n.attr)

    def ev_slice(self, s, fr):
        if isinstance(s, ast.Slice):
            return slice(*(self.ev(x, fr) if x is not None else None for x in (s.lower, s.upper, s.step)))
        return self.ev(s, fr)

    def ev_Slice(self, n, fr):
        return self.ev_slice(n, fr)

    def ev_Subscript(self, n, fr):
        base = self.ev(n.value, fr)
        k = self.ev_slice(n.slice, fr)
        return self.getitem(base, k)

    def getitem(self, base, k):
        if isinstance(base, Obj):
            m = self.find_method(base, "__getitem__")
            if m is None:
                self.throw("TypeError", f"'{base.cls.name if base.cls else 'namespace'}' object is not subscriptable")
            return self.call(m, [k], {})
        if isinstance(base, _OPQ):
            return Unknown(f"{base!r}[{k!r}]")
        if isinstance(base, ClassVal) and self.is_enum(base):
            ms = self.enum_members(base)
            if k not in ms:
                self.throw("KeyError", k)
            return ms[k]
        if isinstance(base, (ClassVal, BuiltinExc)):
            return base                                   # generic alias C[T]
        k = self.enum_plain(k)
        if isinstance(k, _OPQ) or (isinstance(k, slice) and any(isinstance(x, _OPQ) for x in (k.start, k.stop, k.step))):
            return Unknown(f"…[{k!r}]")
        return self.native(_operator.getitem, base, k)

    def ev_BoolOp(self, n, fr):
        v = None
        for e in n.values:
            v = self.ev(e, fr)
            t = self.truth(v)
            if isinstance(n.op, ast.And) and not t:
                return v
            if isinstance(n.op, ast.Or) and t:
                return v
        return v

    def ev_UnaryOp(self, n, fr):
        v = self.ev(n.operand, fr)
        if isinstance(n.op, ast.Not):
            return not self.truth(v)
        if isinstance(v, _OPQ):
            return Unknown(f"-{v!r}")
        return self.native({ast.USub: _operator.neg, ast.UAdd: _operator.pos, ast.Invert: _operator.invert}[type(n.op)], v)

    def ev_BinOp(self, n, fr):
        return self.binop(n.op, self.ev(n.left, fr), self.ev(n.right, fr))

    def binop(self, op, l, r):
        if isinstance(op, ast.BitOr) and any(isinstance(x, (ClassVal, BuiltinExc, _OPQ)) or x is None for x in (l, r)) \
                and all(isinstance(x, (ClassVal, BuiltinExc, type, tuple, _OPQ)) or x is None for x in (l, r)):
            flat = []
            for x in (l, r):
                flat.extend(x if isinstance(x, tuple) else [type(None) if x is None else x])
            return tuple(flat)                            # X | Y used as a type union
        if isinstance(l, _OPQ) or isinstance(r, _OPQ):
            return Unknown(f"({l!r} {type(op).__name__} {r!r})")
        if isinstance(l, Obj) or isinstance(r, Obj):
            nm = {ast.Add: "add", ast.Sub: "sub", ast.Mult: "mul", ast.Div: "truediv", ast.Mod: "mod", ast.FloorDiv: "floordiv"}.get(type(op))
            if nm and isinstance(l, Obj) and self.find_method(l, f"__{nm}__"):
                return self.call(self.find_method(l, f"__{nm}__"), [r], {})
            if nm and isinstance(r, Obj) and self.find_method(r, f"__r{nm}__"):
                return self.call(self.find_method(r, f"__r{nm}__"), [l], {})
            if isinstance(op, ast.Mod) and isinstance(l, str):
                return self.native(_operator.mod, l, self.fmt(r))
            self.throw("TypeError", "unsupported operand type(s)")
        return self.native(_BINOPS[type(op)], l, r)

    def ev_Compare(self, n, fr):
        left = self.ev(n.left, fr)
        for op, rn in zip(n.ops, n.comparators):
            right = self.ev(rn, fr)
            if not self.compare(op, left, right):
                return False
            left = right
        return True

    def compare(self, op, l, r):
        if isinstance(op, (ast.Is, ast.IsNot)):
            if (isinstance(l, _OPQ) or isinstance(r, _OPQ)) and l is not r:
                if any(x is None or isinstance(x, (bool, int, str)) for x in (l, r)):
                    res = self.choose(f"{l!r} is {r!r}")
                    return res if isinstance(op, ast.Is) else not res
            return (l is r) if isinstance(op, ast.Is) else (l is not r)
        if isinstance(op, (ast.In, ast.NotIn)):
            res = self.contains(r, l)
            return res if isinstance(op, ast.In) else not res
        if l is not r:
            l, r = self.enum_plain(l), self.enum_plain(r)
        if isinstance(l, _OPQ) or isinstance(r, _OPQ):
            if l is r and isinstance(op, (ast.Eq, ast.NotEq)):
                return isinstance(op, ast.Eq)
            res = self.choose(f"{l!r} {type(op).__name__} {r!r}")
            return bool(res)
        if isinstance(l, Obj) or isinstance(r, Obj):
            nm = {ast.Eq: "__eq__", ast.NotEq: "__ne__", ast.Lt: "__lt__", ast.LtE: "__le__", ast.Gt: "__gt__", ast.GtE: "__ge__"}[type(op)]
            if isinstance(l, Obj) and self.find_method(l, nm):
                return self.truth(self.call(self.find_method(l, nm), [r], {}))
            if isinstance(op, ast.Eq):
                return l is r
            if isinstance(op, ast.NotEq):
                return l is not r
            self.throw("TypeError", "ordering of objects not supported")
        return bool(self.native(_CMPOPS[type(op)], l, r))

    def contains(self, container, x):
        if isinstance(container, ClassVal) and self.is_enum(container):
            return any(m is x or (not isinstance(x, Obj) and self.compare(ast.Eq(), m.attrs["_value_"], x)) for m in self.enum_members(container).values())
        x = self.enum_plain(x)
        if isinstance(container, Obj):
            m = self.find_method(container, "__contains__")
            if m is not None:
                return self.truth(self.call(m, [x], {}))
            return any(self.compare(ast.Eq(), y, x) for y in self.iterate(container))
        if isinstance(container, _OPQ):
            return self.choose(f"{x!r} in {container!r}")
        if isinstance(x, _OPQ):
            try:
                if len(container) == 0:
                    return False
            except TypeError:
                pass
            return self.choose(f"{x!r} in {_short(container)}")
        if isinstance(x, Obj) and isinstance(container, (list, tuple)):
            return any(y is x for y in container)
        return bool(self.native(_operator.contains, container, x))

    def ev_IfExp(self, n, fr):
        return self.ev(n.body, fr) if self.truth(self.ev(n.test, fr)) else self.ev(n.orelse, fr)

    def ev_List(self, n, fr):
        return list(self.elts(n.elts, fr))

    def ev_Tuple(self, n, fr):
        return tuple(self.elts(n.elts, fr))

    def ev_Set(self, n, fr):
        return self.native(set, self.elts(n.elts, fr))

    def elts(self, es, fr):
        out = []
        for e in es:
            if isinstance(e, ast.Starred):
                out.extend(self.iterate(self.ev(e.value, fr)))
            else:
                out.append(self.ev(e, fr))
        return out

    def ev_Dict(self, n, fr):
        d = {}
        for k, v in zip(n.keys, n.values):
            if k is None:
                self.native(d.update, self.ev(v, fr))
            else:
                self.native(d.__setitem__, self.ev(k, fr), self.ev(v, fr))
        return d

    def ev_JoinedStr(self, n, fr):
        out = []
        for v in n.values:
            if isinstance(v, ast.Constant):
                out.append(str(v.value))
            else:
                out.append(self.ev_FormattedValue(v, fr))
        return "".join(out)

    def ev_FormattedValue(self, n, fr):
        x = self.ev(n.value, fr)
        conv = {-1: None, 115: "s", 114: "r", 97: "a"}[n.conversion]
        spec = self.ev(n.format_spec, fr) if n.format_spec is not None else ""
        return self.fmt(x, conv, spec)

    def ev_Lambda(self, n, fr):
        return Func(self, n, fr.module, fr)

    def ev_NamedExpr(self, n, fr):
        v = self.ev(n.value, fr)
        self.assign(n.target, v, fr)
        return v

    def ev_Starred(self, n, fr):
        raise Unsupported("starred expression")

    def comp(self, gens, fr, emit):
        def rec(i, f):
            if i == len(gens):
                yield emit(f)
                return
            g = gens[i]
            for x in self.iterate(self.ev(g.iter, f)):
                self.tick()
                self.assign(g.target, x, f)
                if all(self.truth(self.ev(c, f)) for c in g.ifs):
                    yield from rec(i + 1, f)
        return rec(0, Frame(fr.module, parent=fr, func=fr.func))

    def ev_ListComp(self, n, fr):
        return list(self.comp(n.generators, fr, lambda f: self.ev(n.elt, f)))

    def ev_SetComp(self, n, fr):
        return self.native(set, list(self.comp(n.generators, fr, lambda f: self.ev(n.elt, f))))

    def ev_GeneratorExp(self, n, fr):
        return self.comp(n.generators, fr, lambda f: self.ev(n.elt, f))

    def ev_DictComp(self, n, fr):
        d = {}
        for k, v in self.comp(n.generators, fr, lambda f: (self.ev(n.key, f), self.ev(n.value, f))):
            self.native(d.__setitem__, k, v)
        return d

    def ev_Call(self, n, fr):
        if isinstance(n.func, ast.Name) and n.func.id == "super" and not n.args:
            f = fr
            while f is not None and (f.func is None or f.func.cls is None):
                f = f.parent
            if f is None:
                raise Unsupported("super() outside a method")
            first = (list(f.func.node.args.posonlyargs) + list(f.func.node.args.args))[0].arg
            return SuperProxy(f.vars[first], f.func.cls)
        f = self.ev(n.func, fr)
        args = self.elts(n.args, fr)
        kwargs = {}
        for k in n.keywords:
            if k.arg is None:
                d = self.ev(k.value, fr)
                if not isinstance(d, dict):
                    raise Unsupported("** of a non-dict")
                kwargs.update(d)
            else:
                kwargs[k.arg] = self.ev(k.value, fr)
        if not self.in_definition:
            self.before_call(n, f, args, kwargs)
        return self.call(f, args, kwargs, node=n)


def _load(t):
    t2 = _copy.copy(t)
    t2.ctx = ast.Load()
    return t2


def _short(v):
    s = repr(v)
    return s if len(s) < 60 else s[:57] + "..."


def interp_pm(pm):
    """program model the interpretation rules run on: the default (normalised) model, the same one every other property uses.
    VERIF_INTERP_RAW=1 selects the tree exactly as written (no normalisation) as a cross-check: the interpreter follows helper
    calls, constants and closures by itself and does not need normalisation."""
    import os
    if os.environ.get("VERIF_INTERP_RAW") != "1":
        return pm
    cached = getattr(pm, "_raw_pm", None)
    if cached is not None:
        return cached
    from ..pm import PM
    old = {k: os.environ.get(k) for k in ("VERIF_NO_NORMALISE", "VERIF_NO_ALPHA")}
    os.environ["VERIF_NO_NORMALISE"] = os.environ["VERIF_NO_ALPHA"] = "1"
    try:
        raw = PM(pm.root)
    finally:
        for k, v in old.items():
            if v is None:
                os.environ.pop(k, None)
            else:
                os.environ[k] = v
    pm._raw_pm = raw
    return raw




METHOD = ("abstract evaluation of the function's syntax tree by a purpose-built interpreter (sa/rules/c17.py): nothing of the analysed "
          "repository is imported, exec'd or eval'd by Python; the outside world (files, paths, temporary directories, converter, font "
          "loader, pydantic) is replaced by in-memory models; values from unmodelled externals are opaque unknowns, a condition on an "
          "unknown forks the run and ALL valuations of the unknowns consulted are enumerated (more than the stated limit -> analysis gap); "
          "data is concrete model data (sample strings, model file contents); a construct outside the interpreted subset is an analysis "
          "gap (exit 2), never a violation")


def cover(ctx, **kv):
    """record what the interpretation covered in the evidence file (coverage.interpretation)"""
    import os
    d = ctx.extra.setdefault("interpretation", {"engine": "syntax-tree interpreter over model values (sa/rules/c17.py)",
                                                "program_model": "as written (VERIF_INTERP_RAW=1)" if os.environ.get("VERIF_INTERP_RAW") == "1" else "normalised (default PM)",
                                                "repository_code_imported_or_executed": False, "file_system": "in-memory model only"})
    for k, v in kv.items():
        if isinstance(v, int) and not isinstance(v, bool) and isinstance(d.get(k, 0), int):
            d[k] = d.get(k, 0) + v
        else:
            d[k] = v


def run_valuations(make, limit=48):
    """make() -> (interp, thunk, world): a fresh model world per run; the thunk is run under every valuation of the unknown
    conditions it consults -> [(valuation, outcome, world)]"""
    out, pending, n = [], [dict()], 0
    while pending:
        v = pending.pop()
        n += 1
        if n > limit:
            raise Unsupported(f"more than {limit} combinations of unknown conditions")
        it, thunk, world = make()
        it.valuation = v
        try:
            out.append((v, it.outcome(thunk), world))
        except NeedChoice as e:
            pending.extend({**v, e.key: x} for x in e.domain)
    return out
# ================================================================================================
# File-system model used with the interpreter (assemble_rtf, the export writers): an in-memory tree with
# an event log, model paths, file objects, temporary directories, shutil/os functions, ExitStack.
# ================================================================================================
import posixpath as _pp


class _Model:
    """model objects fail closed: an attribute the model does not provide is an analysis gap"""

    def __getattr__(self, name):
        if name.startswith("__") and name.endswith("__"):
            raise AttributeError(name)
        raise Unsupported(f"the {type(self).__name__} model has no attribute '{name}'")


class FS:
    def __init__(self, it, files=None, dirs=("/", "/tmp", "/work", "/home/user")):
        self.it = it
        self.files = dict(files or {})
        self.dirs = set(dirs)
        self.events = []
        self.ntemp = 0
        self.temp_created = []
        self.cwd = "/work"
        self.Path = type("Path", (MPath,), {"fs": self})
        for p in list(self.files):
            self._mkparents(p)

    # ---- helpers
    def norm(self, p):
        if isinstance(p, MPath):
            p = p.s
        if isinstance(p, (Unknown, ExtRef)):
            raise Unsupported(f"file-system operation on an unknown path {p!r}")
        if isinstance(p, bytes):
            p = p.decode()
        if not isinstance(p, str):
            self.it.throw("TypeError", f"expected str, bytes or os.PathLike object, not {type(p).__name__}")
        if p.startswith("~"):
            pass
        return _pp.normpath(_pp.join(self.cwd, p))

    def _mkparents(self, p):
        d = _pp.dirname(p)
        while d and d not in self.dirs:
            self.dirs.add(d)
            d = _pp.dirname(d)

    def log(self, *e):
        self.events.append(e)

    def exists(self, p):
        p = self.norm(p)
        return p in self.files or p in self.dirs

    def isfile(self, p):
        return self.norm(p) in self.files

    def isdir(self, p):
        return self.norm(p) in self.dirs

    def snapshot(self):
        return dict(self.files), set(self.dirs)

    def tree(self, d):
        d = self.norm(d)
        pre = d.rstrip("/") + "/"
        return [f for f in self.files if f.startswith(pre)], [x for x in self.dirs if x.startswith(pre)]

    # ---- primitive operations
    def open(self, file, mode="r", *a, **k):
        if a:
            k.setdefault("buffering", a[0])
        return FileObj(self, self.norm(file), mode)

    def write_file(self, p, data, how="write"):
        p = self.norm(p)
        if p in self.dirs:
            self.it.throw("IsADirectoryError", p)
        if _pp.dirname(p) not in self.dirs:
            self.it.throw("FileNotFoundError", f"No such file or directory: '{p}'")
        self.log(how, p)
        self.files[p] = data

    def remove(self, p, *a, **k):
        p = self.norm(p)
        if p not in self.files:
            self.it.throw("FileNotFoundError" if p not in self.dirs else "IsADirectoryError", p)
        self.log("delete", p)
        del self.files[p]

    def mkdir(self, p, mode=0o777, parents=False, exist_ok=False):
        p = self.norm(p)
        if p in self.dirs or p in self.files:
            if exist_ok and p in self.dirs:
                return
            self.it.throw("FileExistsError", p)
        if _pp.dirname(p) not in self.dirs:
            if not parents:
                self.it.throw("FileNotFoundError", p)
            self.mkdir(_pp.dirname(p), parents=True, exist_ok=True)
        self.log("mkdir", p)
        self.dirs.add(p)

    def makedirs(self, p, mode=0o777, exist_ok=False):
        self.mkdir(p, parents=True, exist_ok=exist_ok)

    def rmdir(self, p):
        p = self.norm(p)
        if p not in self.dirs:
            self.it.throw("FileNotFoundError", p)
        fs, ds = self.tree(p)
        if fs or ds:
            self.it.throw("OSError", "Directory not empty")
        self.log("rmdir", p)
        self.dirs.discard(p)

    def rmtree(self, p, ignore_errors=False, *a, **k):
        p = self.norm(p)
        if p not in self.dirs:
            if ignore_errors:
                return
            self.it.throw("FileNotFoundError", p)
        fs, ds = self.tree(p)
        for f in fs:
            del self.files[f]
        for d in ds:
            self.dirs.discard(d)
        self.dirs.discard(p)
        self.log("rmtree", p)

    def move(self, src, dst, *a, **k):
        s, d = self.norm(src), self.norm(dst)
        if s not in self.files and s not in self.dirs:
            self.it.throw("FileNotFoundError", f"No such file or directory: '{s}'")
        if d in self.dirs:
            d = _pp.join(d, _pp.basename(s))
            if d in self.files or d in self.dirs:
                self.it.throw("OSError", f"Destination path '{d}' already exists")
        if _pp.dirname(d) not in self.dirs:
            self.it.throw("FileNotFoundError", f"No such file or directory: '{d}'")
        self.log("move", s, d)
        if s in self.files:
            self.files[d] = self.files.pop(s)
        else:
            fs, ds = self.tree(s)
            for f in fs:
                self.files[d + f[len(s):]] = self.files.pop(f)
            for x in ds:
                self.dirs.discard(x)
                self.dirs.add(d + x[len(s):])
            self.dirs.discard(s)
            self.dirs.add(d)
        return dst if not isinstance(dst, MPath) else d

    def rename(self, src, dst, *a, **k):
        s, d = self.norm(src), self.norm(dst)
        if s not in self.files and s not in self.dirs:
            self.it.throw("FileNotFoundError", s)
        if _pp.dirname(d) not in self.dirs:
            self.it.throw("FileNotFoundError", d)
        self.log("move", s, d)
        if s in self.files:
            self.files[d] = self.files.pop(s)
        else:
            self.move(s, d)

    def copyfile(self, src, dst, *a, **k):
        s, d = self.norm(src), self.norm(dst)
        if s not in self.files:
            self.it.throw("FileNotFoundError", s)
        if d in self.dirs:
            d = _pp.join(d, _pp.basename(s))
        self.write_file(d, self.files[s], "copy")
        return dst

    def listdir(self, p="."):
        p = self.norm(p)
        if p not in self.dirs:
            self.it.throw("FileNotFoundError", p)
        pre = p.rstrip("/") + "/"
        return sorted({x[len(pre):].split("/")[0] for x in list(self.files) + list(self.dirs) if x.startswith(pre)})

    def getsize(self, p):
        p = self.norm(p)
        if p not in self.files:
            self.it.throw("FileNotFoundError", p)
        return len(self.files[p])

    def mkdtemp(self, *a, **k):
        self.ntemp += 1
        d = f"/tmp/{k.get('prefix') or 'tmp'}{self.ntemp:04d}"
        self.dirs.add(d)
        self.temp_created.append(d)
        self.log("mkdtemp", d)
        return d

    def fspath(self, p):
        if isinstance(p, MPath):
            return p.s
        if isinstance(p, (str, bytes)):
            return p
        self.it.throw("TypeError", "expected str, bytes or os.PathLike object")

    def externals(self):
        """the external names this model provides"""
        fs = self
        ident = lambda p, *a, **k: p
        ext = {
            "builtins.open": fs.open, "io.open": fs.open, "codecs.open": fs.open, "pathlib.Path": fs.Path, "pathlib.PurePath": fs.Path, "pathlib.PosixPath": fs.Path,
            "os.path.exists": fs.exists, "os.path.lexists": fs.exists, "os.path.isfile": fs.isfile, "os.path.isdir": fs.isdir,
            "os.path.getsize": fs.getsize, "os.path.expanduser": ident, "os.path.abspath": fs.norm, "os.path.realpath": fs.norm,
            "os.remove": fs.remove, "os.unlink": fs.remove, "os.rename": fs.rename, "os.replace": fs.rename, "os.mkdir": fs.mkdir,
            "os.makedirs": fs.makedirs, "os.rmdir": fs.rmdir, "os.listdir": fs.listdir, "os.fspath": fs.fspath, "os.getcwd": lambda: fs.cwd,
            "os.PathLike": fs.Path, "os.sep": "/", "os.linesep": "\n",
            "shutil.move": fs.move, "shutil.copy": fs.copyfile, "shutil.copy2": fs.copyfile, "shutil.copyfile": fs.copyfile,
            "shutil.rmtree": fs.rmtree,
            "tempfile.TemporaryDirectory": lambda *a, **k: TempDir(fs, *a, **k), "tempfile.mkdtemp": fs.mkdtemp,
            "tempfile.gettempdir": lambda: "/tmp",
            "tempfile.NamedTemporaryFile": lambda *a, **k: NamedTemp(fs, *a, **k),
            "tempfile.mkstemp": lambda *a, **k: NamedTemp(fs, *a, delete=False, **k).as_mkstemp(),
            "contextlib.ExitStack": lambda: ExitStackModel(fs.it), "contextlib.nullcontext": lambda v=None: NullCM(v),
            "contextlib.suppress": lambda *t: Suppress(fs.it, t), "contextlib.closing": lambda v: NullCM(v),
        }
        return ext


class FileObj(_Model):
    def __init__(self, fs, path, mode="r"):
        self.fs, self.path, self.mode, self.closed = fs, path, str(mode), False
        self.binary = "b" in self.mode
        self.name = path
        if not any(c in self.mode for c in "wax+"):
            if path in fs.dirs:
                fs.it.throw("IsADirectoryError", path)
            if path not in fs.files:
                fs.it.throw("FileNotFoundError", f"No such file or directory: '{path}'")
            fs.log("read", path)
            self.pos = 0
        else:
            if "x" in self.mode and path in fs.files:
                fs.it.throw("FileExistsError", path)
            if "w" in self.mode or "x" in self.mode:
                fs.write_file(path, b"" if self.binary else "", "truncate" if path in fs.files else "create")
            elif path not in fs.files:
                if "r" in self.mode:
                    fs.it.throw("FileNotFoundError", path)
                fs.write_file(path, b"" if self.binary else "", "create")
            self.pos = len(fs.files[path]) if "a" in self.mode else 0

    def _check(self):
        if self.closed:
            self.fs.it.throw("ValueError", "I/O operation on closed file.")

    def _data(self):
        if self.path not in self.fs.files:
            self.fs.it.throw("FileNotFoundError", self.path)
        return self.fs.files[self.path]

    def read(self, n=-1):
        self._check()
        d = self._data()
        out = d[self.pos:] if n is None or n < 0 else d[self.pos:self.pos + n]
        self.pos += len(out)
        return out

    def readlines(self, hint=-1):
        return self.read().splitlines(keepends=True)

    def readline(self, *a):
        self._check()
        rest = self._data()[self.pos:]
        ls = rest.splitlines(keepends=True)
        out = ls[0] if ls else rest[:0]
        self.pos += len(out)
        return out

    def __iter__(self):
        return iter(self.readlines())

    def write(self, s):
        self._check()
        if not any(c in self.mode for c in "wax+"):
            self.fs.it.throw("OSError", "not writable")
        if isinstance(s, (Unknown, ExtRef)):
            raise Unsupported("writing an unknown value to a file")
        if not isinstance(s, bytes if self.binary else str):
            self.fs.it.throw("TypeError", f"write() argument must be {'bytes' if self.binary else 'str'}, not {type(s).__name__}")
        d = self._data()
        self.fs.log("write", self.path)
        self.fs.files[self.path] = d[:self.pos] + s + d[self.pos + len(s):]
        self.pos += len(s)
        return len(s)

    def writelines(self, lines):
        for ln in self.fs.it.iterate(lines):
            self.write(ln)

    def flush(self):
        return None

    def seek(self, pos, whence=0):
        self.pos = pos if whence == 0 else (self.pos + pos if whence == 1 else len(self._data()) + pos)
        return self.pos

    def tell(self):
        return self.pos

    def truncate(self, size=None):
        self.fs.files[self.path] = self._data()[:self.pos if size is None else size]

    def close(self):
        self.closed = True

    def __enter__(self):
        return self

    def __exit__(self, *a):
        self.closed = True
        return False


class MPath(_Model):
    fs = None

    def __init__(self, *parts):
        ps = []
        for p in parts:
            if isinstance(p, MPath):
                ps.append(p.s)
            elif isinstance(p, str):
                ps.append(p)
            elif isinstance(p, (Unknown, ExtRef)):
                raise Unsupported(f"path built from an unknown value {p!r}")
            else:
                self.fs.it.throw("TypeError", f"expected str, bytes or os.PathLike object, not {type(p).__name__}")
        self.s = _pp.join(*ps) if ps else "."
        if len(self.s) > 1:
            self.s = self.s.rstrip("/") or "/"

    def _new(self, s):
        return type(self)(s)

    def __str__(self):
        return self.s

    def __repr__(self):
        return f"Path({self.s!r})"

    def __fspath__(self):
        return self.s

    def __format__(self, spec):
        return format(self.s, spec)

    def __eq__(self, o):
        return isinstance(o, MPath) and o.s == self.s

    def __hash__(self):
        return hash(("MPath", self.s))

    def __lt__(self, o):
        return self.s < o.s

    def __truediv__(self, o):
        return type(self)(self.s, o)

    def __rtruediv__(self, o):
        return type(self)(o, self.s)

    def __deepcopy__(self, memo):
        return self

    @property
    def parent(self):
        return self._new(_pp.dirname(self.s) or ".")

    @property
    def parents(self):
        out, p = [], self
        while p.parent.s != p.s:
            p = p.parent
            out.append(p)
        return tuple(out)

    @property
    def name(self):
        return _pp.basename(self.s)

    @property
    def suffix(self):
        n = self.name
        i = n.rfind(".")
        return n[i:] if 0 < i < len(n) - 1 else ""

    @property
    def suffixes(self):
        n = self.name.lstrip(".")
        return ["." + x for x in n.split(".")[1:]]

    @property
    def stem(self):
        n = self.name
        i = n.rfind(".")
        return n[:i] if 0 < i < len(n) - 1 else n

    @property
    def parts(self):
        return tuple((["/"] if self.s.startswith("/") else []) + [x for x in self.s.split("/") if x])

    def with_name(self, name):
        return self._new(_pp.join(_pp.dirname(self.s), name))

    def with_suffix(self, suffix):
        return self.with_name(self.stem + suffix)

    def with_stem(self, stem):
        return self.with_name(stem + self.suffix)

    def joinpath(self, *o):
        return type(self)(self.s, *o)

    def expanduser(self):
        return self

    def resolve(self, strict=False):
        return self._new(self.fs.norm(self.s))

    def absolute(self):
        return self._new(self.fs.norm(self.s))

    def is_absolute(self):
        return self.s.startswith("/")

    def as_posix(self):
        return self.s

    def exists(self):
        return self.fs.exists(self.s)

    def is_file(self):
        return self.fs.isfile(self.s)

    def is_dir(self):
        return self.fs.isdir(self.s)

    def open(self, mode="r", *a, **k):
        return self.fs.open(self.s, mode)

    def read_text(self, *a, **k):
        with self.fs.open(self.s, "r") as f:
            return f.read()

    def read_bytes(self):
        with self.fs.open(self.s, "rb") as f:
            return f.read()

    def write_text(self, data, *a, **k):
        if not isinstance(data, str):
            if isinstance(data, (Unknown, ExtRef)):
                raise Unsupported("writing an unknown value to a file")
            self.fs.it.throw("TypeError", f"data must be str, not {type(data).__name__}")
        with self.fs.open(self.s, "w") as f:
            return f.write(data)

    def write_bytes(self, data):
        with self.fs.open(self.s, "wb") as f:
            return f.write(data)

    def touch(self, mode=0o666, exist_ok=True):
        if not self.exists():
            self.fs.write_file(self.s, "", "create")
        elif not exist_ok:
            self.fs.it.throw("FileExistsError", self.s)

    def mkdir(self, mode=0o777, parents=False, exist_ok=False):
        self.fs.mkdir(self.s, mode, parents, exist_ok)

    def unlink(self, missing_ok=False):
        if missing_ok and not self.fs.isfile(self.s):
            return
        self.fs.remove(self.s)

    def rmdir(self):
        self.fs.rmdir(self.s)

    def rename(self, target):
        self.fs.rename(self.s, target)
        return self._new(self.fs.fspath(target))

    replace = rename

    def iterdir(self):
        return iter([self / n for n in self.fs.listdir(self.s)])

    def stat(self):
        raise Unsupported("Path.stat is not modelled")


class TempDir(_Model):
    def __init__(self, fs, *a, **k):
        self.fs = fs
        self.name = fs.mkdtemp(prefix=k.get("prefix"))
        self.managed = True

    def cleanup(self):
        if self.name in self.fs.dirs:
            self.fs.rmtree(self.name)

    def __enter__(self):
        return self.name

    def __exit__(self, *a):
        self.cleanup()
        return False


class NamedTemp(FileObj):
    def __init__(self, fs, mode="w+b", *a, delete=True, **k):
        fs.ntemp += 1
        self.delete = delete
        path = f"/tmp/{k.get('prefix') or 'tmp'}{fs.ntemp:04d}{k.get('suffix') or ''}"
        if k.get("dir") is not None:
            path = _pp.join(fs.norm(k["dir"]), _pp.basename(path))
        fs.temp_created.append(path)
        FileObj.__init__(self, fs, path, mode if isinstance(mode, str) else "w+b")

    def as_mkstemp(self):
        return (Unknown("fd"), self.path)

    def close(self):
        self.closed = True
        if self.delete and self.path in self.fs.files:
            self.fs.remove(self.path)

    def __exit__(self, *a):
        self.close()
        return False


class NullCM(_Model):
    def __init__(self, v=None):
        self.v = v

    def __enter__(self):
        return self.v

    def __exit__(self, *a):
        return False


class Suppress(_Model):
    def __init__(self, it, types):
        self.it, self.types = it, types

    def __enter__(self):
        return None

    def __exit__(self, t, v, tb):
        return v is not None and any(getattr(x, "name", None) in self.it.exc_names(v) for x in self.types)


class ExitStackModel(_Model):
    def __init__(self, it):
        self.it, self.stack = it, []

    def enter_context(self, cm):
        v = self.it.cm_enter(cm)
        self.stack.append(("cm", cm))
        return v

    def callback(self, f, *a, **k):
        self.stack.append(("cb", (f, a, k)))
        return f

    def push(self, ex):
        self.stack.append(("exit", ex))
        return ex

    def pop_all(self):
        n = ExitStackModel(self.it)
        n.stack, self.stack = self.stack, []
        return n

    def close(self):
        self.__exit__(None, None, None)

    def __enter__(self):
        return self

    def __exit__(self, t, v, tb):
        exc, swallowed = v, False
        while self.stack:
            kind, x = self.stack.pop()
            try:
                if kind == "cm":
                    if self.it.cm_exit(x, exc) and exc is not None:
                        exc, swallowed = None, True
                elif kind == "cb":
                    self.it.call(x[0], list(x[1]), dict(x[2]))
                else:
                    a = [None, None, None] if exc is None else [exc.cls, exc, None]
                    if self.it.truth(self.it.call(x, a, {})) and exc is not None:
                        exc, swallowed = None, True
            except PyExc as e:
                exc, swallowed = e.val, False
        if exc is not None and exc is not v:
            raise PyExc(exc)
        return swallowed and v is not None
# ================================================================================================
# C17 rules
# ================================================================================================
_SEP_RE = _re.compile(r"\\page(?![a-zA-Z])[^\n]*\n")
_ARTEFACT_EXC = {"TypeError", "AttributeError", "NameError", "NotImplementedError", "RecursionError"}


def is_artefact(exc) -> bool:
    """an exception that was produced by the interpreter / a model (not by a `raise` statement) and whose type suggests that a
    model value was used in a way the model does not support: not evidence about the analysed code"""
    return isinstance(exc, Obj) and exc.attrs.get("__origin__") == "interp" and exc.cls is not None and exc.cls.mro_names()[0] in _ARTEFACT_EXC


def writer_docs(ctx: Ctx):
    """R17.1, writer side: from the abstract document shape of each encode path take the literal preamble, locate the line
    on which the font-table group closes and build a model document `preamble + tagged body lines + '}'`.
    -> [(label, lines, index of the first body line)]"""
    pm = ctx.pm
    it = make_interp(pm)
    docs = []
    for path in PATHS:
        fi = pm.func(path)
        _, sh = doc_shape(it, pm, path)
        for na, a in enumerate(S.alternatives(sh)):
            items = S.items_of(a)
            if a == S.EPS:
                continue
            if not items or not isinstance(items[0], S.Lit):
                ctx.gap("R17.1", f"{path}: the document does not start with a literal preamble (shape {S.show(a, 80)})")
                continue
            pre = items[0].s
            start = pre.find("{\\fonttbl")
            depth, pos_close = 0, None
            for k in range(start, len(pre)) if start >= 0 else ():
                if pre[k] == "{":
                    depth += 1
                elif pre[k] == "}":
                    depth -= 1
                    if depth == 0:
                        pos_close = k
                        break
            if pos_close is None:
                ctx.gap("R17.1", f"{path}: the font table is not a literal part of the preamble (it ends at {pre[-30:]!r}); "
                                 "the line layout written by the encoder cannot be determined")
                continue
            close_line = pre.count("\n", 0, pos_close)
            rest_lit = pre[pos_close + 1:]
            if "\n" in rest_lit:
                same_line_tail = rest_lit.split("\n")[0]
                tail_desc = repr(same_line_tail)
                clean = same_line_tail == ""
            else:
                heads = S.heads(S.seq(*items[1:]), 1)
                clean = rest_lit == "" and heads <= {"\n"}
                tail_desc = repr(rest_lit) + " then " + str(sorted(heads))
            ctx.instance("R17.1", fi.where(), f"{path}: font table closes on line {close_line} of the preamble, body starts on line {close_line + 1}; closing line tail {tail_desc}")
            if not clean:
                ctx.violation("R17.1", path, "font-table closing line carries content", fi.where(),
                              f"{path}: the line that closes the font table can continue with other content ({tail_desc}); "
                              "a line-based reader drops or keeps that whole line for every input but the first")
            tails = S.tails(a, 3)
            bad = [t for t in tails if not t.endswith("\n}")]
            ctx.instance("R17.1", fi.where(), f"{path}: document tails {sorted(tails)}")
            if bad:
                ctx.violation("R17.1", path, "last line " + repr(sorted(bad)[0]), fi.where(),
                              f"{path}: the document does not end with a line consisting of '}}' only ({sorted(bad)[0]!r}); dropping the last line of "
                              "non-final inputs removes content or leaves the group open")
            head = pre[:pos_close + 1].split("\n")
            k = len(docs)
            lines = [ln + "\n" for ln in head] + [f"\\pard body of document {k} line {j}\\par\n" for j in range(2 + k)] + ["\n", "}"]
            docs.append((f"{path.split('.')[-1]}#{na}", lines, close_line + 1, fi))
    return docs


def synthetic_docs():
    """fallback when the writer's layout could not be determined: today's layout (font entries one per line, each with
    \\fcharset, closing brace on its own line), with different preamble lengths"""
    out = []
    for k, (nfont, joined) in enumerate(((10, False), (10, True), (3, False))):
        fonts = [("{\\fonttbl" if i == 0 else "") + f"{{\\f{i}\\froman\\fcharset1\\fprq2 Font{i};}}\n" for i in range(nfont)]
        head = ["{\\rtf1\\ansi\n"] + (["\\deff0\\deflang1033" + fonts[0]] + fonts[1:] if joined else ["\\deff0\\deflang1033\n"] + fonts) + ["}\n"]
        lines = head + [f"\\pard body of document s{k} line {j}\\par\n" for j in range(2 + k)] + ["\n", "}"]
        out.append((f"synthetic#{k}", lines, len(head), None))
    return out


class AssembleRun:
    def __init__(self, pm, files, existing_out=None):
        self.it = Interp(pm)
        fsfiles = dict(files)
        if existing_out is not None:
            fsfiles["/work/out/combined.rtf"] = existing_out
        self.fs = FS(self.it, fsfiles, dirs=("/", "/tmp", "/work", "/work/out", "/work/in"))
        self.it.externals.update(self.fs.externals())
        self.before = self.fs.snapshot()

    def run(self, fi, inputs):
        f = self.it.func_val(fi)
        return self.it.explore(lambda: self.it.call(f, [list(inputs), "/work/out/combined.rtf"], {}))


def _retag(lines, tag):
    return [ln.replace("body of document", f"body of document {tag}/") for ln in lines]


def _first_diff(got, exp):
    for i, (a, b) in enumerate(zip(got, exp)):
        if a != b:
            return f"line {i}: got {a!r}, expected {b!r}"
    return f"got {len(got)} lines, expected {len(exp)}" if len(got) != len(exp) else "equal"


def r17_2(ctx: Ctx, docs) -> None:
    """assemble_rtf is interpreted over model files (an in-memory file system): what it reads, writes and raises is observed"""
    pm = interp_pm(ctx.pm)
    fi = pm.func("assemble_rtf")
    OUT = "/work/out/combined.rtf"
    stats = {"scenarios": 0, "runs": 0, "forks": 0}

    def scenario(label, seq, missing=(), existing_out=None):
        """-> list of (outcome, fs, inputs) per valuation of unknown conditions"""
        files, inputs, parts = {}, [], []
        for n, d in enumerate(seq):
            p = f"/work/in/part{n}.rtf"
            lines = _retag(docs[d][1], f"input{n}")
            inputs.append(p)
            parts.append(lines)
            if n not in missing:
                files[p] = "".join(lines)
        res = []
        # each valuation needs a fresh file system: re-run per valuation
        pending = [dict()]
        while pending:
            v = pending.pop()
            r = AssembleRun(pm, files, existing_out)
            r.it.valuation = v
            try:
                out = r.it.outcome(lambda: r.it.call(r.it.func_val(fi), [list(inputs), OUT], {}))
            except NeedChoice as e:
                if len(v) > 6:
                    raise Unsupported("too many unknown conditions in assemble_rtf")
                pending.extend({**v, e.key: x} for x in e.domain)
                continue
            res.append((out, r, parts))
        stats["scenarios"] += 1
        stats["runs"] += len(res)
        stats["forks"] += len(res) - 1
        return res

    def unexpected(out, label):
        """an exception on valid inputs"""
        names = out[1].cls.mro_names() if out[0] == "raise" else []
        if out[0] != "raise":
            return False
        if is_artefact(out[1]):
            ctx.gap("R17.2", f"{label}: interpretation ended with {out[1]!r} (possibly an artefact of the file model)")
        else:
            ctx.violation("R17.2", fi.short, f"{label.split(' [')[0]} raises {names[0] if names else '?'}", fi.where(),
                          f"assemble_rtf raises {out[1]!r} for {label} (all inputs exist and were written by rtflite)")
        return True

    # ---- empty list: nothing is read or written
    for out, r, _ in scenario("empty list", []):
        touched = [e for e in r.fs.events if e[0] != "read"]
        ctx.instance("R17.2", fi.where(), f"assemble_rtf([]) -> {out[0]}; file-system events {r.fs.events}")
        if out[0] == "raise":
            unexpected(out, "an empty input list")
        elif touched:
            ctx.violation("R17.2", fi.short, "empty list writes", fi.where(), f"an empty input list must write nothing, but assemble_rtf performs {touched[:3]}")
    # ---- single input reproduced unchanged
    for d, (label, lines, start, wfi) in enumerate(docs):
        for out, r, parts in scenario(f"a single input [{label}]", [d]):
            if unexpected(out, f"a single input [{label}]"):
                continue
            got = r.fs.files.get(OUT)
            ok = got == "".join(parts[0])
            ctx.instance("R17.2", fi.where(), f"single input [{label}] reproduced unchanged: {ok}")
            if got is None:
                ctx.violation("R17.2", fi.short, "no output write", fi.where(), "assemble_rtf does not write the output file for a single input")
            elif not ok:
                ctx.violation("R17.2", fi.short, "single input changed", fi.where(),
                              f"a single input is not reproduced unchanged ({_first_diff(got.splitlines(True), parts[0])})")
    # ---- two and three inputs: preamble of the first, body of the others from their own first body line, page line between
    combos = [(a, b) for a in range(len(docs)) for b in range(len(docs))]
    n = len(docs)
    combos += [tuple((s + k) % n for k in range(3)) for s in range(n)] + [tuple(reversed(range(n)))[:3] + ((0,) if n < 3 else ())]
    seen = set()
    for seq in combos:
        if seq in seen or len(seq) < 2:
            continue
        seen.add(seq)
        label = "inputs [" + ", ".join(docs[d][0] for d in seq) + "]"
        for out, r, parts in scenario(label, seq):
            if unexpected(out, label):
                continue
            got = r.fs.files.get(OUT)
            if got is None:
                ctx.violation("R17.2", fi.short, "no output write", fi.where(), f"assemble_rtf does not write the output file for {label}")
                continue
            verdict = _check_assembled(ctx, fi, docs, seq, parts, got.splitlines(True), label)
            ctx.instance("R17.2", fi.where(), f"{label}: {verdict}")
    # ---- a missing input: FileNotFoundError, nothing written
    for miss in range(3):
        seq = [k % len(docs) for k in range(3)]
        for existing in ("OLD CONTENT\n", None):
            label = f"input {miss + 1} of 3 missing, output {'exists' if existing else 'absent'}"
            for out, r, parts in scenario(label, seq, missing={miss}, existing_out=existing):
                names = out[1].cls.mro_names() if out[0] == "raise" else []
                after = r.fs.files.get(OUT)
                others = sorted(set(r.fs.files) - set(r.before[0]) - {OUT})
                ctx.instance("R17.2", fi.where(), f"{label}: {out[0]} {names[:1]}; output afterwards {'unchanged' if after == existing else 'CHANGED'}")
                if after != existing or others:
                    what = "created" if existing is None else "modified"
                    ctx.violation("R17.2", fi.short, f"output {what} although an input is missing", fi.where(),
                                  f"{label}: the output file is {what} ({[e for e in r.fs.events if e[0] != 'read'][:3]}) although assemble_rtf "
                                  f"{'raises ' + names[0] if names else 'returns'}; a missing input must raise FileNotFoundError before anything is written")
                if "FileNotFoundError" not in names:
                    if out[0] == "raise" and is_artefact(out[1]):
                        ctx.gap("R17.2", f"{label}: interpretation ended with {out[1]!r}")
                    else:
                        ctx.violation("R17.2", fi.short, "missing input: " + (names[0] if names else "no exception"), fi.where(),
                                      f"{label}: assemble_rtf {'raises ' + names[0] if names else 'returns normally'} instead of FileNotFoundError")
    ctx.floor("R17.2", 6)
    # ---- R17.3 (observed): a second call in the same process after an input was regenerated assembles the new content
    seq = [k % len(docs) for k in range(2)]
    files, inputs, parts = {}, [], []
    for n, d in enumerate(seq):
        p = f"/work/in/part{n}.rtf"
        inputs.append(p)
        parts.append(_retag(docs[d][1], f"input{n}"))
        files[p] = "".join(parts[-1])

    def make():
        r = AssembleRun(pm, files)
        f = r.it.func_val(fi)

        def thunk():
            r.it.call(f, [list(inputs), OUT], {})
            first = r.fs.files.get(OUT)
            r.fs.files[inputs[1]] = "".join(_retag(parts[1], "REGENERATED"))
            r.it.call(f, [list(inputs), OUT], {})
            return first, r.fs.files.get(OUT)
        return r.it, thunk, r
    rv = run_valuations(make)
    stats["scenarios"] += 1
    stats["runs"] += len(rv)
    stats["forks"] += len(rv) - 1
    cover(ctx, layouts=[d[0] for d in docs], input_sequences=sorted({len(q) for q in seen} | {0, 1, 3}), ordered_pairs_and_triples=len(seen),
          scenarios=stats["scenarios"], interpreted_runs=stats["runs"], forks_on_unknown_conditions=stats["forks"],
          fork_enumeration="all valuations of the unknown conditions consulted (at most 2^7 per scenario, else analysis gap)")
    for v, out, r in rv:
        if out[0] == "raise":
            continue                                  # reported by the scenarios above
        first, second = out[1]
        fresh = second is not None and "REGENERATED" in second
        ctx.instance("R17.3", fi.where(), f"second call after input 2 was rewritten assembles the new content: {fresh}")
        if not fresh and first is not None:
            ctx.violation("R17.3", fi.short, "stale input content", fi.where(),
                          "after an input file was rewritten a second assemble_rtf call in the same process still assembles its old content "
                          "(inputs are not read when the function is called)")


def _check_assembled(ctx, fi, docs, seq, parts, got, label) -> str:
    """compare the assembled lines with: first input without its closing line, then for every later input a page line
    followed by its lines from its first body line (without the closing line unless it is the last input)"""
    pos = 0
    for n, d in enumerate(seq):
        lines, start = parts[n], docs[d][2]
        last = n == len(seq) - 1
        if n > 0:
            if pos >= len(got) or not _SEP_RE.fullmatch(got[pos]):
                ctx.violation("R17.2", fi.short, "no page line before a later input", fi.where(),
                              f"{label}: input {n + 1} is not preceded by a \\page line (found {got[pos] if pos < len(got) else 'end of file'!r}): "
                              "inputs do not start on a new page / lines are lost or duplicated")
                return "page line missing"
            pos += 1
        want = lines[(start if n > 0 else 0):(None if last else -1)]
        have = got[pos:pos + len(want)]
        if have != want:
            # explain: same input kept from another line?
            if n > 0:
                end = len(got) if last else None
                for s2 in range(0, len(lines)):
                    alt = lines[s2:(None if last else -1)]
                    if got[pos:pos + len(alt)] == alt and (not last or pos + len(alt) == len(got)) and \
                            (last or (pos + len(alt) < len(got) and _SEP_RE.fullmatch(got[pos + len(alt)]))):
                        w = docs[d][3]
                        ctx.violation("R17.1", docs[d][0].split("#")[0], f"body starts on line {start}, reader keeps from line {s2}", (w or fi).where(),
                                      f"{label}: a document written by {docs[d][0]} has its first body line at index {start} (the line after the one closing the font "
                                      f"table) but assemble_rtf keeps it from line {s2} when it is not the first input: "
                                      + ("part of the preamble leaks into the assembled file" if s2 < start else "body lines are cut"))
                        return f"input {n + 1} kept from line {s2}, expected {start}"
            ctx.violation("R17.2", fi.short, f"part {n + 1} of {len(seq)} differs", fi.where(),
                          f"{label}: the assembled file differs from the concatenation in input order at part {n + 1} ({_first_diff(have, want)})")
            return f"part {n + 1} differs"
        pos += len(want)
    if pos != len(got):
        ctx.violation("R17.2", fi.short, "trailing content", fi.where(), f"{label}: {len(got) - pos} extra line(s) after the last input ({got[pos]!r} ...)")
        return "trailing content"
    return "equals first input + page-separated bodies of the others, in argument order"


def r17_3(ctx: Ctx) -> None:
    """bookkeeping: memoised functions on assemble_rtf's call graph (whether memoisation makes a later call assemble stale
    content is observed by the repeated-call scenario of r17_2, which models functools caches faithfully)"""
    pm = ctx.pm
    fi = pm.func("assemble_rtf")
    from ..callgraph import CallGraph
    cg = CallGraph(pm)
    reach = cg.reachable(["assemble_rtf"])
    memo = sorted(short for short in reach if short in pm.funcs and any(d.split(".")[-1] in ("lru_cache", "cache") for d in pm.funcs[short].decorators))
    ctx.instance("R17.3", fi.where(), f"{len(reach)} function(s) on assemble_rtf's call graph, memoised: {memo or 'none'}")


def check(ctx: Ctx) -> None:
    ctx.explain(
        "R17.1 layout agreement between writers and reader: from the abstract document shape of each encode path the literal "
        "preamble is taken, the line closing the font table located (it must carry nothing else, and every alternative must end in "
        "a line that is exactly '}') and a model document built; R17.2 assemble_rtf's syntax tree is interpreted over an in-memory "
        "file system holding such model documents: an empty list touches nothing, a single input is reproduced unchanged, two and "
        "three inputs of every layout combination give the first input plus \\page-separated bodies of the others from their own "
        "first body line in argument order (a different start line is reported as R17.1), and a missing input at any position "
        "raises FileNotFoundError with the output path untouched. R17.3 a second call in the same model process after an input was "
        "rewritten assembles the new content (memoised readers are modelled faithfully).")
    ctx.explain("Method for R17.2/R17.3: " + METHOD + ". Decided for: the empty list, each writer layout alone, every ordered pair of layouts, "
                "rotations/reversal as triples, a missing input at each of 3 positions with the output present and absent, and a repeated call "
                "after an input was rewritten (counts in coverage.interpretation).")
    ctx.assume("inputs were written by this version of rtflite (the property's premise)")
    ctx.assume("model documents: the preamble lines are the literal preamble the encoders write (R17.1), body lines are opaque tagged atoms that "
               "contain neither the font-table marker nor a lone '}', the last line is '}'; the file system is an in-memory model (text files, "
               "directories, open/Path/os/shutil/tempfile operations)")
    ctx.assume("sequences of 0..3 inputs are representative of longer ones (the per-input treatment depends only on first / middle / last position)")
    ctx.undecided("that the assembled pages equal the concatenation for concrete inputs; colour tables of later inputs")
    ctx.undecided("input sequences longer than 3; body lines that themselves contain the font-table marker; I/O errors other than a missing input")
    docs = writer_docs(ctx)
    ctx.floor("R17.1", 6)
    if not docs:
        docs = synthetic_docs()
        ctx.explain("(writer layout undetermined: assemble_rtf was exercised on synthetic documents in today's layout)")
    r17_2(ctx, docs)
    r17_3(ctx)
