"""C17 - assemble_rtf yields one well-formed document with every input in order.

R17.1 writer/reader layout agreement: the number of lines find_start_index skips after the last
'fcharset' line equals what the encoders write there, the font-table closing line carries nothing
else, and every document ends with a line consisting of '}' only; R17.2 ordering rules of
assemble_rtf (existence check dominates the output open, empty list returns first, parts in input
order, page command between inputs, per-file start index).
"""
from __future__ import annotations

import ast

from .. import shapes as S
from ..cfg import CFG
from ..consteval import const_expr
from ..absint import NOC
from ..docshape import PATHS, doc_shape, make_interp
from ..linform import linform
from ..pm import AnalysisError, dotted, unparse, walk_no_nested
from ..report import Ctx


def reader_constants(ctx: Ctx):
    pm = ctx.pm
    fi = pm.func("assemble_rtf.<locals>.find_start_index")
    marker = None
    for n in walk_no_nested(fi.node):
        if isinstance(n, ast.Compare) and len(n.ops) == 1 and isinstance(n.ops[0], ast.In) and isinstance(n.left, ast.Constant):
            marker = n.left.value
    add = None
    for r in walk_no_nested(fi.node):
        if isinstance(r, ast.Return) and r.value is not None:
            lf = linform(r.value)
            if "last_idx" in lf:
                add = lf.get("", 0)
    # last_idx must be the LAST line containing the marker (assigned in a loop without break)
    loops = [n for n in walk_no_nested(fi.node) if isinstance(n, ast.For)]
    last_ok = bool(loops) and not any(isinstance(b, ast.Break) for lp in loops for b in ast.walk(lp)) and \
        any(isinstance(a, ast.Assign) and unparse(a.targets[0]) == "last_idx" and unparse(a.value) == "i" for lp in loops for a in ast.walk(lp))
    return fi, marker, add, last_ok


def r17_1(ctx: Ctx) -> None:
    pm = ctx.pm
    rfi, marker, add, last_ok = reader_constants(ctx)
    ctx.instance("R17.1", rfi.where(), f"reader: marker {marker!r}, start = last marker line + {add}, uses the last occurrence: {last_ok}")
    if marker is None or add is None:
        ctx.violation("R17.1", rfi.short, "reader constants", rfi.where(), "find_start_index no longer locates the preamble by the last line containing a marker plus a constant")
        return
    if not last_ok:
        ctx.violation("R17.1", rfi.short, "not last occurrence", rfi.where(), "find_start_index no longer takes the LAST line containing the marker")
    it = make_interp(pm)
    for path in PATHS:
        fi = pm.func(path)
        _, sh = doc_shape(it, pm, path)
        for a in S.alternatives(sh):
            items = S.items_of(a)
            if not items or not isinstance(items[0], S.Lit):
                if a == S.EPS:
                    continue
                ctx.violation("R17.1", path, "no literal preamble", fi.where(), f"{path}: document does not start with a literal preamble")
                continue
            pre = items[0].s
            lines = pre.split("\n")
            idx = [i for i, ln in enumerate(lines) if marker in ln]
            if not idx:
                ctx.violation("R17.1", path, f"marker {marker} absent", fi.where(), f"{path}: preamble contains no line with {marker!r}; assemble_rtf keeps the whole file of later inputs")
                continue
            last = idx[-1]
            # position where the font-table group closes
            start = pre.find("{\\fonttbl")
            depth, pos_close = 0, None
            for k in range(start, len(pre)):
                if pre[k] == "{":
                    depth += 1
                elif pre[k] == "}":
                    depth -= 1
                    if depth == 0:
                        pos_close = k
                        break
            if pos_close is None:
                ctx.violation("R17.1", path, "font table not closed in preamble", fi.where(), f"{path}: font table group is not closed inside the literal preamble")
                continue
            close_line = pre.count("\n", 0, pos_close)
            rest_lit = pre[pos_close + 1:]
            # what follows the closing brace on the same line
            if "\n" in rest_lit:
                same_line_tail = rest_lit.split("\n")[0]
                tail_desc = repr(same_line_tail)
                clean = same_line_tail == ""
            else:
                nxt = S.seq(*items[1:])
                heads = S.heads(nxt, 1)
                clean = rest_lit == "" and heads <= {"\n"}
                tail_desc = repr(rest_lit) + " then " + str(sorted(heads))
            expect = close_line - last + 1
            ctx.instance("R17.1", fi.where(), f"{path}: last {marker} line {last}, font table closes on line {close_line}; writer needs +{expect}, reader adds +{add}; closing line tail {tail_desc}")
            if expect != add:
                ctx.violation("R17.1", path, f"offset writer {expect} reader {add}", fi.where(),
                              f"{path}: the body starts {expect} lines after the last {marker!r} line but assemble_rtf skips {add}: "
                              "part of the font table leaks into, or body lines are cut from, later inputs")
            if not clean:
                ctx.violation("R17.1", path, "font-table closing line carries content", fi.where(),
                              f"{path}: the line that closes the font table can continue with other content ({tail_desc}); "
                              "assemble_rtf drops that whole line for every input but the first")
            # document ends with a line consisting of '}' only
            tails = S.tails(a, 3)
            bad = [t for t in tails if not t.endswith("\n}")]
            ctx.instance("R17.1", fi.where(), f"{path}: document tails {sorted(tails)}")
            if bad:
                ctx.violation("R17.1", path, "last line " + repr(sorted(bad)[0]), fi.where(),
                              f"{path}: the document does not end with a line consisting of '}}' only ({sorted(bad)[0]!r}); dropping the last line of "
                              "non-final inputs removes content or leaves the group open")
    ctx.floor("R17.1", 6)


def r17_2(ctx: Ctx) -> None:
    pm = ctx.pm
    fi = pm.func("assemble_rtf")
    g = CFG(fi.node)
    dom = g.dominators()
    live = g.reachable(g.entry)

    def nodes_with(pred):
        out = []
        for nd in g.nodes:
            if nd.ast is None or id(nd) not in live:
                continue
            from ..cfg import own_parts
            for part in own_parts(nd):
                if any(pred(x) for x in ast.walk(part)):
                    out.append(nd)
                    break
        return out

    def is_open_w(x):
        if isinstance(x, ast.Call) and dotted(x.func) == "open":
            mode = x.args[1].value if len(x.args) > 1 and isinstance(x.args[1], ast.Constant) else next((k.value.value for k in x.keywords if k.arg == "mode" and isinstance(k.value, ast.Constant)), "r")
            return any(ch in str(mode) for ch in "wax+")
        if isinstance(x, ast.Call) and isinstance(x.func, ast.Attribute) and x.func.attr in ("write_text", "write_bytes"):
            return True
        return False

    def is_open_r(x):
        return isinstance(x, ast.Call) and dotted(x.func) == "open" and not is_open_w(x)

    writes = nodes_with(is_open_w)
    reads = nodes_with(is_open_r)
    raises = [nd for nd in g.nodes if id(nd) in live and isinstance(nd.ast, ast.Raise) and isinstance(nd.ast.exc, ast.Call) and dotted(nd.ast.exc.func) == "FileNotFoundError"]
    # the guard of the raise: an `if missing_files` test whose false branch leads to the rest
    guards = [nd for nd in g.nodes if id(nd) in live and nd.kind == "test" and isinstance(nd.ast, ast.If) and any(isinstance(s, ast.Raise) for s in nd.ast.body)
              and ("missing" in unparse(nd.ast.test) or "exists" in unparse(nd.ast.test))]
    ctx.instance("R17.2", fi.where(), f"assemble_rtf: {len(writes)} output open(s), {len(reads)} input open(s), {len(raises)} FileNotFoundError raise(s), {len(guards)} existence guard(s)")
    if not writes:
        ctx.violation("R17.2", fi.short, "no output write", fi.where(), "assemble_rtf no longer writes the output file")
    if not guards or not raises:
        ctx.violation("R17.2", fi.short, "no existence check", fi.where(), "assemble_rtf no longer checks all inputs and raises FileNotFoundError up front")
    for w in writes:
        ok = any(id(gd) in dom.get(id(w), set()) for gd in guards)
        if guards and not ok:
            ctx.violation("R17.2", fi.short, "write not dominated by existence check", fi.where(w.ast), "the output is opened for writing on a path that has not passed the existence check of all inputs")
        # every input read happens before the output is opened: no read node reachable from a write node
        after = g.reachable(w)
        late = [r for r in reads if id(r) in after and r is not w]
        if late:
            ctx.violation("R17.2", fi.short, "input read after output open", fi.where(late[0].ast),
                          "an input file is opened after the output has been opened for writing: a missing/unreadable later input leaves a partial output")
    # existence check covers all inputs: comprehension over input_files with os.path.exists
    chk = [n for n in walk_no_nested(fi.node) if isinstance(n, ast.ListComp) and "exists" in unparse(n) and "input_files" in unparse(n.generators[0].iter)]
    ctx.instance("R17.2", fi.where(), f"existence check over all input_files: {bool(chk)}")
    if not chk:
        ctx.violation("R17.2", fi.short, "existence check not over all inputs", fi.where(), "the existence check does not range over every input file")
    # empty list returns before any file access
    first = [s for s in fi.node.body if not (isinstance(s, ast.Expr) and isinstance(s.value, ast.Constant))][0]
    ok = isinstance(first, ast.If) and unparse(first.test) in ("not input_files", "len(input_files) == 0") and isinstance(first.body[0], ast.Return)
    ctx.instance("R17.2", fi.where(first), f"first statement `{unparse(first)[:50]}`")
    if not ok:
        ctx.violation("R17.2", fi.short, "empty list", fi.where(first), "an empty input list must return before anything is read or written")
    # main loop: enumerate(rtf_contents) in order, start index per file, page command between
    loops = [n for n in walk_no_nested(fi.node) if isinstance(n, ast.For) and isinstance(n.iter, ast.Call) and dotted(n.iter.func) == "enumerate"]
    main = [lp for lp in loops if any(isinstance(c, ast.Call) and dotted(c.func).endswith("find_start_index") for c in ast.walk(lp))]
    if not main:
        ctx.violation("R17.2", fi.short, "per-file start index", fi.where(),
                      "find_start_index is not evaluated inside the loop over the inputs: the preamble offset of one input is applied to others")
    else:
        lp = main[0]
        iv, lv = (lp.target.elts[0].id, lp.target.elts[1].id) if isinstance(lp.target, ast.Tuple) else ("i", "lines")
        for c in [c for c in ast.walk(lp) if isinstance(c, ast.Call) and dotted(c.func).endswith("find_start_index")]:
            arg = unparse(c.args[0]) if c.args else "?"
            guard = [unparse(a.test) for a in _anc(c, lp) if isinstance(a, ast.If)]
            ctx.instance("R17.2", fi.where(c), f"find_start_index({arg}) under {guard}")
            if arg != lv:
                ctx.violation("R17.2", fi.short, f"find_start_index({arg})", fi.where(c), f"the start index of an input is computed from `{arg}`, not from that input's own lines")
            if not any(g2.replace(" ", "") in (f"{iv}>0", f"0<{iv}", f"{iv}>=1", f"{iv}!=0") for g2 in guard):
                ctx.violation("R17.2", fi.short, "start index guard " + str(guard), fi.where(c), "the preamble is not kept for exactly the first input")
        txt = unparse(lp)
        ords = "reversed" in unparse(lp.iter) or "sorted" in unparse(lp.iter)
        if ords:
            ctx.violation("R17.2", fi.short, "input order", fi.where(lp), "inputs are not processed in argument order")
        last_guard = f"{iv} < len(rtf_contents) - 1"
        n_last = txt.count(last_guard)
        ctx.instance("R17.2", fi.where(lp), f"non-last guard `{last_guard}` used {n_last}x; closing-line test: {'strip() == ' in txt}")
        if n_last < 2:
            ctx.violation("R17.2", fi.short, "non-last guards", fi.where(lp), "dropping the closing line and inserting the page command must both be restricted to non-final inputs")
        if "lines[-1].strip() == '}'" not in txt:
            ctx.violation("R17.2", fi.short, "closing line test", fi.where(lp), "the last line is dropped without checking that it is the closing brace")
        # page command appended after the part, inside the loop
        apps = [c for c in ast.walk(lp) if isinstance(c, ast.Call) and isinstance(c.func, ast.Attribute) and c.func.attr in ("append", "extend")]
        order = [unparse(c.args[0]) for c in sorted(apps, key=lambda c: c.lineno)]
        ctx.instance("R17.2", fi.where(lp), f"appended per input, in order: {order}")
        if len(order) < 2 or "page" not in order[-1]:
            ctx.violation("R17.2", fi.short, "page command placement " + str(order), fi.where(lp), "the page command is not appended after each non-final input")
    cmd = [n for n in walk_no_nested(fi.node) if isinstance(n, ast.Assign) and unparse(n.targets[0]) == "new_page_cmd"]
    if cmd:
        v = const_expr(pm, fi.module, cmd[0].value)
        ctx.instance("R17.2", fi.where(cmd[0]), f"page command {v!r}")
        if v is NOC or not str(v).startswith("\\page") or not str(v).endswith("\n"):
            ctx.violation("R17.2", fi.short, f"page command {v!r}", fi.where(cmd[0]), "the separator between inputs is not a \\page line")
    ctx.floor("R17.2", 6)
    # R17.3 inputs are read when assemble_rtf is called: no memoised reader on its call graph
    from ..callgraph import CallGraph
    cg = CallGraph(pm)
    reach = cg.reachable(["assemble_rtf"])
    for short in sorted(reach):
        f2 = pm.funcs.get(short)
        if f2 is None:
            continue
        for d in f2.decorators:
            if d.split(".")[-1] in ("lru_cache", "cache"):
                ctx.violation("R17.3", short, "memoised " + d, f2.where(), f"{short} (used by assemble_rtf) is memoised ({d}): a later call assembles the content a path had the first time it was read")
    ctx.instance("R17.3", fi.where(), f"{len(reach)} function(s) on assemble_rtf's call graph, none memoised; input reads happen inside the call")


def _anc(n, stop):
    p = getattr(n, "_parent", None)
    while p is not None and p is not stop:
        yield p
        p = getattr(p, "_parent", None)


def check(ctx: Ctx) -> None:
    ctx.explain(
        "R17.1 layout agreement between writers and reader: from the abstract document shape of each encode path the literal "
        "preamble is taken; the line offset from the last 'fcharset' line to the first body line must equal the constant "
        "find_start_index adds, the font-table closing line must carry nothing else, and every alternative must end in a line "
        "that is exactly '}'. R17.2 CFG of assemble_rtf: the FileNotFoundError guard over all inputs dominates the output "
        "open, no input is opened after the output, the empty-list return is first, find_start_index is applied per input to "
        "its own lines for i > 0, closing-line drop and page command are restricted to non-final inputs, in argument order.")
    ctx.assume("inputs were written by this version of rtflite (the property's premise)")
    ctx.undecided("that the assembled pages equal the concatenation for concrete inputs; colour tables of later inputs")
    r17_1(ctx)
    r17_2(ctx)
