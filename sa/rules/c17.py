"""C17 - assemble_rtf yields one well-formed document with every input in order.

R17.1 (A) writer/reader layout agreement: from the abstract document shape of each encode path (sa/docshape) the literal
      preamble is taken; the line offset from the last line containing the reader's marker to the first body line must equal
      the constant the reader adds to the last marker line, the line closing the font table must carry nothing else and every
      document alternative must end with a line that is exactly '}'.
R17.2 (A) assemble_rtf is evaluated ONCE over symbolic inputs (SDT below): `input_files` is an uninterpreted sequence of unknown
      length N, a loop over it is one generic iteration at position K; the written stream is a sequence of segments "for every
      position of a range: these pieces"; every condition consulted is enumerated.  Conditions that are linear in (K, N) are
      decided per position class (first/last) by linear reasoning.  Judged from the summary: the segments tile 0..N-1 in
      argument order, the piece of position K is a slice of the lines read from input K that starts at 0 for the first input
      and at `last line containing the marker + c` (scan of that input's own lines) otherwise, ends before the closing line
      for all but the last input, and is followed by a \\page line exactly for non-last inputs; an empty list touches nothing.
R17.3 (S) control-flow graph of assemble_rtf: no input is read after the output was opened for writing, an explicit existence
      check dominates every write and lies outside the loops that write; memoised readers on the call graph (effects) are
      positive evidence of stale content.

This module also hosts SDT, the symbolic evaluator (an extension of sa/rules/c05.LDT) shared by the C17, C19 and C20 rules.
"""
from __future__ import annotations

import ast
import dataclasses
from dataclasses import dataclass
from fractions import Fraction
from typing import Any

from .. import shapes as S
from ..absint import NOC
from ..astmatch import guards
from ..cfg import CFG, own_parts
from ..docshape import PATHS, doc_shape, make_interp
from ..dtab import DT, NeedAtom, Run, Sym, Unsupported, _Break, _Continue, _OPS, _Raise, _Return, _cmp
from ..pm import AnalysisError, dotted, unparse, walk_no_nested
from ..report import Ctx
from .c05 import (LDT, CallSym, Carried, CmpSym, ElemSym, Init, LinSym, RangeSym, SliceSym, SubSym, has_sym, lin_of, lin_sub, parts,
                  path_of)

# ================================================================================================================
# SDT: symbolic evaluation with sequences of unknown length, finite tables, exceptions and monomials
# ================================================================================================================
# What is added to LDT (all of it symbolic; nothing is executed, no input value is chosen):
#   * a loop / comprehension over a symbolic sequence is ONE generic iteration at position K of the sequence's family
#     (root sequence, generic index K, generic element root[K], length N); what the iteration appends to a list becomes a
#     `Star` segment "for every position of [lo, N-1+hi]: these items" (so the list is never a one-element list);
#     slices / subscripts of such aligned lists shift the range or substitute a fixed position for K;
#   * a scalar that the generic iteration sets to a position-dependent value becomes Pick(last|first position where the
#     conditions consulted in that iteration held);
#   * finite tables of the source: `x in TABLE` is one canonical atom per (term, table), TABLE[x] forks on that atom
#     (KeyError otherwise), SEQ[i] with a symbolic index forks three ways (in range / negative wrap-around / IndexError)
#     unless the comparisons already consulted on the index decide it;
#   * raise / try / except / finally with the builtin exception hierarchy, with-statements binding their target,
#     match statements over literals; products and quotients as monomials (coefficient x symbols^exponent).

EXC_BASES = {
    "BaseException": None, "Exception": "BaseException", "ArithmeticError": "Exception", "ZeroDivisionError": "ArithmeticError",
    "OverflowError": "ArithmeticError", "AssertionError": "Exception", "AttributeError": "Exception", "EOFError": "Exception",
    "ImportError": "Exception", "ModuleNotFoundError": "ImportError", "LookupError": "Exception", "IndexError": "LookupError",
    "KeyError": "LookupError", "NameError": "Exception", "OSError": "Exception", "FileNotFoundError": "OSError",
    "FileExistsError": "OSError", "PermissionError": "OSError", "IsADirectoryError": "OSError", "NotADirectoryError": "OSError",
    "TimeoutError": "OSError", "RuntimeError": "Exception", "NotImplementedError": "RuntimeError", "RecursionError": "RuntimeError",
    "StopIteration": "Exception", "TypeError": "Exception", "ValueError": "Exception", "UnicodeError": "ValueError",
    "UnicodeDecodeError": "UnicodeError", "UnicodeEncodeError": "UnicodeError", "KeyboardInterrupt": "BaseException",
    "SystemExit": "BaseException", "IOError": "OSError", "EnvironmentError": "OSError", "Warning": "Exception",
    "ValidationError": "ValueError", "PydanticCustomError": "ValueError",
}


def exc_mro(pm, name: str) -> list[str]:
    """names of the exception class and its bases (builtin table + classes of the analysed package)"""
    out, todo = [], [name.split(".")[-1]]
    while todo:
        n = todo.pop(0)
        if n in out or n is None:
            continue
        out.append(n)
        if n in EXC_BASES:
            todo.append(EXC_BASES[n])
        elif n in pm.classes:
            todo.extend(b.split(".")[-1] for b in pm.classes[n].bases)
    return out


def etype_of(r) -> str:
    t = getattr(r, "etype", None)
    if t:
        return t
    w = str(getattr(r, "what", r))
    return w.split("(")[0].split()[0] if w else "?"


@dataclass(frozen=True, eq=False)
class Fam:
    """the family of a symbolic sequence: generic position K, generic element root[K], length N"""
    root: Any
    k: Sym
    elem: Sym
    n: Sym


@dataclass(frozen=True, eq=False)
class PosSym(Sym):
    """the element of a family at a fixed position (0, N-1, ...)"""
    fam: Any = None
    pos: Any = None


@dataclass(frozen=True, eq=False)
class PickSym(Sym):
    """the value a generic iteration assigned, taken at the last / first position where the iteration's conditions held"""
    fam: Any = None
    kind: str = "last"
    conds: tuple = ()
    term: Any = None


@dataclass(frozen=True, eq=False)
class TableSym(Sym):
    table: Any = None


@dataclass(frozen=True, eq=False)
class MonoSym(Sym):
    coef: Any = 1
    factors: tuple = ()          # ((path, exponent, term), ...)


@dataclass(frozen=True, eq=False)
class ExcSym(Sym):
    etype: str = ""


class Spl:
    """a symbolic sequence spliced into a list (list.extend / +=)"""

    def __init__(self, term):
        self.term = term

    def __repr__(self):
        return f"*{path_of(self.term)}"


class Star:
    """what ONE generic iteration over positions lo .. N-1+hi of a family contributed to a list"""

    def __init__(self, fam, lo, hi, items, order="fwd", cond=(), loop=None, icond=None):
        self.fam, self.lo, self.hi, self.items, self.order, self.cond, self.loop = fam, lo, hi, list(items), order, tuple(cond), loop
        self.icond = list(icond) if icond is not None else [()] * len(self.items)      # per item: the conditions of the loop body its append depends on

    def __repr__(self):
        return f"Star⟨{self.fam.k.path}∈[{self.lo},N{self.hi:+d}] {self.order}{' if…' if self.cond else ''}: {', '.join(show(x) for x in self.items)}⟩"


class View:
    """enumerate / zip / reversed / sorted applied to something iterable"""

    def __init__(self, kind, args, start=0):
        self.kind, self.args, self.start = kind, list(args), start

    def __repr__(self):
        return f"{self.kind}({', '.join(show(a) for a in self.args)})"


def show(v) -> str:
    if isinstance(v, (Star, Spl, View)):
        return repr(v)
    if isinstance(v, list):
        return "[" + ", ".join(show(x) for x in v) + "]"
    if isinstance(v, tuple):
        return "(" + ", ".join(show(x) for x in v) + ")"
    return path_of(v)


def has_star(v) -> bool:
    return isinstance(v, list) and any(isinstance(x, Star) for x in v)


def aligned(v):
    """the single Star of a list that consists of exactly one unconditional one-item segment, else None"""
    if isinstance(v, list) and len(v) == 1 and isinstance(v[0], Star) and len(v[0].items) == 1 and not v[0].cond and not v[0].icond[0] and not isinstance(v[0].items[0], (Spl, Star)):
        return v[0]
    return None


def sparts(v, depth: int = 0):
    """parts() extended to the value kinds of SDT"""
    if depth > 14:
        return
    if isinstance(v, Spl):
        yield from sparts(v.term, depth + 1)
        return
    if isinstance(v, Star):
        for x in v.items:
            yield from sparts(x, depth + 1)
        return
    if isinstance(v, View):
        for x in v.args:
            yield from sparts(x, depth + 1)
        return
    yield v
    if isinstance(v, dict):
        for x in v.values():
            yield from sparts(x, depth + 1)
    elif isinstance(v, (list, tuple)):
        for x in v:
            yield from sparts(x, depth + 1)
    elif isinstance(v, PickSym):
        yield from sparts(v.term, depth + 1)
        yield v.fam.elem
        yield from sparts(v.fam.root, depth + 1)
    elif isinstance(v, PosSym):
        yield from sparts(v.fam.root, depth + 1)
        yield from sparts(v.pos, depth + 1)
    elif isinstance(v, MonoSym):
        for _p, _e, t in v.factors:
            yield from sparts(t, depth + 1)
    elif isinstance(v, ElemSym):
        yield from sparts(v.source, depth + 1)
    elif isinstance(v, SubSym):
        yield from sparts(v.base, depth + 1)
        yield from sparts(v.key, depth + 1)
    elif isinstance(v, SliceSym):
        yield from sparts(v.base, depth + 1)
        yield from sparts(v.lo, depth + 1)
        yield from sparts(v.hi, depth + 1)
    elif isinstance(v, CallSym):
        yield from sparts(v.recv, depth + 1)
        yield from sparts(v.args, depth + 1)
        yield from sparts(tuple(x for _k, x in v.kw), depth + 1)
    elif isinstance(v, RangeSym):
        yield from sparts(v.lo, depth + 1)
        yield from sparts(v.hi, depth + 1)
    elif isinstance(v, LinSym):
        yield from sparts(v.terms, depth + 1)
    elif isinstance(v, CmpSym):
        yield from sparts(v.left, depth + 1)
        yield from sparts(v.right, depth + 1)
    elif isinstance(v, Sym) and dataclasses.is_dataclass(v):
        for f in dataclasses.fields(v):
            if f.name not in ("path", "cls"):
                x = getattr(v, f.name)
                if isinstance(x, (Sym, tuple, list)):
                    yield from sparts(x, depth + 1)


def subst(v, by_path: dict, text: list, depth: int = 0):
    """copy of a term with the symbols named in by_path replaced (paths are rewritten textually)"""
    if depth > 14:
        return v
    if isinstance(v, Sym):
        if v.path in by_path:
            return by_path[v.path]
        if not dataclasses.is_dataclass(v):
            return v
        ch = {}
        for f in dataclasses.fields(v):
            if f.name in ("path", "cls", "fam", "op", "meth", "kind", "conds", "etype", "table", "lin", "coef"):
                continue
            x = getattr(v, f.name)
            y = subst(x, by_path, text, depth + 1)
            if y is not x:
                ch[f.name] = y
        p = v.path
        for a, b in text:
            p = p.replace(a, b)
        if not ch and p == v.path:
            return v
        if isinstance(v, LinSym):
            # recompute the linear form from the substituted terms
            tot: Any = 0
            lin = dict(v.lin)
            out: dict = {"": lin.get("", 0)} if lin.get("", 0) else {}
            new_terms = {}
            for t in v.terms:
                t2 = subst(t, by_path, text, depth + 1)
                c = lin.get(t.path, 0)
                l2 = lin_of(t2)
                if l2 is None:
                    l2 = {path_of(t2): 1}
                for k2, c2 in l2.items():
                    out[k2] = out.get(k2, 0) + c * c2
                for tt in (t2.terms if isinstance(t2, LinSym) else ([t2] if isinstance(t2, Sym) else [])):
                    new_terms[tt.path] = tt
            out = {k2: c2 for k2, c2 in out.items() if c2 != 0}
            return make_lin(out, new_terms)
        try:
            return dataclasses.replace(v, path=p, **ch)
        except Exception:
            return v
    if isinstance(v, tuple):
        t = tuple(subst(x, by_path, text, depth + 1) for x in v)
        return t if any(a is not b for a, b in zip(t, v)) else v
    if isinstance(v, list):
        return [subst(x, by_path, text, depth + 1) for x in v]
    if isinstance(v, Spl):
        return Spl(subst(v.term, by_path, text, depth + 1))
    if isinstance(v, Star):
        return Star(v.fam, v.lo, v.hi, [subst(x, by_path, text, depth + 1) for x in v.items], v.order, v.cond, v.loop, v.icond)
    return v


def make_lin(d: dict, terms: dict):
    """a numeric value from a linear form {path: coefficient, '': constant}"""
    d = {k: c for k, c in d.items() if c != 0}
    if set(d) <= {""}:
        return d.get("", 0)
    if len(d) == 1:
        (k, c), = d.items()
        if c == 1 and k in terms:
            return terms[k]
    items = tuple(sorted(d.items()))
    txt = " + ".join((f"{c}" if k == "" else (k if c == 1 else f"{c}*{k}")) for k, c in items)
    return LinSym(txt, None, items, tuple(terms[k] for k, _c in items if k in terms))


_NUMT = (int, float, Fraction)


class _ModScope:
    """name-resolution scope of a module-level expression"""
    cls = None
    short = "<module>"

    def __init__(self, module: str):
        self.module = module


class SDT(LDT):
    WATCH = ("append", "extend", "insert")

    def __init__(self, pm, watch=(), **kw):
        super().__init__(pm, watch=set(watch) | set(self.WATCH), **kw)
        self.fams: dict[str, Fam] = {}
        self.len_fams: dict[str, Fam] = {}
        self.tables: dict[str, Any] = {}
        self._tnames: dict[str, str] = {}
        self._const_cache: dict[int, Any] = {}
        self._modvals: dict = {}
        self._mutglob: dict = {}
        self._resolving: dict = {}
        self.reset_run()

    # ------------------------------------------------------------------ driver
    def reset_run(self):
        self.consulted: list[str] = []
        self.iter_stack: list = []
        self.handling: list = []
        self.marks: dict = {}
        self.lookups: list = []

    def table_rows(self, stmts, env_factory, fi=None, limit: int = 4000):
        """evaluate the statements under every valuation of the conditions they consult
        -> [dict(val=, env=, effects=, outcome=, consulted=, lookups=)]"""
        out, pending, n = [], [dict()], 0
        while pending:
            v = pending.pop()
            n += 1
            if n > limit:
                raise Unsupported("decision table exceeds %d evaluations" % limit)
            self.val, self.stores, self.run_state, self.depth = v, {}, Run(), 0
            self.reset_run()
            env = env_factory()
            if fi is not None:
                env["__fi__"] = fi
            outcome: Any = "fall"
            try:
                self.block(stmts, env)
            except NeedAtom as e:
                self.discovered.setdefault(e.key, list(e.domain))
                for x in e.domain:
                    pending.append({**v, e.key: x})
                continue
            except _Return as r:
                outcome = ("return", r.v)
            except _Continue:
                outcome = "continue"
            except _Break:
                outcome = "break"
            except _Raise as r:
                outcome = ("raise", etype_of(r), r.what, getattr(r, "node", None))
            except RecursionError:
                raise Unsupported("recursion limit in symbolic evaluation")
            out.append(dict(val=v, env=env, effects=list(self.run_state.effects), outcome=outcome, consulted=list(self.consulted),
                            lookups=list(self.lookups), stores=dict(self.stores)))
        return out

    def atom(self, key, domain):
        if key not in self.consulted:
            self.consulted.append(key)
        return super().atom(key, domain)

    # ------------------------------------------------------------------ families
    def family(self, root) -> Fam:
        p = path_of(root)
        f = self.fams.get(p)
        if f is None:
            f = Fam(root, Sym(f"κ⟨{p}⟩"), ElemSym(f"{p}[κ]", None, root), Sym(f"len({p})"))
            self.fams[p] = f
            self.len_fams[f.n.path] = f
        return f

    def at(self, fam: Fam, item, pos):
        """the item of a generic iteration, taken at a fixed position"""
        ptxt = path_of(pos)
        pe = PosSym(f"{path_of(fam.root)}[{ptxt}]", None, fam, pos)
        return subst(item, {fam.elem.path: pe, fam.k.path: pos}, [(fam.elem.path, pe.path), (fam.k.path, ptxt)])

    def add(self, a, b):
        return self.binop(ast.Add(), a, b, None)

    def sub(self, a, b):
        return self.binop(ast.Sub(), a, b, None)

    def phases(self, v, order="fwd"):
        """how iteration over v proceeds: [('one', item, index) | ('star', fam, lo, hi, order, item, index, cond)] or None"""
        v = self.concrete(v)
        if isinstance(v, dict):
            v = list(v)
        if isinstance(v, range):
            v = list(v)
        if isinstance(v, list) and len(v) == 1 and isinstance(v[0], Spl):
            return self.phases(v[0].term, order)
        if isinstance(v, (list, tuple)):
            out, off = [], 0
            for x in v:
                if isinstance(x, Star):
                    if len(x.items) != 1:
                        return None
                    it = x.items[0]
                    if isinstance(it, Star):
                        # a segment of segments (nested comprehension): iteration runs over the inner generic element
                        sub = self.phases([it], order)
                        if sub is None or len(sub) != 1 or sub[0][0] != "star":
                            return None
                        out.append(sub[0][:6] + (Sym("?index"), tuple(x.cond) + tuple(sub[0][7])))
                        off = Sym("?index")
                        continue
                    if isinstance(it, Spl):
                        sub = self.phases(it.term, order)
                        if sub is None or len(sub) != 1 or sub[0][0] != "star":
                            return None
                        out.append(sub[0][:6] + (Sym("?index"), tuple(x.cond) + tuple(sub[0][7])))
                        off = Sym("?index")
                        continue
                    idx = self.add(off, self.sub(x.fam.k, x.lo)) if x.lo else self.add(off, x.fam.k)
                    o = x.order if order == "fwd" else ("rev" if x.order == "fwd" else x.order)
                    out.append(("star", x.fam, x.lo, x.hi, o, it, idx, x.cond))
                    off = self.add(off, self.add(x.fam.n, x.hi - x.lo))
                elif isinstance(x, Spl):
                    return None
                else:
                    out.append(("one", x, off))
                    off = self.add(off, 1)
            return out
        if isinstance(v, View):
            if v.kind == "enumerate":
                ph = self.phases(v.args[0], order)
                if ph is None:
                    return None
                res = []
                for p in ph:
                    if p[0] == "one":
                        res.append(("one", (self.add(p[2], v.start), p[1]), p[2]))
                    else:
                        res.append(p[:5] + ((self.add(p[6], v.start), p[5]), p[6], p[7]))
                return res
            if v.kind == "zip":
                phs = [self.phases(a, order) for a in v.args]
                if any(p is None for p in phs) or not phs:
                    return None
                if len({len(p) for p in phs}) != 1:
                    return None
                res = []
                for tup in zip(*phs):
                    if len({t[0] for t in tup}) != 1:
                        return None
                    if tup[0][0] == "one":
                        res.append(("one", tuple(t[1] for t in tup), tup[0][2]))
                    else:
                        if len({(t[2], t[3], t[4]) for t in tup}) != 1:
                            return None
                        # positions coincide: the other sequences' generic elements are taken at the first family's position
                        first = tup[0]
                        items = [first[5]]
                        for t in tup[1:]:
                            items.append(t[5] if t[1] is first[1] else subst(t[5], {t[1].k.path: first[1].k}, [(t[1].k.path, first[1].k.path)]))
                        res.append(first[:5] + (tuple(items), first[6], tuple(c for t in tup for c in t[7])))
                return res
            if v.kind in ("reversed", "sorted", "set"):
                ph = self.phases(v.args[0], "rev" if v.kind == "reversed" else order)
                if ph is None:
                    return None
                if v.kind == "reversed":
                    return list(reversed(ph))
                return [p if p[0] == "one" else p[:4] + (v.kind,) + p[5:] for p in ph]
            return None
        if isinstance(v, RangeSym):
            lo, hi = self.concrete(v.lo), self.concrete(v.hi)
            d = lin_of(hi)
            if isinstance(lo, int) and lo >= 0 and d is not None:
                ns = [k for k in d if k != ""]
                if len(ns) == 1 and d[ns[0]] == 1 and ns[0] in self.len_fams and isinstance(d.get("", 0), int) and d.get("", 0) <= 0:
                    fam = self.len_fams[ns[0]]
                    return [("star", fam, lo, d.get("", 0), order, fam.k, fam.k, ())]
            fam = self.family(v)
            return [("star", fam, 0, 0, order, fam.elem, fam.k, ())]
        if isinstance(v, SliceSym) and isinstance(v.base, Sym):
            lo, hi = v.lo, v.hi
            if (lo is None or (isinstance(lo, int) and lo >= 0)) and (hi is None or (isinstance(hi, int) and hi < 0)):
                fam = self.family(v.base)
                return [("star", fam, lo or 0, hi or 0, order, fam.elem, self.sub(fam.k, lo or 0), ())]
        if isinstance(v, CallSym) and v.meth in ("list", "tuple", "iter") and len(v.args) == 1:
            return self.phases(v.args[0], order)
        if isinstance(v, Sym):
            fam = self.family(v)
            return [("star", fam, 0, 0, order, fam.elem, fam.k, ())]
        return None

    # ------------------------------------------------------------------ statements
    def stmt(self, s, env):
        if isinstance(s, ast.Raise):
            return self._raise(s, env)
        if isinstance(s, ast.Try):
            return self._try(s, env)
        if isinstance(s, (ast.With, ast.AsyncWith)):
            for it in s.items:
                v = self.ev(it.context_expr, env)
                self.run_state.effects.append(("with-enter", it.context_expr, v, s))
                if it.optional_vars is not None:
                    self.assign(it.optional_vars, v, env)
            try:
                self.block(s.body, env)
            finally:
                self.run_state.effects.append(("with-exit", s))
            return None
        if isinstance(s, ast.Match):
            return self._match_stmt(s, env)
        if isinstance(s, ast.AugAssign) and isinstance(s.op, ast.Add):
            cur = self.concrete(self.ev(s.target, env))
            if isinstance(cur, list):
                v = self.concrete(self.ev(s.value, env))
                self._extend(cur, v, s)
                return None
        if isinstance(s, ast.Assert):
            return None
        if isinstance(s, ast.Delete):
            for t in s.targets:
                if isinstance(t, ast.Subscript):
                    base = self.concrete(self.ev(t.value, env))
                    k = self.concrete(self.ev(t.slice, env)) if not isinstance(t.slice, ast.Slice) else None
                    if isinstance(t.slice, ast.Slice) and t.slice.step is None:
                        lo_ = self.concrete(self.ev(t.slice.lower, env)) if t.slice.lower else None
                        hi_ = self.concrete(self.ev(t.slice.upper, env)) if t.slice.upper else None
                        if lo_ == -1 and hi_ is None:
                            k = -1                       # del x[-1:]  ==  del x[-1]   (for a non-empty sequence)
                        elif lo_ in (None, 0) and hi_ == 1:
                            k = 0
                    if isinstance(base, Sym):
                        if k == -1:
                            self._rebind(env, base, SliceSym(f"{base.path}[:-1]", None, base, None, -1))
                        elif k == 0:
                            self._rebind(env, base, SliceSym(f"{base.path}[1:]", None, base, 1, None))
                        else:
                            self._rebind(env, base, Sym(f"?mutated:{base.path[:60]}"))
                    elif isinstance(base, list):
                        if isinstance(k, int) and -len(base) <= k < len(base) and not has_star(base) and not any(isinstance(x, Spl) for x in base):
                            del base[k]
                        else:
                            base[:] = [Spl(Sym("?mutated:del"))]
                    elif isinstance(base, dict) and k in base:
                        del base[k]
                elif isinstance(t, ast.Name):
                    env.pop(t.id, None)
            return None
        return super().stmt(s, env)

    def _raise(self, s, env):
        if s.exc is None:
            if self.handling:
                raise self.handling[-1]
            r = _Raise("re-raise")
            r.etype = "?"
            raise r
        e = s.exc
        name = None
        if isinstance(e, ast.Call):
            name = dotted(e.func).split(".")[-1]
        elif isinstance(e, ast.Name):
            v = env.get(e.id)
            name = v.etype if isinstance(v, ExcSym) else e.id
        else:
            name = dotted(e).split(".")[-1]
        r = _Raise(unparse(e)[:100])
        r.etype = name
        r.node = s
        r.path_atoms = list(self.consulted)
        raise r

    def _handler_for(self, s, r):
        et = etype_of(r)
        mro = exc_mro(self.pm, et)
        for h in s.handlers:
            if h.type is None:
                return h
            names = [dotted(x).split(".")[-1] for x in (h.type.elts if isinstance(h.type, ast.Tuple) else [h.type])]
            if any(nm in mro for nm in names):
                return h
            if et == "?" and any(nm in ("Exception", "BaseException") for nm in names):
                return h
        return None

    def _try(self, s, env):
        def fin():
            if s.finalbody:
                self.block(s.finalbody, env)
        try:
            try:
                self.block(s.body, env)
            except _Raise as r:
                h = self._handler_for(s, r)
                if h is None:
                    raise
                if h.name:
                    env[h.name] = ExcSym(h.name, None, etype_of(r))
                self.handling.append(r)
                try:
                    self.block(h.body, env)
                finally:
                    self.handling.pop()
            else:
                self.block(s.orelse, env)
        except NeedAtom:
            raise
        except (_Raise, _Return, _Break, _Continue):
            fin()
            raise
        fin()

    def _match_stmt(self, s, env):
        subj = self.concrete(self.ev(s.subject, env))

        def m(p) -> bool:
            if isinstance(p, ast.MatchValue):
                return self.compare(ast.Eq(), subj, self.ev(p.value, env), p)
            if isinstance(p, ast.MatchSingleton):
                return self.compare(ast.Is(), subj, p.value, p) if p.value is None else (subj is p.value)
            if isinstance(p, ast.MatchOr):
                return any(m(q) for q in p.patterns)
            if isinstance(p, ast.MatchAs):
                if p.pattern is not None and not m(p.pattern):
                    return False
                if p.name:
                    env[p.name] = subj
                return True
            raise Unsupported("match pattern " + type(p).__name__)
        for case in s.cases:
            if m(case.pattern) and (case.guard is None or self.truth(self.ev(case.guard, env))):
                self.block(case.body, env)
                return

    # ------------------------------------------------------------------ loops
    def assign(self, t, v, env):
        if isinstance(t, (ast.Tuple, ast.List)) and sum(isinstance(e, ast.Starred) for e in t.elts) == 1:
            vv = self.concrete(v)
            i = next(j for j, e in enumerate(t.elts) if isinstance(e, ast.Starred))
            before, after = t.elts[:i], t.elts[i + 1:]
            st = aligned(vv) if isinstance(vv, list) else None
            if st is not None and st.order == "fwd":
                for j, e in enumerate(before):
                    self.assign(e, self.at(st.fam, st.items[0], st.lo + j), env)
                for j, e in enumerate(after):
                    self.assign(e, self.at(st.fam, st.items[0], self.add(st.fam.n, st.hi - (len(after) - j))), env)
                self.assign(t.elts[i].value, [Star(st.fam, st.lo + len(before), st.hi - len(after), st.items, st.order, st.cond, st.loop)], env)
                return
            if isinstance(vv, (list, tuple)) and not has_star(vv) and not any(isinstance(x, Spl) for x in vv) and len(vv) >= len(before) + len(after):
                for e, x in zip(before, vv):
                    self.assign(e, x, env)
                for e, x in zip(after, vv[len(vv) - len(after):]):
                    self.assign(e, x, env)
                self.assign(t.elts[i].value, list(vv[len(before):len(vv) - len(after)]), env)
                return
            if isinstance(vv, Sym) and not vv.path.startswith("?"):
                for j, e in enumerate(before):
                    self.assign(e, SubSym(f"{vv.path}[{j}]", None, vv, j), env)
                for j, e in enumerate(after):
                    self.assign(e, SubSym(f"{vv.path}[{j - len(after)}]", None, vv, j - len(after)), env)
                lo, hi = len(before) or None, (-len(after)) or None
                self.assign(t.elts[i].value, [Spl(SliceSym(f"{vv.path}[{lo or ''}:{hi or ''}]", None, vv, lo, hi))] if (lo or hi) else [Spl(vv)], env)
                return
            for x in ast.walk(t):
                if isinstance(x, ast.Name):
                    env[x.id] = Sym("?" + x.id)
            return
        return super().assign(t, v, env)

    def _lists_in(self, env):
        out = {}
        for v in env.values():
            if isinstance(v, list):
                out[id(v)] = (v, len(v))
            elif isinstance(v, dict):
                out[id(v)] = (v, set(v))
        return out

    def _close_iteration(self, s, fam, lo, hi, order, cond, snap, env, broke, before_names, n_eff0, consulted0):
        """turn what the generic iteration did into position-quantified values"""
        conds = tuple((k, self.val.get(k)) for k in self.consulted[consulted0:] if fam.elem.path in k or fam.k.path in k)
        for _i, (obj, mark) in snap.items():
            if isinstance(obj, list) and len(obj) > mark:
                tail = obj[mark:]
                # an append that is control-dependent on a condition of the loop body makes the list a filtered one
                ic = [self.marks.pop((id(obj), mark + j), ()) for j in range(len(tail))]
                del obj[mark:]
                obj.append(Star(fam, lo, hi, tail, order, cond, s, ic))
            elif isinstance(obj, dict):
                new = [k for k in obj if k not in mark]
                for k in new:
                    v = obj.pop(k)
                    obj[("★", fam.k.path, k)] = Star(fam, lo, hi, [v], "dedup" if isinstance(k, str) and (fam.elem.path in k) else order, cond, s)
        kind = ("first" if broke else "last") if order == "fwd" else (("last" if broke else "first") if order == "rev" else "some")
        for nm, old in before_names.items():
            new = env.get(nm)
            if new is old or isinstance(new, (list, dict)):
                continue
            if any(isinstance(p, Sym) and p.path in (fam.k.path, fam.elem.path) for p in sparts(new)) and not isinstance(new, PickSym):
                env[nm] = self.pick(fam, kind, conds, new)
        return kind, conds

    def pick(self, fam, kind, conds, term):
        ctxt = " & ".join(f"{'' if v is True else ('not ' if v is False else str(v) + ':')}{k}" for k, v in conds)
        return PickSym(f"{kind}⟨{fam.k.path} | {ctxt}⟩{{{path_of(term)}}}", None, fam, kind, conds, term)

    def _for(self, s, env):
        if any(s is x for x in self.skip_loops):
            self.run_state.effects.append(("loop", s, dict(env)))
            return
        itv = self.ev(s.iter, env)
        ph = self.phases(itv)
        if ph is None:
            ph = [("star", self.family(Sym("?" + unparse(s.iter)[:60])), 0, 0, "fwd", None, None, ())]
        stored = {t.id for st in s.body for t in ast.walk(st) if isinstance(t, ast.Name) and isinstance(t.ctx, ast.Store)}
        loaded = {t.id for st in s.body for t in ast.walk(st) if isinstance(t, ast.Name) and isinstance(t.ctx, ast.Load)}
        tnames = {t.id for t in ast.walk(s.target) if isinstance(t, ast.Name)}
        try:
            for p in ph:
                if p[0] == "one":
                    self.assign(s.target, p[1], env)
                    try:
                        self.block(s.body, env)
                    except _Continue:
                        continue
                    continue
                _, fam, lo, hi, order, item, idx, cond = p
                if item is None:
                    item = fam.elem
                for nme in sorted((stored & loaded) - tnames):
                    if nme in env and not isinstance(env[nme], (Init, list, dict)):
                        env[nme] = Carried(nme, None, env[nme])
                snap = self._lists_in(env)
                before = {nm: env.get(nm) for nm in stored - tnames}
                n_eff0, c0 = len(self.run_state.effects), len(self.consulted)
                self.run_state.effects.append(("iter", s, fam, lo, hi, order))
                self.iter_stack.append((fam, lo, hi, order, s))
                self.assign(s.target, item, env)
                broke = False
                try:
                    try:
                        self.block(s.body, env)
                    except _Continue:
                        pass
                    except _Break:
                        broke = True
                    except _Return as r:
                        kind, conds = self._close_iteration(s, fam, lo, hi, order, cond, snap, env, True, before, n_eff0, c0)
                        if any(isinstance(q, Sym) and q.path in (fam.k.path, fam.elem.path) for q in sparts(r.v)):
                            r.v = self.pick(fam, kind, conds, r.v)
                        raise
                finally:
                    self.iter_stack.pop()
                    self.run_state.effects.append(("iter-end", s, fam))
                self._close_iteration(s, fam, lo, hi, order, cond, snap, env, broke, before, n_eff0, c0)
        except _Break:
            pass
        if s.orelse:
            self.block(s.orelse, env)

    def _comp(self, n, env, kind):
        def rec(gi, e):
            if gi == len(n.generators):
                if kind == "dict":
                    k = self.concrete(self.ev(n.key, e))
                    return [("kv", k.path if isinstance(k, Sym) else k, self.ev(n.value, e))]
                return [self.ev(n.elt, e)]
            g = n.generators[gi]
            ph = self.phases(self.ev(g.iter, e))
            if ph is None:
                ph = [("star", self.family(Sym("?" + unparse(g.iter)[:60])), 0, 0, "fwd", None, None, ())]
            out = []
            for p in ph:
                e2 = dict(e)
                if p[0] == "one":
                    self.assign(g.target, p[1], e2)
                    if all(self.truth(self.ev(c, e2)) for c in g.ifs):
                        out.extend(rec(gi + 1, e2))
                    continue
                _, fam, lo, hi, order, item, idx, cond = p
                c0 = len(self.consulted)
                self.iter_stack.append((fam, lo, hi, order, n))
                try:
                    self.assign(g.target, fam.elem if item is None else item, e2)
                    ok = all(self.truth(self.ev(c, e2)) for c in g.ifs)
                    inner = rec(gi + 1, e2) if ok else []
                finally:
                    self.iter_stack.pop()
                if inner:
                    cnd = cond + (tuple((k, self.val.get(k)) for k in self.consulted[c0:] if fam.elem.path in k or fam.k.path in k) if g.ifs else ())
                    out.append(Star(fam, lo, hi, inner, order, cnd, n))
            return out
        res = rec(0, dict(env))
        if kind == "dict":
            d = {}
            for x in res:
                if isinstance(x, tuple) and x and x[0] == "kv":
                    d[x[1]] = x[2]
                elif isinstance(x, Star):
                    for y in x.items:
                        if isinstance(y, tuple) and y and y[0] == "kv":
                            d[("★", x.fam.k.path, y[1])] = Star(x.fam, x.lo, x.hi, [y[2]], x.order, x.cond, x.loop)
            return d
        return res

    # ------------------------------------------------------------------ truth / len / any
    def truth(self, v) -> bool:
        v = self.concrete(v)
        if isinstance(v, list) and v and all(isinstance(x, Star) for x in v):
            for x in v:
                if not x.items:
                    continue
                if x.cond or any(x.icond):
                    return True           # the generic element satisfied the filter in this valuation: it is an element of the list
                if x.lo == 0 and x.hi == 0 and isinstance(x.fam.root, Sym):
                    if self.truth(x.fam.root):
                        return True
                elif self.compare(ast.Gt(), self.add(x.fam.n, x.hi - x.lo), 0, None):
                    return True
            return False
        if isinstance(v, (Spl, View)):
            return True
        if isinstance(v, SliceSym) and isinstance(v.base, Sym) and (v.lo is None or isinstance(v.lo, int)) and (v.hi is None or isinstance(v.hi, int)) \
                and (v.lo or 0) >= 0 and (v.hi or 0) <= 0 and ((v.lo or 0) > 0 or (v.hi or 0) < 0):
            return self.compare(ast.Gt(), self._len(v), 0, None)
        if isinstance(v, MonoSym):
            return super().truth(Sym(v.path))
        return super().truth(v)

    def _len(self, v):
        v = self.concrete(v)
        if isinstance(v, list) and has_star(v):
            tot: Any = 0
            for x in v:
                if isinstance(x, Star):
                    if x.cond or any(isinstance(i, (Spl, Star)) for i in x.items):
                        return Sym(f"len({show(v)[:80]})")
                    per = len(x.items)
                    rng = self.add(x.fam.n, x.hi - x.lo)
                    for _ in range(per):
                        tot = self.add(tot, rng)
                elif isinstance(x, Spl):
                    tot = self.add(tot, self._len(x.term))
                else:
                    tot = self.add(tot, 1)
            return tot
        if isinstance(v, SliceSym) and isinstance(v.base, Sym) and (v.lo is None or isinstance(v.lo, int)) and (v.hi is None or isinstance(v.hi, int)):
            lo, hi = v.lo or 0, v.hi or 0
            if lo >= 0 and hi <= 0:
                return self.add(self.family(v.base).n, hi - lo)
        if isinstance(v, Sym):
            return self.family(v).n
        if isinstance(v, (list, tuple, dict, str, range)):
            return len(v)
        return Sym(f"len({show(v)[:60]})")

    # ------------------------------------------------------------------ expressions
    def _closed_const(self, n, env):
        """value of an expression that mentions no local name, by constant evaluation of the source's tables"""
        if id(n) in self._const_cache:
            return self._const_cache[id(n)]
        res = NOC
        fi = env.get("__fi__")
        names = [x for x in ast.walk(n) if isinstance(x, ast.Name)]
        if fi is not None and names and not any(x.id in env for x in names) and not any(isinstance(x, (ast.Lambda, ast.Await, ast.Yield)) for x in ast.walk(n)):
            roots = [self.pm.resolve(fi.module, x.id) for x in names]
            if all(r is not None and r[0] in ("class", "func", "value") for r in roots):
                try:
                    from ..consteval import const_expr
                    res = const_expr(self.pm, fi.module, n)
                except Exception:
                    res = NOC
        self._const_cache[id(n)] = res
        return res

    def closed_value(self, module: str, src: str):
        """value of a closed expression of the package (constant evaluator first, then symbolic evaluation; NOC if symbols remain)"""
        from ..consteval import const_expr
        node = ast.parse(src, mode="eval").body
        try:
            v = const_expr(self.pm, module, node)
        except Exception:
            v = NOC
        if v is not NOC:
            return v
        saved = (self.val, self.stores, self.run_state, self.depth)
        self.val, self.stores, self.run_state, self.depth = {}, {}, Run(), 0
        try:
            v = self.ev(node, {"__fi__": _ModScope(module)})
        except (NeedAtom, _Raise, Unsupported, RecursionError):
            v = NOC
        finally:
            self.val, self.stores, self.run_state, self.depth = saved
        if v is NOC or any(isinstance(p, (Sym, Star, Spl, View)) for p in sparts(v)) or isinstance(v, (Star, Spl, View)):
            return NOC
        return v

    def ev(self, n, env):
        if isinstance(n, (ast.Call, ast.Subscript)) and id(n) not in self._pre:
            c = self._closed_const(n, env)
            if c is not NOC and isinstance(c, (dict, list, tuple, set, frozenset, str, int, float, bool, type(None))):
                import copy
                return copy.deepcopy(c) if isinstance(c, (dict, list)) else (tuple(sorted(c, key=repr)) if isinstance(c, (set, frozenset)) else c)
        return super().ev(n, env)

    def ev_Name(self, n, env):
        if n.id not in env and n.id not in ("True", "False", "None"):
            fi = env.get("__fi__")
            if fi is not None:
                key = (fi.module, n.id)
                if key in self._modvals:
                    return self._modvals[key]
                r = self.pm.resolve(fi.module, n.id)
                if r and r[0] == "value" and not isinstance(r[1][1], ast.Constant) and self._mutated_global(r[1][0].name, n.id):
                    # process-wide mutable state: its initial literal does not describe it
                    val = Sym(f"?mutable:{n.id}")
                    self._modvals[key] = val
                    return val
                if r and r[0] == "value" and isinstance(r[1][1], ast.Call) and not self._resolving.get(key):
                    from ..consteval import const_expr
                    try:
                        c0 = const_expr(self.pm, r[1][0].name, r[1][1])
                    except Exception:
                        c0 = NOC
                    if c0 is NOC:
                        self._resolving[key] = True
                        try:
                            c0 = self.closed_value(r[1][0].name, unparse(r[1][1]))
                        finally:
                            self._resolving[key] = False
                        if c0 is not NOC and isinstance(c0, (dict, list, tuple)):
                            self._modvals[key] = c0
                            return c0
                if r and r[0] == "value" and isinstance(r[1][1], (ast.Dict, ast.List, ast.Tuple, ast.Set, ast.Lambda)) \
                        and any(isinstance(x, ast.Lambda) or (isinstance(x, ast.Name) and (self.pm.resolve(r[1][0].name, x.id) or ("",))[0] == "func") for x in ast.walk(r[1][1])):
                    mi, expr = r[1]
                    if not self._mutated_global(mi.name, n.id):
                        scope = _ModScope(mi.name)
                        try:
                            val = self.ev(expr, {"__fi__": scope})
                        except Unsupported:
                            val = None
                        if val is not None and not isinstance(val, Sym):
                            self._modvals[key] = val
                            return val
        return super().ev_Name(n, env)

    def _mutated_global(self, module: str, name: str) -> bool:
        """is the module-level name re-bound or its object mutated anywhere in the package (then its literal does not describe it)"""
        k = (module, name)
        if k not in self._mutglob:
            hit = False
            MUT = ("update", "setdefault", "pop", "clear", "append", "extend", "add", "discard", "remove", "popitem", "insert")
            for mi in self.pm.modules.values():
                aliases = {a.targets[0].id for a in ast.walk(mi.tree) if isinstance(a, ast.Assign) and len(a.targets) == 1 and isinstance(a.targets[0], ast.Name)
                           and isinstance(a.value, ast.Name) and a.value.id == name and a.targets[0].id != name}
                for x in ast.walk(mi.tree):
                    if aliases and isinstance(x, ast.Call) and isinstance(x.func, ast.Attribute) and isinstance(x.func.value, ast.Name) and x.func.value.id in aliases and x.func.attr in MUT:
                        hit = True
                    elif aliases and isinstance(x, ast.Subscript) and isinstance(x.ctx, (ast.Store, ast.Del)) and isinstance(x.value, ast.Name) and x.value.id in aliases:
                        hit = True
                    if isinstance(x, ast.Global) and name in x.names:
                        hit = True
                    elif isinstance(x, (ast.Subscript, ast.Attribute)) and isinstance(x.ctx, (ast.Store, ast.Del)) and isinstance(x.value, ast.Name) and x.value.id == name:
                        hit = True
                    elif isinstance(x, ast.Call) and isinstance(x.func, ast.Attribute) and isinstance(x.func.value, ast.Name) and x.func.value.id == name \
                            and x.func.attr in ("update", "setdefault", "pop", "clear", "append", "extend", "add", "discard", "remove", "popitem", "insert"):
                        hit = True
            self._mutglob[k] = hit
        return self._mutglob[k]

    def invoke(self, fi, recv, args, n, env, kw=None):
        if any(isinstance(x, (ast.Yield, ast.YieldFrom)) for x in walk_no_nested(fi.node)):
            a = fi.node.args
            ps = [x.arg for x in list(a.posonlyargs) + list(a.args)]
            bound = {}
            if fi.cls and not fi.is_static and ps:
                bound[ps[0]] = recv if recv is not None else Sym("self", fi.cls)
                ps = ps[1:]
            for p_, v_ in zip(ps, args):
                bound[p_] = v_
            for k_, v_ in (kw or {}).items():
                bound[k_] = v_
            out: list = []
            bound["__yield__"] = out
            bound["__fi__"] = fi
            if self.depth > self.inline_depth:
                raise Unsupported("inline depth exceeded at " + fi.short)
            self.depth += 1
            try:
                self.block(fi.node.body, bound)
            except _Return:
                pass
            finally:
                self.depth -= 1
            return out
        return super().invoke(fi, recv, args, n, env, kw)

    def ev_Yield(self, n, env):
        env.setdefault("__yield__", []).append(self.ev(n.value, env) if n.value is not None else None)
        return None

    def ev_YieldFrom(self, n, env):
        self._extend(env.setdefault("__yield__", []), self.ev(n.value, env), n)
        return None

    def ev_Starred(self, n, env):
        return Spl(self.ev(n.value, env))

    def ev_List(self, n, env):
        out = []
        for e in n.elts:
            v = self.ev(e, env)
            if isinstance(v, Spl):
                t = self.concrete(v.term)
                if isinstance(t, (list, tuple)):
                    out.extend(t)
                    continue
            out.append(v)
        return out

    def ev_Set(self, n, env):
        return tuple(self.ev_List(n, env))

    MUTATORS = ("pop", "remove", "clear", "reverse", "sort", "insert", "append", "extend", "popitem", "update", "setdefault", "add", "discard")

    def _rebind(self, env, old, new):
        for k2, v2 in list(env.items()):
            if v2 is old:
                env[k2] = new

    def _mutate(self, n, env):
        """in-place mutation of a sequence: a symbolic sequence bound to local names is re-bound to the mutated term
        (x.pop() -> x[:-1], x.pop(0) -> x[1:]), any other mutation makes it an unknown value (never silently ignored)"""
        f = n.func
        m = f.attr
        base = self.concrete(self.ev(f.value, env))
        self._pre[id(f.value)] = base
        if isinstance(base, Sym) and not isinstance(base, Init) or (isinstance(base, Init) and m in ("pop", "remove", "clear", "reverse", "sort", "insert")):
            if isinstance(base, (CallSym, SliceSym, SubSym, ElemSym, PosSym, Init)) and any(v2 is base for v2 in env.values()):
                args = [self.concrete(self.ev(a, env)) for a in n.args]
                self._pre.pop(id(f.value), None)
                self.run_state.effects.append(("call", m, base, tuple(args), {}, n, None))
                if m == "pop" and (not args or args == [-1]):
                    self._rebind(env, base, SliceSym(f"{base.path}[:-1]", None, base, None, -1))
                    return SubSym(f"{base.path}[-1]", None, base, -1)
                if m == "pop" and args == [0]:
                    self._rebind(env, base, SliceSym(f"{base.path}[1:]", None, base, 1, None))
                    return SubSym(f"{base.path}[0]", None, base, 0)
                if m == "append" and len(args) == 1 and not isinstance(base, Init):
                    self._rebind(env, base, [Spl(base), args[0]])           # the sequence followed by one more item
                    return None
                if m == "extend" and len(args) == 1 and not isinstance(base, Init):
                    new = [Spl(base)]
                    self._extend(new, args[0], n)
                    self._rebind(env, base, new)
                    return None
                self._rebind(env, base, Sym(f"?mutated:{base.path[:60]}.{m}(…)"))
                return Sym(f"?{base.path[:40]}.{m}(…)")
            return NOC
        if isinstance(base, list) and m in ("pop", "remove", "clear", "reverse", "sort"):
            args = [self.concrete(self.ev(a, env)) for a in n.args]
            self._pre.pop(id(f.value), None)
            self.run_state.effects.append(("call", m, base, tuple(args), {}, n, None))
            if m == "clear":
                base.clear()
                return None
            if m == "pop" and (not args or args == [-1]) and base and not isinstance(base[-1], (Star, Spl)):
                return base.pop()
            if m == "pop" and args == [0] and base and not isinstance(base[0], (Star, Spl)):
                return base.pop(0)
            if m in ("reverse", "sort") and not has_star(base) and not any(isinstance(x, Spl) for x in base) and m == "reverse":
                base.reverse()
                return None
            base[:] = [Spl(Sym(f"?mutated:{m}"))]
            return Sym(f"?{m}(…)")
        return NOC

    def _extend(self, base: list, v, node):
        v = self.concrete(v)
        if isinstance(v, (list, tuple)):
            base.extend(v)
        elif isinstance(v, Spl):
            base.append(v)
        else:
            base.append(Spl(v))

    def table_name(self, cont) -> str:
        try:
            keys = list(cont)
        except TypeError:
            keys = [repr(cont)]
        sig = repr(sorted(map(repr, keys)))
        nm = self._tnames.get(sig)
        if nm is None:
            nm = f"T{len(self._tnames) + 1}{{{', '.join(map(str, keys[:3]))}{'…' if len(keys) > 3 else ''}}}"
            self._tnames[sig] = nm
            self.tables[nm] = cont
        return nm

    def member(self, x, cont) -> bool:
        """x in cont for a symbolic x and a finite container of the source: one canonical atom per (term, table)"""
        if isinstance(x, SubSym) and isinstance(x.base, TableSym):
            tab = x.base.table
            vals = list(tab.values()) if isinstance(tab, dict) else list(tab)
            try:
                hits = [v in cont for v in vals]
                if all(hits):
                    return True
                if not any(hits):
                    return False
            except TypeError:
                pass
        tn = self.table_name(cont)
        key = f"{path_of(x)} ∈ {tn}"
        self.cmp[key] = ("member", x, cont)
        return self.atom(key, [True, False])

    def never_none(self, v) -> bool:
        if isinstance(v, PickSym):
            return self.never_none(v.term)
        if isinstance(v, (LinSym, MonoSym, RangeSym, SliceSym, CmpSym, TableSym)):
            return True
        if isinstance(v, Sym) and any(v.path == f.k.path or v.path == f.n.path for f in self.fams.values()):
            return True
        return isinstance(v, (list, tuple, dict, str, int, float, Spl, Star, View))

    def compare(self, op, l, r, node) -> bool:
        l, r = self.concrete(l), self.concrete(r)
        if isinstance(op, (ast.Is, ast.IsNot)) and r is None and self.never_none(l):
            return isinstance(op, ast.IsNot)
        if isinstance(op, (ast.In, ast.NotIn)):
            res = None
            if not isinstance(l, (Sym, list, dict, tuple, Spl, Star, View)) and isinstance(r, (dict, list, tuple, set, frozenset)) and not has_star(r):
                try:
                    res = l in (r if not isinstance(r, dict) else r.keys())
                except TypeError:
                    res = None
                if res is not None and not (isinstance(r, (list, tuple)) and any(isinstance(x, Sym) for x in r) and not res):
                    return res if isinstance(op, ast.In) else not res
                res = None
            if isinstance(l, Sym) and isinstance(r, (dict, list, tuple, set, frozenset)) and not has_sym(r) and not has_star(r):
                res = self.member(l, r)
            elif isinstance(l, Sym) and isinstance(r, (list, tuple)) and not has_star(r) and all(isinstance(x, (Sym, str, int, float, bool, type(None))) for x in r):
                # a literal collection with symbolic members: x in [a, b, s]  ==  x in [a, b] or x == s
                conc = [x for x in r if not isinstance(x, Sym)]
                res = any(x.path == l.path for x in r if isinstance(x, Sym))
                if not res and conc:
                    res = self.member(l, conc)
                if not res:
                    for x in r:
                        if isinstance(x, Sym) and self.compare(ast.Eq(), l, x, node):
                            res = True
                            break
            elif isinstance(r, Sym) and not isinstance(l, (list, dict)):
                key = f"{path_of(l)} ∈ {path_of(r)}"
                self.cmp[key] = ("member", l, r)
                res = self.atom(key, [True, False])
            elif isinstance(l, Sym) and isinstance(r, str):
                key = f"{path_of(l)} ∈ {r!r}"
                self.cmp[key] = ("substr", l, r)
                res = self.atom(key, [True, False])
            if res is not None:
                return res if isinstance(op, ast.In) else not res
        if type(op) in (ast.Lt, ast.LtE, ast.Gt, ast.GtE, ast.Eq, ast.NotEq) and (isinstance(l, Sym) or isinstance(r, Sym)):
            t = self._sign_decide(op, l, r)
            if t is not None:
                return t
        if isinstance(l, MonoSym) or isinstance(r, MonoSym):
            key = f"{path_of(l)} {_OPS[type(op)]} {path_of(r)}"
            self.cmp[key] = (type(op), l, r)
            return self.atom(key, [True, False])
        return super().compare(op, l, r, node)

    def nonneg(self, path: str, terms: dict) -> bool:
        """is the symbol known to be >= 0: a generic position, a length, a picked position"""
        if any(path in (f.k.path, f.n.path) for f in self.fams.values()):
            return True
        t = terms.get(path)
        if isinstance(t, PickSym):
            d = lin_of(t.term)
            return d is not None and all((k == "" and c >= 0) or (k != "" and c >= 0 and self.nonneg(k, {x.path: x for x in (t.term.terms if isinstance(t.term, LinSym) else [t.term]) if isinstance(x, Sym)})) for k, c in d.items())
        return path.startswith("len(")

    def _sign_decide(self, op, l, r):
        """decide a comparison whose linear form has only non-negative symbols with coefficients of one sign"""
        dl, dr = lin_of(l) if not isinstance(l, (str, list, tuple, dict, type(None))) else None, lin_of(r) if not isinstance(r, (str, list, tuple, dict, type(None))) else None
        if dl is None or dr is None:
            return None
        d = lin_sub(dl, dr)
        syms = [k for k in d if k != ""]
        if not syms:
            return None
        terms = {}
        for x in (l, r):
            for t in (x.terms if isinstance(x, LinSym) else ([x] if isinstance(x, Sym) else [])):
                terms[t.path] = t
        if not all(self.nonneg(k, terms) for k in syms):
            return None
        c = d.get("", 0)
        opn = {ast.Lt: "<", ast.LtE: "<=", ast.Gt: ">", ast.GtE: ">=", ast.Eq: "==", ast.NotEq: "!="}[type(op)]
        if all(d[k] > 0 for k in syms):          # value >= c
            if c > 0:
                return {"<": False, "<=": False, ">": True, ">=": True, "==": False, "!=": True}[opn]
            if c == 0:
                return {"<": False, ">=": True}.get(opn)
        if all(d[k] < 0 for k in syms):          # value <= c
            if c < 0:
                return {"<": True, "<=": True, ">": False, ">=": False, "==": False, "!=": True}[opn]
            if c == 0:
                return {">": False, "<=": True}.get(opn)
        return None

    def bounds_of(self, lin: dict):
        """interval of a single-symbol linear form under the comparisons consulted so far in this run"""
        syms = [k for k in lin if k != ""]
        if len(syms) != 1:
            return None
        s, a, c = syms[0], lin[syms[0]], lin.get("", 0)
        lo, hi = None, None
        for key, val in self.val.items():
            rec = self.cmp.get(key)
            if rec is None or not isinstance(rec[0], type) or not isinstance(val, bool):
                continue
            opt, l, r = rec
            dl, dr = lin_of(l), lin_of(r)
            if dl is None or dr is None:
                continue
            d = lin_sub(dl, dr)
            if [k for k in d if k != ""] != [s]:
                continue
            a2, c2 = d[s], d.get("", 0)          # a2*s + c2  op  0
            opn = {ast.Lt: "<", ast.LtE: "<=", ast.Gt: ">", ast.GtE: ">=", ast.Eq: "==", ast.NotEq: "!="}.get(opt)
            if opn is None:
                continue
            if not val:
                opn = {"<": ">=", "<=": ">", ">": "<=", ">=": "<", "==": "!=", "!=": "=="}[opn]
            if a2 < 0:
                a2, c2 = -a2, -c2
                opn = {"<": ">", "<=": ">=", ">": "<", ">=": "<=", "==": "==", "!=": "!="}[opn]
            t = Fraction(-c2) / Fraction(a2)       # s opn t
            import math
            if opn in (">", ">="):
                b = math.floor(t) + 1 if opn == ">" else math.ceil(t)
                lo = b if lo is None else max(lo, b)
            elif opn in ("<", "<="):
                b = math.ceil(t) - 1 if opn == "<" else math.floor(t)
                hi = b if hi is None else min(hi, b)
            elif opn == "==" and t.denominator == 1:
                lo = hi = int(t)
        # value range of a*s + c
        if a > 0:
            return (None if lo is None else a * lo + c, None if hi is None else a * hi + c)
        return (None if hi is None else a * hi + c, None if lo is None else a * lo + c)

    def ev_Subscript(self, n, env):
        base = self.concrete(self.ev(n.value, env))
        if isinstance(base, (dict, list, tuple)):
            if isinstance(n.slice, ast.Slice):
                lo = self.concrete(self.ev(n.slice.lower, env)) if n.slice.lower else None
                hi = self.concrete(self.ev(n.slice.upper, env)) if n.slice.upper else None
                if isinstance(base, list) and has_star(base):
                    st = aligned(base)
                    if st is not None and n.slice.step is None and (lo is None or (isinstance(lo, int) and lo >= 0)) and (hi is None or (isinstance(hi, int) and hi < 0)):
                        return [Star(st.fam, st.lo + (lo or 0), st.hi + (hi or 0), st.items, st.order, st.cond, st.loop)]
                    return Sym(f"?{show(base)[:60]}[{unparse(n.slice)}]")
                if isinstance(base, (list, tuple)) and not isinstance(lo, Sym) and not isinstance(hi, Sym) and n.slice.step is None:
                    return base[lo:hi]
                return Sym(f"?{unparse(n)[:60]}")
            k = self.concrete(self.ev(n.slice, env))
            if isinstance(base, list) and has_star(base):
                st = aligned(base)
                if st is None and len(base) == 1 and len(base[0].items) == 1 and base[0].cond and not base[0].icond[0] and k in (0, -1) and base[0].order in ("fwd", "rev") \
                        and not isinstance(base[0].items[0], (Spl, Star)):
                    f0 = base[0]
                    kind = ("last" if k == -1 else "first") if f0.order == "fwd" else ("first" if k == -1 else "last")
                    return self.pick(f0.fam, kind, f0.cond, f0.items[0])
                if st is not None and isinstance(k, int) and st.order == "fwd":
                    pos = (st.lo + k) if k >= 0 else self.add(st.fam.n, st.hi + k)
                    return self.at(st.fam, st.items[0], pos)
                if st is not None and isinstance(k, Sym):
                    d = lin_of(k)
                    if d is not None and d == {st.fam.k.path: 1} and st.lo == 0:
                        return st.items[0]
                return Sym(f"?{show(base)[:60]}[{path_of(k)}]")
            if isinstance(base, dict):
                if isinstance(k, Sym):
                    star = base.get(("★", next((f.k.path for f in self.fams.values() if f.elem.path == k.path), ""), k.path))
                    if isinstance(star, Star):
                        return star.items[0]
                    if any(isinstance(kk, tuple) and kk and kk[0] == "★" for kk in base):
                        return Sym(f"?{unparse(n)[:60]}")
                    if k.path in base:
                        return base[k.path]
                    tn = self.table_name(base)
                    ok = self.member(k, base)
                    self.lookups.append(("dict", tn, k, ok, n))
                    if not ok:
                        r = _Raise(f"KeyError {k.path}")
                        r.etype, r.node, r.implicit = "KeyError", n, True
                        raise r
                    return SubSym(f"{tn}[{k.path}]", None, TableSym(tn, None, base), k)
                if k in base:
                    return base[k]
                r = _Raise(f"KeyError {k!r}")
                r.etype, r.node, r.implicit = "KeyError", n, True
                raise r
            if isinstance(base, (list, tuple)):
                if isinstance(k, Sym):
                    return self._seq_index(base, k, n)
                if isinstance(k, int):
                    try:
                        return base[k]
                    except IndexError:
                        r = _Raise("IndexError")
                        r.etype, r.node, r.implicit = "IndexError", n, True
                        raise r
        if isinstance(base, Sym) and not isinstance(n.slice, ast.Slice) and path_of(base) in self.fams:
            k = self.concrete(self.ev(n.slice, env))
            fam = self.fams[path_of(base)]
            d = lin_of(k) if isinstance(k, Sym) else None
            if d is not None and d == {fam.k.path: 1}:
                return fam.elem
            self._pre[id(n.slice)] = k
        self._pre[id(n.value)] = base
        try:
            return super().ev_Subscript(n, env)
        finally:
            self._pre.pop(id(n.value), None)
            self._pre.pop(id(n.slice), None)

    def _seq_index(self, base, k, n):
        ln = len(base)
        d = lin_of(k)
        dom = ["in", "neg", "out"]
        if d is not None:
            b = self.bounds_of(d)
            if b is not None:
                lo, hi = b
                dom = []
                if (hi is None or hi >= 0) and (lo is None or lo <= ln - 1):
                    dom.append("in")
                if (lo is None or lo <= -1) and (hi is None or hi >= -ln):
                    dom.append("neg")
                if hi is None or hi >= ln or lo is None or lo < -ln:
                    dom.append("out")
        tn = self.table_name(base)
        key = f"index {path_of(k)} of {tn}"
        self.cmp[key] = ("index", k, base)
        which = dom[0] if len(dom) == 1 else self.atom(key, dom)
        self.lookups.append(("seq", tn, k, which, n))
        if which == "out":
            r = _Raise("IndexError")
            r.etype, r.node, r.implicit = "IndexError", n, True
            raise r
        return SubSym(f"{tn}[{path_of(k)}]{'(wrapped)' if which == 'neg' else ''}", None, TableSym(tn, None, base), k)

    def mono_of(self, v):
        if isinstance(v, bool):
            return None
        if isinstance(v, int):
            return Fraction(v), {}
        if isinstance(v, float):
            return Fraction(str(v)), {}
        if isinstance(v, Fraction):
            return v, {}
        if isinstance(v, MonoSym):
            return Fraction(v.coef), {p: (e, t) for p, e, t in v.factors}
        if isinstance(v, Sym):
            return Fraction(1), {v.path: (1, v)}
        return None

    def binop(self, op, l, r, node):
        l, r = self.concrete(l), self.concrete(r)
        if isinstance(op, ast.Add) and (isinstance(l, list) or isinstance(r, list)):
            out: list = []
            for x in (l, r):
                if isinstance(x, (list, tuple)):
                    out.extend(x)
                else:
                    out.append(x if isinstance(x, Spl) else Spl(x))
            return out
        if isinstance(op, ast.Add):
            # text concatenation of joined line sequences and literals: ''.join(seq) + 'lit'  ==  ''.join([*seq, 'lit'])
            def _joined(x):
                return isinstance(x, CallSym) and x.meth == "join" and x.recv == "" and len(x.args) == 1
            if (_joined(l) and (_joined(r) or isinstance(r, str))) or (_joined(r) and isinstance(l, str)):
                parts_: list = []
                for x in (l, r):
                    if isinstance(x, str):
                        if x:
                            parts_.append(x)
                    elif isinstance(x.args[0], (list, tuple)):
                        parts_.extend(x.args[0])
                    else:
                        parts_.append(Spl(x.args[0]))
                return CallSym(f"''.join({show(parts_)[:120]})", None, "", "join", (parts_,), ())
            if (isinstance(l, str) and isinstance(r, Sym)) or (isinstance(r, str) and isinstance(l, Sym)):
                # text concatenation with an uninterpreted text: keep the structure (a term, not a flat name)
                return CallSym(f"{show(l)[:100]} + {show(r)[:100]}", None, None, "+", (l, r), ())
        if isinstance(op, (ast.Mult, ast.Div)) and (isinstance(l, Sym) or isinstance(r, Sym)) and not isinstance(l, (str, list, tuple)) and not isinstance(r, (str, list, tuple)):
            a, b = self.mono_of(l), self.mono_of(r)
            if a is not None and b is not None and not (isinstance(op, ast.Div) and b[0] == 0):
                sign = 1 if isinstance(op, ast.Mult) else -1
                coef = a[0] * b[0] if sign == 1 else a[0] / b[0]
                fac = dict(a[1])
                for p, (e, t) in b[1].items():
                    e0 = fac.get(p, (0, t))[0] + sign * e
                    if e0 == 0:
                        fac.pop(p, None)
                    else:
                        fac[p] = (e0, t)
                if not fac:
                    return int(coef) if coef.denominator == 1 else float(coef)
                if coef == 1 and len(fac) == 1 and next(iter(fac.values()))[0] == 1:
                    return next(iter(fac.values()))[1]
                items = tuple(sorted((p, e, t) for p, (e, t) in fac.items()))
                txt = "·".join(([str(coef)] if coef != 1 else []) + [p if e == 1 else f"({p})^{e}" for p, e, _t in items])
                return MonoSym(txt, None, coef, items)
        return super().binop(op, l, r, node)

    def ev_Call(self, n, env):
        f = n.func
        if not isinstance(f, (ast.Name, ast.Attribute)):
            fv = self.ev(f, env)
            if isinstance(fv, tuple) and len(fv) == 3 and fv[0] == "closure":
                return self.call_closure(fv, [self.ev(a, env) for a in n.args], n, env)
            if isinstance(fv, tuple) and len(fv) == 2 and fv[0] == "func":
                return self.invoke(fv[1], None, [self.ev(a, env) for a in n.args], n, env, {k.arg: self.ev(k.value, env) for k in n.keywords if k.arg})
            args, kw = self._args(n, env)
            return CallSym(f"{show(fv)[:60]}({', '.join(show(a)[:60] for a in args)})", None, fv if isinstance(fv, Sym) else None, "()", args, tuple(sorted(kw.items(), key=lambda x: x[0])))
        if isinstance(f, ast.Name) and f.id not in env:
            nm = f.id
            if nm in self.watch:
                args, kw = self._args(n, env)
                ret = CallSym(f"{nm}({', '.join(show(a)[:80] for a in args)})", None, None, nm, args, tuple(sorted(kw.items(), key=lambda x: x[0])))
                self.run_state.effects.append(("call", nm, None, args, kw, n, ret))
                return ret
            if nm == "len" and len(n.args) == 1:
                return self._len(self.ev(n.args[0], env))
            if nm == "range" and len(n.args) == 3:
                a0, b0, st = (self.concrete(self.ev(a, env)) for a in n.args)
                if st == 1:
                    return RangeSym(f"range({path_of(a0)}, {path_of(b0)})", None, a0, b0) if not (isinstance(a0, int) and isinstance(b0, int)) else range(a0, b0)
                if st == -1 and isinstance(b0, int) and not isinstance(a0, int):
                    # range(hi, lo-1, -1) runs over lo..hi downwards
                    hi1 = self.add(a0, 1)
                    return View("reversed", [RangeSym(f"range({b0 + 1}, {path_of(hi1)})", None, b0 + 1, hi1)])
                if all(isinstance(x, int) for x in (a0, b0, st)) and st != 0:
                    return range(a0, b0, st)
                return Sym(f"?range({path_of(a0)}, {path_of(b0)}, {path_of(st)})")
            if nm in ("enumerate", "zip", "reversed", "sorted") and n.args:
                args = [self.ev(a, env) for a in n.args]
                start = 0
                if nm == "enumerate":
                    st = [self.ev(k.value, env) for k in n.keywords if k.arg == "start"] + args[1:2]
                    start = self.concrete(st[0]) if st else 0
                    args = args[:1]
                if nm == "sorted" and any(k.arg == "key" for k in n.keywords):
                    pass
                return View(nm, args, start)
            if nm in ("list", "tuple") and len(n.args) == 1:
                v = self.concrete(self.ev(n.args[0], env))
                if isinstance(v, View):
                    ph = self.phases(v)
                    if ph is not None and all(p[0] == "star" for p in ph):
                        return [Star(p[1], p[2], p[3], [p[5]], p[4], p[7]) for p in ph]
                    if ph is not None and all(p[0] == "one" for p in ph):
                        return [p[1] for p in ph]
                    return v
                if isinstance(v, (list, tuple)):
                    return list(v)
                if isinstance(v, Sym):
                    return [Spl(v)]
            if nm == "dict" and len(n.args) == 1 and not n.keywords:
                v = self.concrete(self.ev(n.args[0], env))
                if isinstance(v, View):
                    ph = self.phases(v)
                    v = [p[1] for p in ph] if ph is not None and all(p[0] == "one" for p in ph) else v
                if isinstance(v, dict):
                    return dict(v)
                if isinstance(v, (list, tuple)) and all(isinstance(x, (list, tuple)) and len(x) == 2 and not isinstance(x[0], (Sym, list, dict)) for x in v):
                    return {x[0]: x[1] for x in v}
                return Sym(f"?dict({show(v)[:60]})")
            if nm in ("set", "frozenset") and len(n.args) == 1:
                v = self.concrete(self.ev(n.args[0], env))
                if isinstance(v, (list, tuple)) and not has_star(v) and not has_sym(v):
                    return tuple(v)
                if isinstance(v, Sym) and not isinstance(v, (CallSym,)):
                    return CallSym(f"{nm}({v.path})", None, None, nm, (v,), ())
                return View("set", [v])
            if nm in ("any", "all") and len(n.args) == 1:
                v = self.concrete(self.ev(n.args[0], env))
                if isinstance(v, list):
                    flat = []

                    def fl(xs):
                        for x in xs:
                            if isinstance(x, Star):
                                fl(x.items)
                            else:
                                flat.append(x)
                    fl(v)
                    ts = [self.truth(x) for x in flat]
                    return any(ts) if nm == "any" else all(ts)
            if nm == "isinstance" and len(n.args) == 2:
                v = self.concrete(self.ev(n.args[0], env))
                if isinstance(v, list):
                    names = [x.id if isinstance(x, ast.Name) else x.attr for x in ast.walk(n.args[1]) if isinstance(x, (ast.Name, ast.Attribute))]
                    return "list" in names or "Sequence" in names
            if nm == "bool" and len(n.args) == 1:
                v = self.concrete(self.ev(n.args[0], env))
                if isinstance(v, Sym):
                    return CmpSym(f"bool({v.path})", None, ast.NotEq, v, 0) if False else self.truth(v)
        if isinstance(f, ast.Attribute) and isinstance(f.value, ast.Name) and f.value.id not in env:
            fi0 = env.get("__fi__")
            r0 = self.pm.resolve(fi0.module, f.value.id) if fi0 is not None else None
            if r0 and r0[0] == "class":
                cand = self.pm.find_method(r0[1].name, f.attr)
                if cand is not None and (cand.is_static or "classmethod" in cand.decorators) and f.attr not in self.watch and f.attr not in self.opaque_calls:
                    args = [self.ev(a, env) for a in n.args]
                    kw = {k.arg: self.ev(k.value, env) for k in n.keywords if k.arg}
                    recv = None if cand.is_static else Sym("cls", r0[1].name)
                    if not cand.is_static:
                        a_ = cand.node.args
                        ps = [x.arg for x in list(a_.posonlyargs) + list(a_.args)]
                        bound = {ps[0]: recv} if ps else {}
                        for p_, v_ in zip(ps[1:], args):
                            bound[p_] = v_
                        bound.update(kw)
                        return self.call_fi(cand, bound)
                    return self.invoke(cand, None, args, n, env, kw)
        if isinstance(f, ast.Attribute) and f.attr in self.MUTATORS:
            r = self._mutate(n, env)
            if r is not NOC:
                return r
        if isinstance(f, ast.Attribute):
            m = f.attr
            if m in ("append", "extend", "insert", "get", "values", "items", "keys", "join", "copy"):
                base = self.concrete(self.ev(f.value, env))
                if isinstance(base, list) and m in ("append", "extend", "insert"):
                    args = [self.ev(a, env) for a in n.args]
                    self.run_state.effects.append(("call", m, base, tuple(args), {}, n, None))
                    n0 = len(base)
                    if m == "append" and args:
                        base.append(args[0])
                    elif m == "extend" and args:
                        self._extend(base, args[0], n)
                    if self.iter_stack and isinstance(self.iter_stack[-1][4], ast.For):
                        gs = tuple((unparse(t)[:80], pol) for t, pol in guards(n, self.iter_stack[-1][4]))
                        if gs:
                            for j in range(n0, len(base)):
                                self.marks[(id(base), j)] = gs
                    elif m == "insert" and len(args) == 2:
                        i = self.concrete(args[0])
                        if isinstance(i, int) and not has_star(base):
                            base.insert(i, args[1])
                        else:
                            base.append(Sym(f"?insert({path_of(i)})"))
                    return None
                if isinstance(base, dict) and m in ("values", "items", "keys") and any(isinstance(k, tuple) and k and k[0] == "★" for k in base):
                    out = []
                    for k, v in base.items():
                        if isinstance(k, tuple) and k and k[0] == "★" and isinstance(v, Star):
                            keyterm = Sym(k[2]) if isinstance(k[2], str) else k[2]
                            item = v.items[0] if m == "values" else (keyterm if m == "keys" else (keyterm, v.items[0]))
                            out.append(Star(v.fam, v.lo, v.hi, [item], "dedup", v.cond, v.loop))
                        else:
                            out.append(v if m == "values" else (k if m == "keys" else (k, v)))
                    return out
                if isinstance(base, dict) and m == "get" and n.args:
                    k = self.concrete(self.ev(n.args[0], env))
                    if isinstance(k, Sym) and not any(isinstance(kk, tuple) and kk and kk[0] == "★" for kk in base) and k.path not in base:
                        dflt = self.ev(n.args[1], env) if len(n.args) > 1 else None
                        if self.member(k, base):
                            tn = self.table_name(base)
                            return SubSym(f"{tn}[{k.path}]", None, TableSym(tn, None, base), k)
                        return dflt
                if isinstance(base, str) and m == "join" and len(n.args) == 1:
                    a0 = self.concrete(self.ev(n.args[0], env))
                    if isinstance(a0, (list, tuple)) and all(isinstance(x, str) for x in a0):
                        return base.join(a0)
                    return CallSym(f"{base!r}.join({show(a0)[:80]})", None, base, "join", (a0,), ())
                if isinstance(base, list) and m == "copy":
                    return list(base)
                self._pre[id(f.value)] = base
                try:
                    return super().ev_Call(n, env)
                finally:
                    self._pre.pop(id(f.value), None)
        return super().ev_Call(n, env)


def sdt_env(fi, extra=(), overrides=None):
    """every parameter bound to its symbolic entry value; locals are created by their assignments"""
    fn = fi.node
    a = fn.args
    params = [x.arg for x in list(a.posonlyargs) + list(a.args) + list(a.kwonlyargs)]
    if a.vararg:
        params.append(a.vararg.arg)
    if a.kwarg:
        params.append(a.kwarg.arg)

    def make():
        env = {}
        for p in params:
            env[p] = Init(p, fi.cls if p in ("self",) else None)
        for nm in extra:
            env[nm] = Init(nm)
        if overrides:
            env.update(overrides() if callable(overrides) else overrides)
        env["__fi__"] = fi
        return env
    return make


SDT_ABSTRACTION = (
    "Abstract evaluation of the syntax tree (SDT, extending the decision-table evaluators sa/dtab.DT and sa/rules/c05.LDT): the analysed function is evaluated once "
    "over symbolic inputs; every parameter is an uninterpreted symbol standing for all values of its type, values are structured terms (call, subscript, slice, "
    "linear form, monomial, element / fixed position of a sequence, last-position pick); a sequence of unknown length N is traversed by ONE generic iteration at "
    "position K and what the iteration contributes is recorded as a position-quantified segment; literals and finite tables of the source are folded; whenever "
    "a condition has an undetermined truth value the evaluation forks, so ALL valuations of the consulted conditions are enumerated (no sampling, no solver; "
    "infeasible combinations are only pruned by interval reasoning on single-symbol linear comparisons). Nothing of the analysed package is imported or executed; "
    "no input value, file content, list length or fault is chosen by the checker.")


def declare_sdt(ctx: Ctx) -> None:
    if SDT_ABSTRACTION not in ctx.explanations:
        ctx.explain(SDT_ABSTRACTION)
    ctx.assume("a loop over a symbolic sequence is evaluated as one generic iteration (inductive step from a symbolic entry state); the conditions of different "
               "iterations are represented by the conditions of the generic one; zero iterations are covered only where an emptiness condition is consulted")
    ctx.assume("calls the evaluator does not resolve inside the package (builtins of the I/O layer, third-party libraries) are uninterpreted function symbols of their arguments; "
               "exceptions raised inside them are not modelled (only `raise` statements, failed look-ups in finite tables and out-of-range indices of finite sequences)")


def cover_rows(ctx: Ctx, name: str, rows) -> None:
    atoms = sorted({k for r in rows for k in r["val"]})
    ctx.extra.setdefault("abstract_evaluation", {})[name] = {"valuations_enumerated": len(rows), "conditions_consulted": len(atoms), "conditions": [a[:110] for a in atoms][:30]}


# ================================================================================================================
# C17 rules
# ================================================================================================================
READ_CALLS = {"readlines", "read", "read_text", "read_bytes", "splitlines"}
WRITE_CALLS = {"writelines", "write", "write_text", "write_bytes"}
EXIST_CALLS = {"exists", "isfile", "is_file"}
IO_WATCH = READ_CALLS | WRITE_CALLS | EXIST_CALLS | {"open", "lookup"}


def _open_mode(args, kw) -> str:
    kwd = dict(kw) if not isinstance(kw, dict) else kw
    m = kwd.get("mode", args[1] if len(args) > 1 else "r")
    return m if isinstance(m, str) else "?"


def _is_write_mode(m: str) -> bool:
    return any(ch in m for ch in "wax+")


def _mentions(v, path: str) -> bool:
    return any(isinstance(p, Sym) and p.path == path for p in sparts(v))


def _lin_over(d: dict, kpath: str, npath: str):
    """(a, b, c) of a*K + b*N + c if the form mentions nothing else"""
    if any(k not in (kpath, npath, "") for k in d):
        return None
    return Fraction(d.get(kpath, 0)), Fraction(d.get(npath, 0)), Fraction(d.get("", 0))


CLASSES = ((True, True), (True, False), (False, True), (False, False))      # (first, last)


def _decide(abc, op: str, cls) -> bool | None:
    """truth of a*K + b*N + c `op` 0 on a position class, None if it varies within the class.
    classes: (first,last): K=0,N=1 | K=0,N=2+t | K=N-1=1+t,N=2+t | K=1+s,N=3+s+t   (s,t >= 0)"""
    a, b, c = abc
    first, last = cls
    if first and last:
        c0, cs, ct = c + b, Fraction(0), Fraction(0)
    elif first:
        c0, cs, ct = c + 2 * b, Fraction(0), b
    elif last:
        c0, cs, ct = c + a + 2 * b, Fraction(0), a + b
    else:
        c0, cs, ct = c + a + 3 * b, a + b, b
    lo = c0 if cs >= 0 and ct >= 0 else None        # minimum (None = unbounded below)
    hi = c0 if cs <= 0 and ct <= 0 else None        # maximum
    const = cs == 0 and ct == 0
    if op in (">", ">=", "<", "<="):
        if op in ("<", "<="):
            lo, hi = (None if hi is None else -hi), (None if lo is None else -lo)
            op = ">" if op == "<" else ">="
        strict = op == ">"
        if lo is not None and (lo > 0 or (lo == 0 and not strict)):
            return True
        if hi is not None and (hi < 0 or (hi == 0 and strict)):
            return False
        return None
    if op in ("==", "!="):
        eq: bool | None
        if const:
            eq = c0 == 0
        elif (lo is not None and lo > 0) or (hi is not None and hi < 0):
            eq = False
        else:
            eq = None
        if eq is None:
            return None
        return eq if op == "==" else not eq
    return None


_OPN = {ast.Lt: "<", ast.LtE: "<=", ast.Gt: ">", ast.GtE: ">=", ast.Eq: "==", ast.NotEq: "!="}


class _Gap(Exception):
    pass


class AssembleSummary:
    """reads the symbolic summary of assemble_rtf"""

    def __init__(self, ctx: Ctx, fi, dt: SDT, rows, p_in: str, p_out: str):
        self.ctx, self.fi, self.dt, self.rows, self.p_in, self.p_out = ctx, fi, dt, rows, p_in, p_out
        self.fam = dt.fams.get(p_in)
        self.markers: set = set()
        self.offsets: set = set()
        self.seen_classes: set = set()
        self.gaps: list[str] = []
        self.seps: list = []
        self.char_strips: set = set()

    # ---- atoms
    def seq_atoms(self, row):
        """[(key, value, (a,b,c)|'truth'|None)] for the conditions about the input sequence as a whole / the generic position"""
        out = []
        kp, npth = (self.fam.k.path, self.fam.n.path) if self.fam is not None else ("κ⟨%s⟩" % self.p_in, "len(%s)" % self.p_in)
        for key, val in row["val"].items():
            rec = self.dt.cmp.get(key)
            if rec is None:
                continue
            if rec[0] == "truth" and isinstance(rec[1], Sym) and rec[1].path == self.p_in:
                out.append((key, val, "truth"))
                continue
            if isinstance(rec[0], type) and rec[0] in _OPN:
                dl, dr = lin_of(rec[1]), lin_of(rec[2])
                if dl is None or dr is None:
                    continue
                d = lin_sub(dl, dr)
                if not any(k in (kp, npth) for k in d):
                    continue
                abc = _lin_over(d, kp, npth)
                out.append((key, val, (abc, _OPN[rec[0]]) if abc is not None else None))
        return out

    def consistent(self, row, cls, pos=None) -> bool | None:
        """is the valuation of the row possible for a position of this class (None: not expressible)"""
        for key, val, form in self.seq_atoms(row):
            if form == "truth":
                if val is not True:
                    return False
                continue
            if form is None:
                return None
            abc, op = form
            t = _decide(abc, op, cls)
            if t is None:
                return None
            if t != val:
                return False
        return True

    def empty_consistent(self, row) -> bool:
        for key, val, form in self.seq_atoms(row):
            if form == "truth":
                if val is not False:
                    return False
            elif form is not None:
                (a, b, c), op = form
                if a != 0:
                    continue              # about the generic position: says nothing about the empty list
                v = c
                t = {">": v > 0, ">=": v >= 0, "<": v < 0, "<=": v <= 0, "==": v == 0, "!=": v != 0}[op]
                if t != val:
                    return False
        return True

    # ---- stream
    def stream(self, row):
        """the written content as [(segment, inside_loop)] in trace order"""
        out = []
        depth = []
        for e in row["effects"]:
            if e[0] == "iter":
                depth.append(e)
            elif e[0] == "iter-end":
                if depth:
                    depth.pop()
            elif e[0] == "call" and e[1] in WRITE_CALLS:
                recv, args = e[2], e[3]
                if not args:
                    continue
                content = self.dt.concrete(args[0]) if not isinstance(args[0], (list, Spl)) else args[0]
                items = self.flatten(content, e[1])
                if depth:
                    it = depth[-1]
                    if out and isinstance(out[-1], Star) and getattr(out[-1], "_iter", None) is it:
                        out[-1].items.extend(items)
                        out[-1].icond.extend([()] * len(items))
                        continue
                    st = Star(it[2], it[3], it[4], items, it[5], (), it[1])
                    st._iter = it
                    items = [st]
                out.extend(items)
        return out

    def flatten(self, content, meth):
        if isinstance(content, CallSym) and content.meth == "join" and isinstance(content.recv, str) and len(content.args) == 1:
            if content.recv != "":
                raise _Gap(f"the written text is joined with separator {content.recv!r}")
            return self.flatten(content.args[0], "writelines")
        if isinstance(content, (list, tuple)):
            out = []
            for x in content:
                if isinstance(x, Star):
                    sub = self.flatten(list(x.items), meth)
                    out.append(Star(x.fam, x.lo, x.hi, sub, x.order, x.cond, x.loop) if len(sub) != len(x.items) or any(a is not b for a, b in zip(sub, x.items)) else x)
                    continue
                if isinstance(x, CallSym) and x.meth == "join" and x.recv == "" and len(x.args) == 1:
                    out.extend(self.flatten(x, "writelines"))           # one text item that is itself a concatenation of lines
                    continue
                if isinstance(x, Spl):
                    t = self.dt.concrete(x.term) if isinstance(x.term, Sym) else x.term
                    if isinstance(t, (list, tuple)):
                        out.extend(self.flatten(t, meth))
                    else:
                        out.append(x)
                else:
                    out.append(x)
            return out
        if isinstance(content, str):
            return [content]
        if meth == "writelines":
            return [Spl(content)]
        return [content]

    # ---- verdict helpers
    def viol(self, offending: str, msg: str, where=None):
        self.ctx.violation("R17.2", self.fi.short, offending, where or self.fi.where(), msg)

    def lines_of(self, term):
        """(base, lo, hi) of a piece"""
        if isinstance(term, SliceSym):
            if isinstance(term.base, SliceSym):
                b, lo1, hi1 = self.lines_of(term.base)
                lo2, hi2 = term.lo, term.hi
                if lo2 is not None and not (isinstance(lo2, int) and lo2 >= 0):
                    raise _Gap(f"nested slice {path_of(term)[:80]}")
                lo = lo1 if not lo2 else (lo2 if lo1 is None else self.dt.add(lo1, lo2))
                if hi2 is None:
                    hi = hi1
                elif isinstance(hi2, int) and hi2 < 0 and (hi1 is None or _is_len_of(hi1, b)):
                    hi = hi2
                else:
                    raise _Gap(f"nested slice {path_of(term)[:80]}")
                return b, lo, hi
            return term.base, term.lo, term.hi
        return term, None, None

    def position_of(self, term):
        """('gen', fam) | ('pos', fam, lin) | None: which input the term was read from"""
        found = []
        for p in sparts(term):
            if isinstance(p, PosSym) and path_of(p.fam.root) == self.p_in:
                found.append(("pos", p.fam, p.pos))
            elif isinstance(p, ElemSym) and self.fam is not None and p.path == self.fam.elem.path:
                found.append(("gen", self.fam))
        uniq = []
        for f in found:
            if not any(f[0] == g[0] and (f[0] == "gen" or path_of(f[2]) == path_of(g[2])) for g in uniq):
                uniq.append(f)
        return uniq


def line_pred(dt, key: str, elem_path: str):
    """the predicate on the generic line an atom stands for: ('contains', m) | ('startswith', prefix, stripped) | None"""
    rec = dt.cmp.get(key)
    if rec is None:
        return None
    if rec[0] == "member" and isinstance(rec[1], str) and isinstance(rec[2], Sym) and rec[2].path == elem_path:
        return ("contains", rec[1])
    if rec[0] == "truth" and isinstance(rec[1], CallSym) and rec[1].meth == "startswith" and len(rec[1].args) == 1 and isinstance(rec[1].args[0], str):
        recv = rec[1].recv
        stripped = False
        if isinstance(recv, CallSym) and recv.meth in ("lstrip", "strip") and not recv.args:
            recv, stripped = recv.recv, True
        if isinstance(recv, Sym) and recv.path == elem_path:
            return ("startswith", rec[1].args[0], stripped)
    return None


def _is_len_of(v, base) -> bool:
    d = lin_of(v) if not isinstance(v, (str, type(None))) else None
    return d is not None and d == {f"len({path_of(base)})": 1}


def _is_len_minus(v, base, k: int) -> bool:
    d = lin_of(v) if not isinstance(v, (str, type(None))) else None
    return d is not None and d == {f"len({path_of(base)})": 1, "": -k}


def r17_2(ctx: Ctx):
    pm = ctx.pm
    fi = pm.func("assemble_rtf")
    a = fi.node.args
    params = [x.arg for x in list(a.posonlyargs) + list(a.args)]
    if len(params) < 2:
        ctx.gap("R17.2", "assemble_rtf no longer takes (inputs, output)")
        return None
    p_in, p_out = params[0], params[1]
    dt = SDT(pm, watch=IO_WATCH)
    try:
        rows = dt.table_rows(fi.node.body, sdt_env(fi), fi)
    except Unsupported as e:
        ctx.gap("R17.2", f"assemble_rtf could not be evaluated symbolically: {e}")
        return None
    cover_rows(ctx, "assemble_rtf", rows)
    sm = AssembleSummary(ctx, fi, dt, rows, p_in, p_out)
    ctx.instance("R17.2", fi.where(), f"assemble_rtf evaluated over a symbolic input list: {len(rows)} valuation(s) of {len({k for r in rows for k in r['val']})} condition(s); "
                                      f"sequence families: {sorted(dt.fams)[:4]}")
    n_checked = 0
    for row in rows:
        try:
            n_checked += _judge_row(ctx, sm, row)
        except _Gap as g:
            if str(g) not in sm.gaps:
                sm.gaps.append(str(g))
    for g in sm.gaps[:4]:
        ctx.gap("R17.2", g)
    want = {(True, True), (True, False), (False, True), (False, False)}
    missing = want - sm.seen_classes
    ctx.instance("R17.2", fi.where(), f"position classes (first,last) for which the emitted piece was judged: {sorted(sm.seen_classes)}; markers {sorted(sm.markers)}; offsets {sorted(sm.offsets)}")
    if missing and not ctx.findings and not sm.gaps:
        ctx.gap("R17.2", f"no valuation of assemble_rtf describes the positions {sorted(missing)} (first,last): the assembling loop was not re-identified")
    ctx.floor("R17.2", 4)
    return sm


def _judge_row(ctx: Ctx, sm: AssembleSummary, row) -> int:
    fi, dt = sm.fi, sm.dt
    eff = row["effects"]
    opens_w = [e for e in eff if e[0] == "call" and ((e[1] == "open" and _is_write_mode(_open_mode(e[3], e[4]))) or e[1] in ("write_text", "write_bytes"))]
    opens_r = [e for e in eff if e[0] == "call" and ((e[1] == "open" and not _is_write_mode(_open_mode(e[3], e[4]))) or e[1] in ("read_text", "read_bytes"))]
    desc = ", ".join(f"{k[:50]}={v}" for k, v in row["val"].items())
    # ---- the empty list touches nothing
    if sm.empty_consistent(row):
        depth = 0
        for e in eff:
            if e[0] == "iter":
                depth += 1
            elif e[0] == "iter-end":
                depth -= 1
            elif depth == 0 and e in opens_w:
                sm.viol("empty list opens the output", "for an empty input list assemble_rtf still opens/writes the output (no emptiness condition guards "
                        f"`{unparse(e[5])[:60]}`): an empty list must write nothing", fi.where(e[5]))
        ctx.instance("R17.2", fi.where(), f"valuation possible for the empty list [{desc}]: outcome {row['outcome'] if not isinstance(row['outcome'], tuple) else row['outcome'][:2]}, "
                                          f"{sum(1 for e in eff if e in opens_w)} write-open(s) outside loops checked")
    # ---- a missing input raises FileNotFoundError and nothing is written
    for key, val in row["val"].items():
        rec = dt.cmp.get(key)
        if rec and rec[0] == "truth" and isinstance(rec[1], CallSym) and rec[1].meth in EXIST_CALLS and val is False and _mentions(rec[1], sm.p_in):
            out = row["outcome"]
            raised = out[1] if isinstance(out, tuple) and out[0] == "raise" else None
            ok = raised is not None and ("FileNotFoundError" in exc_mro(ctx.pm, raised))
            ctx.instance("R17.2", fi.where(), f"generic input does not exist [{key[:60]} = False]: outcome {raised or out}, write-opens before: {len(opens_w)}")
            if not ok:
                sm.viol("missing input: " + (raised or "no exception"), f"when an input does not exist assemble_rtf {'raises ' + raised if raised else 'does not raise'} instead of FileNotFoundError")
            if opens_w:
                sm.viol("output written although an input is missing", "the output is opened for writing on a path on which an input was found missing", fi.where(opens_w[0][5]))
            return 1
    if isinstance(row["outcome"], tuple) and row["outcome"][0] == "raise":
        return 0
    st = sm.stream(row)
    if not st:
        return 0
    if sm.fam is None:
        raise _Gap("the input list is never traversed as a sequence")
    # ---- segments: position ranges must tile 0..N-1 in argument order
    segs = []
    for x in st:
        if isinstance(x, Star):
            segs.append(["star", x, list(x.items)])
        else:
            pos = sm.position_of(x.term if isinstance(x, Spl) else x) if not isinstance(x, str) else []
            if isinstance(x, str) or not pos:
                if segs and segs[-1][0] == "pos":
                    segs[-1][2].append(x)
                elif isinstance(x, str) and not segs:
                    sm.viol("content before the first input " + repr(x)[:30], f"the assembled file starts with {x!r}, not with the first input")
                elif isinstance(x, str):
                    segs.append(["lit", None, [x]])
                else:
                    raise _Gap(f"a written piece could not be attributed to an input: {show(x)[:100]}")
            else:
                if len(pos) > 1:
                    sm.viol("piece mixes inputs " + show(x)[:60], f"a written piece depends on several inputs: {show(x)[:120]}")
                    continue
                if pos[0][0] == "gen":
                    raise _Gap(f"a piece of the generic input is written outside the traversal: {show(x)[:100]}")
                if segs and segs[-1][0] == "pos" and path_of(segs[-1][1]) == path_of(pos[0][2]):
                    segs[-1][2].append(x)
                else:
                    segs.append(["pos", pos[0][2], [x]])
    npth = sm.fam.n.path
    cur: Any = 0
    for kind, what, items in segs:
        if kind == "lit":
            continue
        if kind == "star":
            if path_of(what.fam.root) != sm.p_in:
                root = what.fam.root
                if what.order in ("dedup", "sorted", "set", "rev") and isinstance(root, Sym) and _mentions(root, sm.p_in) or what.order == "dedup":
                    sm.viol("parts not one per argument", f"the parts are taken from `{path_of(root)[:80]}` ({what.order}), not from one entry per argument in argument order: "
                            "a path listed twice / reordered inputs are not reproduced")
                    return 1
                raise _Gap(f"the traversed sequence `{path_of(root)[:80]}` could not be related to the input list")
            if what.order != "fwd":
                sm.viol("input order " + what.order, f"the inputs are traversed in {what.order} order, not in argument order")
                return 1
            if what.cond:
                raise _Gap("the pieces are written for a filtered selection of the inputs")
            start, nxt = what.lo, dt.add(sm.fam.n, what.hi)
        else:
            start, nxt = what, dt.add(what, 1)
        ds, dc = lin_of(start), lin_of(cur)
        if ds is None or dc is None or lin_sub(ds, dc):
            sm.viol(f"positions {path_of(cur)}..{path_of(start)} skipped or repeated", f"the written segments do not cover the inputs consecutively: after position {path_of(cur)} "
                    f"the next written input is {path_of(start)}")
            return 1
        cur = nxt
    dc = lin_of(cur)
    if dc is None or lin_sub(dc, {npth: 1}):
        sm.viol(f"inputs from position {path_of(cur)} missing", f"the written segments end before the last input (next position {path_of(cur)}, N = {npth})")
        return 1
    # ---- pieces per position class
    n = 0
    for kind, what, items in segs:
        if kind == "lit":
            sm.viol("stray literal " + repr(items[0])[:30], f"literal content {items[0]!r} is written outside any input's piece")
            continue
        if kind == "star":
            lo, hi = what.lo, what.hi
            if lo not in (0, 1) or hi not in (0, -1):
                raise _Gap(f"traversal range [{lo}, N{hi:+d}] not expressible by first/last")
            feas = [c for c in CLASSES if (c[0] is False or lo == 0) and (c[1] is False or hi == 0)]
            if lo == 0 and hi == -1:
                feas = [c for c in feas if c != (True, True)]
            elem_kind = ("gen", sm.fam)
        else:
            d = lin_of(what)
            if d == {} or d == {"": 0}:
                feas = [(True, True), (True, False)]
            elif d == {npth: 1, "": -1}:
                feas = [(True, True), (False, True)]
            else:
                raise _Gap(f"fixed position {path_of(what)} is neither the first nor the last input")
            elem_kind = ("pos", what)
        for cls in feas:
            ok = sm.consistent(row, cls)
            if ok is None:
                raise _Gap("a condition on the position / the number of inputs is not decidable by first/last: " +
                           "; ".join(k for k, _v, f in sm.seq_atoms(row) if f is None or (f != "truth" and _decide(f[0], f[1], cls) is None))[:160])
            if not ok:
                continue
            sm.seen_classes.add(cls)
            n += 1
            _judge_piece(ctx, sm, row, cls, elem_kind, items, desc)
    _judge_separators(sm, desc)
    return n


def _judge_separators(sm: AssembleSummary, desc: str) -> None:
    """exactly one \\page line between consecutive inputs: written after every non-last piece, or before every later piece"""
    seps, sm.seps = sm.seps, []
    if not seps:
        return
    style_before = any(b for _c, b, _a, _d in seps)
    style_after = any(a for _c, _b, a, _d in seps)
    if style_before and style_after:
        if any(b and a for _c, b, a, _d in seps) or True:
            # both styles in one valuation: between some pair of inputs two separators (or none) are written
            both = [(c, b, a) for c, b, a, _d in seps]
            # a separator after piece p and one before piece p+1
            if any(a and not c[1] for c, _b, a in both) and any(b and not c[0] for c, b, _a in both):
                sm.viol("several separators", f"a \\page line is written after an input and another one before the next input [{desc[:120]}]")
                return
    for (first, last), before, after, d in seps:
        if len(before) > 1 or len(after) > 1:
            sm.viol("several separators", f"{(before + after)!r} are written around one input [{d[:120]}]")
        if style_before and not style_after:
            if first and before:
                sm.viol("separator before the first input", f"{before[0]!r} is written before the first input [{d[:120]}]")
            if not first and not before:
                sm.viol("no page line before a later input", f"a later input is not preceded by a \\page line [{d[:120]}]: it does not start on a new page")
        else:
            if last and after:
                sm.viol("separator after the last input", f"{after[0]!r} is written after the last input [{d[:120]}]")
            if not last and not after:
                sm.viol("no page line after a non-last input", f"a non-last input is not followed by a \\page line [{d[:120]}]: the next input does not start on a new page")
            if before and first:
                sm.viol("separator before the first input", f"{before[0]!r} is written before the first input [{d[:120]}]")


def _judge_piece(ctx: Ctx, sm: AssembleSummary, row, cls, elem_kind, items, desc) -> None:
    fi, dt = sm.fi, sm.dt
    first, last = cls
    label = f"{'first' if first else 'later'}/{'last' if last else 'non-last'} input"
    spl = [x for x in items if isinstance(x, Spl) or (isinstance(x, Sym))]
    lits = [x for x in items if isinstance(x, str)]
    if len(spl) != 1:
        if not spl:
            sm.viol(f"{label}: no content", f"for a {label} nothing of the input's lines is written")
            return
        raise _Gap(f"{label}: {len(spl)} pieces per input")
    piece = spl[0].term if isinstance(spl[0], Spl) else spl[0]
    base, lo, hi = sm.lines_of(piece)
    if isinstance(base, PickSym) or not isinstance(base, Sym):
        raise _Gap(f"{label}: the written piece is not a slice of a line list: {show(piece)[:100]}")
    pos = sm.position_of(base)
    if not pos:
        raise _Gap(f"{label}: the written lines `{path_of(base)[:80]}` do not derive from an input")
    reads = [p for p in sparts(base) if isinstance(p, CallSym) and (p.meth in READ_CALLS or p.meth == "open")]
    if not reads:
        raise _Gap(f"{label}: `{path_of(base)[:80]}` is not recognisably read from the input")
    if not (isinstance(base, CallSym) and base.meth in READ_CALLS | {"list", "tuple", "copy"}):
        for q in sparts(base):
            if isinstance(q, CallSym) and q.meth in ("rstrip", "strip") and len(q.args) == 1 and isinstance(q.args[0], str) and "}" in q.args[0] \
                    and any(isinstance(z, CallSym) and z.meth == "join" for z in sparts(q.recv)):
                sm.char_strips.add((q.args[0], last))             # judged against the writers' document tails in R17.1
        # the outermost operation must be the read itself: anything built on top of it (a join, a helper call, ...) is not a line list
        raise _Gap(f"{label}: the written value `{path_of(base)[:80]}` is derived from the input's lines by an operation the rule does not interpret")
    bp = path_of(base)

    def known(k) -> bool:
        rec = dt.cmp.get(k)
        if rec is None:
            return False
        if line_pred(dt, k, bp + "[κ]") is not None:
            return True                                   # marker predicate on the generic line
        if rec[0] == "truth" and path_of(rec[1]) == bp:
            return True                                   # emptiness of the line list
        if "}" in k and isinstance(rec[0], type):
            return True                                   # closing-line test
        return False
    odd = [k for k in row["val"] if bp in k and not known(k)]
    if any((dt.cmp.get(k) or ("",))[0] == "truth" and path_of(dt.cmp[k][1]) == bp and v is False for k, v in row["val"].items()):
        return                                            # an input without lines: every slice of it is empty

    def viol(offending, msg, where=None):
        if odd or "?" in show(piece):
            raise _Gap(f"{label}: the piece `{show(piece)[:80]}` depends on a condition the evaluator does not interpret ({(odd or ['unknown term'])[0][:80]})")
        sm.viol(offending, msg, where)
    # ---- start of the slice
    marker_true = None
    d_lo = None if lo is None else lin_of(lo)
    if d_lo is None and lo is not None:
        raise _Gap(f"{label}: start index {path_of(lo)[:80]} is not a linear form")
    d_lo = d_lo or {}
    picks = [t for t in (lo.terms if isinstance(lo, LinSym) else ([lo] if isinstance(lo, Sym) else [])) if isinstance(t, PickSym)]
    other = [k for k in d_lo if k != "" and not any(k == p.path for p in picks)]
    if first:
        if d_lo not in ({}, {"": 0}):
            viol("first input does not start at line 0", f"the first input is written from line `{path_of(lo)[:100]}`, not from its first line: its preamble is cut [{desc[:120]}]")
    else:
        if other:
            raise _Gap(f"{label}: start index {path_of(lo)[:100]} depends on {other[:2]}")
        if not picks:
            # no scan result: either no marker line exists on this path, or the preamble is kept
            marker_atoms = [(k, v) for k, v in row["val"].items() if line_pred(dt, k, path_of(base) + "[κ]") is not None]
            if any(v is True for _k, v in marker_atoms):
                viol("later input starts at a fixed line", f"a later input is written from line `{path_of(lo) if lo is not None else 0}` although a marker line was found: "
                        f"the preamble of later inputs is not skipped [{desc[:120]}]")
            elif not marker_atoms:
                viol("later input keeps its preamble", f"a later input is written from line `{path_of(lo) if lo is not None else 0}` without scanning for the end of its font table "
                        f"[{desc[:120]}]: every input but the first must start after its own preamble")
        else:
            pk = picks[0]
            if len(picks) > 1 or d_lo.get(pk.path) != 1:
                raise _Gap(f"{label}: start index {path_of(lo)[:100]} is not `scan result + constant`")
            root = pk.fam.root
            if path_of(root) != path_of(base):
                rp, bp = sm.position_of(root), sm.position_of(base)
                if not rp or [(x[0], path_of(x[2]) if x[0] == "pos" else "") for x in rp] == [(x[0], path_of(x[2]) if x[0] == "pos" else "") for x in bp]:
                    raise _Gap(f"{label}: the scanned sequence `{path_of(root)[:80]}` could not be related to the written lines `{path_of(base)[:60]}`")
                viol("start index from other lines", f"the start index of a later input is computed by scanning `{path_of(root)[:80]}`, not that input's own lines "
                        f"`{path_of(base)[:80]}`: the preamble length of one input is applied to another")
            dterm = lin_of(pk.term)
            if dterm is None or {k: v for k, v in dterm.items() if k != ""} != {pk.fam.k.path: 1}:
                raise _Gap(f"{label}: the scan keeps `{path_of(pk.term)[:60]}`, not the line index")
            off = d_lo.get("", 0) + dterm.get("", 0)
            ep = path_of(pk.fam.root) + "[κ]"
            ms = [(line_pred(dt, k, ep), v) for k, v in pk.conds if line_pred(dt, k, ep) is not None]
            extra = [(k, v) for k, v in pk.conds if line_pred(dt, k, ep) is None]
            if len(ms) != 1 or ms[0][1] is not True:
                raise _Gap(f"{label}: the scan condition {[k[:60] for k, _ in pk.conds][:2]} is not a recognised predicate on the line (`<marker> in line`, `line.startswith(<prefix>)`)")
            if extra:
                raise _Gap(f"{label}: the scan has further conditions {[k[:50] for k, _ in extra][:2]}")
            if pk.kind != "last":
                viol(f"scan takes the {pk.kind} marker line", f"the scan for the end of the font table keeps the {pk.kind} line satisfying {ms[0][0]!r}, not the last one: "
                        "for a later input part of the font table leaks into the assembled file")
            sm.markers.add(ms[0][0])
            sm.offsets.add(off)
    # ---- end of the slice
    whole = hi is None or _is_len_of(hi, base)
    minus1 = (isinstance(hi, int) and hi == -1) or (hi is not None and not isinstance(hi, int) and _is_len_minus(hi, base, 1))
    if not whole and not minus1:
        raise _Gap(f"{label}: end index {path_of(hi)[:80]} is neither the length nor length-1")
    brace = [(k, v) for k, v in row["val"].items() if "}" in k and any(isinstance(p, SubSym) and (path_of(p.base) == path_of(base) or path_of(p.base).startswith(path_of(base) + "[")) for t in (dt.cmp.get(k) or ("", None, None))[1:3] for p in sparts(t))]
    if last:
        if minus1:
            viol("last input loses its closing line", f"the last line of the last input is dropped [{desc[:120]}]: the assembled document is not closed")
    else:
        empty_base = any((dt.cmp.get(k) or ("",))[0] == "truth" and path_of(dt.cmp[k][1]) == path_of(base) and v is False for k, v in row["val"].items())
        if whole and not any(v is False for _k, v in brace) and not empty_base:
            viol("closing line of a non-last input kept", f"a non-last input is written up to its end [{desc[:120]}]: its closing brace ends the document before the following inputs")
    # ---- separators written with this piece (judged per valuation by _judge_separators)
    k0 = items.index(spl[0])
    before, after = items[:k0], items[k0 + 1:]
    for s0 in before + after:
        if not isinstance(s0, str):
            raise _Gap(f"{label}: separator {show(s0)[:60]} is not a literal")
        if not (s0.startswith("\\page") and s0.endswith("\n") and s0[5:].strip() == ""):
            viol(f"separator {s0!r}", f"the line written between two inputs is {s0!r}, not a \\page line")
    sm.seps.append((cls, before, after, desc))
    ctx.instance("R17.2", fi.where(), f"{label} [{desc[:140]}]: lines[{path_of(lo) if lo is not None else ''}:{path_of(hi) if hi is not None else ''}] of {path_of(base)[:50]}; separators before {before} after {after}")


# ---------------------------------------------------------------------------------------------- R17.1 writer side
def _satisfies(pred, line: str):
    """does a (possibly partial, '\0' = unknown continuation) line satisfy the reader's predicate: True / False / None (unknown)"""
    if pred[0] == "contains":
        if pred[1] in line.replace("\0", "\n"):
            return True
        return None if "\0" in line else False
    pre, stripped = pred[1], pred[2]
    t = line.lstrip() if stripped else line
    known, open_end = t.split("\0")[0], "\0" in t
    if known.startswith(pre):
        return True
    if open_end and pre.startswith(known):
        return None
    return False


def line_heads(sh, start: set, n: int, budget: list):
    """abstract run over a shape: the set of possible heads (first n characters, '\0' = non-literal continuation) of every line
    that can begin inside it.  start / result: the possible heads of the line that is open at the beginning / end"""
    heads: set = set()

    def lit(states, text):
        out = set()
        for p in states:
            cur = p
            for ch in text:
                if ch == "\n":
                    heads.add(cur)
                    cur = ""
                elif len(cur) < n and not cur.endswith("\0"):
                    cur += ch
            out.add(cur)
        return out

    def run(x, states):
        budget[0] -= 1
        if budget[0] < 0:
            raise _Gap("the document shape is too large for the line analysis")
        if isinstance(x, S.Lit):
            return lit(states, x.s)
        if isinstance(x, (S.Int, S.Flt, S.Txt, S.Unk)):
            return {p if (len(p) >= n or p.endswith("\0")) else p + "\0" for p in states}
        if isinstance(x, S.EB):
            return states
        if isinstance(x, S.Seq):
            for it in x.items:
                states = run(it, states)
            return states
        if isinstance(x, S.Alt):
            out = set()
            for it in x.items:
                out |= run(it, set(states))
            return out
        if isinstance(x, S.Star):
            acc = set(states)
            frontier = set(states)
            for _ in range(6):
                nxt = run(x.body, frontier) - acc
                if not nxt:
                    break
                acc |= nxt
                frontier = nxt
            else:
                raise _Gap("line analysis of a repeated part did not stabilise")
            return acc
        return states
    end = run(sh, set(start))
    return heads, end


def r17_1(ctx: Ctx, markers: set, offsets: set, char_strips=()) -> None:
    """the literal preamble the encoders write, against the marker / offset the reader uses"""
    pm = ctx.pm
    it = make_interp(pm)
    rfi = pm.func("assemble_rtf")
    if len(markers) != 1 or len(offsets) != 1:
        ctx.gap("R17.1", f"the reader's marker / offset could not be determined uniquely from the symbolic summary (markers {sorted(markers)}, offsets {sorted(map(str, offsets))})")
        marker = add = None
    else:
        marker, add = next(iter(markers)), next(iter(offsets))
        ctx.instance("R17.1", rfi.where(), f"reader: a later input starts at (last line satisfying {marker!r}) + {add}")
    for path in PATHS:
        fi = pm.func(path)
        _, sh = doc_shape(it, pm, path)
        for a in S.alternatives(sh):
            items = S.items_of(a)
            if a == S.EPS:
                continue
            if not items or not isinstance(items[0], S.Lit):
                ctx.gap("R17.1", f"{path}: the document does not start with a literal preamble (shape {S.show(a, 80)})")
                continue
            pre = items[0].s
            start = pre.find("{\\fonttbl")
            depth, pos_close = 0, None
            for k in range(start, len(pre)) if start >= 0 else ():
                if pre[k] == "{":
                    depth += 1
                elif pre[k] == "}":
                    depth -= 1
                    if depth == 0:
                        pos_close = k
                        break
            if pos_close is None:
                ctx.gap("R17.1", f"{path}: the font table is not a literal part of the preamble (it ends at {pre[-30:]!r}); the line layout written by the encoder cannot be determined")
                continue
            close_line = pre.count("\n", 0, pos_close)
            rest_lit = pre[pos_close + 1:]
            if "\n" in rest_lit:
                same_line_tail = rest_lit.split("\n")[0]
                tail_desc = repr(same_line_tail)
                clean = same_line_tail == ""
            else:
                heads = S.heads(S.seq(*items[1:]), 1)
                clean = rest_lit == "" and heads <= {"\n"}
                tail_desc = repr(rest_lit) + " then " + str(sorted(heads))
            ctx.instance("R17.1", fi.where(), f"{path}: font table closes on line {close_line} of the preamble, body starts on line {close_line + 1}; closing line tail {tail_desc}")
            if not clean:
                ctx.violation("R17.1", path, "font-table closing line carries content", fi.where(),
                              f"{path}: the line that closes the font table can continue with other content ({tail_desc}); a line-based reader drops or keeps that whole line "
                              "for every input but the first")
            for chars, on_last in sorted(char_strips):
                # the reader strips trailing CHARACTERS of the joined text instead of dropping the closing LINE: what precedes the closing line must not end in one of them
                for t in sorted(S.tails(a, 12)):
                    if not t.endswith("}"):
                        continue
                    before = t[:-1].rstrip("\n")
                    eaten = len(before) - len(before.rstrip(chars))
                    ctx.instance("R17.1", fi.where(), f"{path}: document tail {t!r}: rstrip({chars!r}) removes {eaten} character(s) beyond the closing line")
                    if eaten > 0 and "\0" not in before[-(eaten + 1):]:
                        ctx.violation("R17.1", path, f"rstrip({chars!r}) eats content", rfi.where(),
                                      f"{path}: assemble_rtf removes the closing brace of a non-last input by stripping the characters {chars!r} from the end of its text; a document "
                                      f"ends in {t!r}, so {eaten} further character(s) of the content (closing braces of the last group) are removed too: the assembled file is not well-formed")
                        break
            tails = S.tails(a, 3)
            bad = [t for t in tails if not t.endswith("\n}")]
            ctx.instance("R17.1", fi.where(), f"{path}: document tails {sorted(tails)}")
            if bad:
                ctx.violation("R17.1", path, "last line " + repr(sorted(bad)[0]), fi.where(),
                              f"{path}: the document does not end with a line consisting of '}}' only ({sorted(bad)[0]!r}); dropping the last line of non-final inputs removes "
                              "content or leaves the group open")
            if marker is None:
                continue
            lines = pre.split("\n")
            idx = [i for i, ln in enumerate(lines[:close_line + 1]) if _satisfies(marker, ln) is True]
            if not idx:
                ctx.violation("R17.1", path, f"marker {marker} absent", fi.where(), f"{path}: the font table contains no line satisfying {marker!r}; assemble_rtf keeps the whole file of later inputs")
                continue
            # the reader takes the LAST line satisfying the predicate: no line after the font table may satisfy it
            try:
                after_pre = "\n".join(lines[close_line + 1:])
                n_head = (len(marker[1]) + 12) if marker[0] == "startswith" else 0
                late = None
                if marker[0] == "contains":
                    late = next((x.s for x in S.walk(S.seq(S.Lit(after_pre), *items[1:])) if isinstance(x, S.Lit) and marker[1] in x.s), None)
                else:
                    hs, end = line_heads(S.seq(S.Lit(after_pre), *items[1:]), {""}, n_head, [200000])
                    late = next((h for h in sorted(hs | end) if _satisfies(marker, h) is True), None)
                ctx.instance("R17.1", fi.where(), f"{path}: lines after the font table that can satisfy the reader's predicate {marker!r}: {late!r}")
                if late is not None:
                    ctx.violation("R17.1", path, f"predicate {marker[1]!r} also holds after the font table", rfi.where(),
                                  f"{path}: a line after the font table can satisfy the reader's scan predicate {marker!r} (e.g. a line beginning `{late[:30]}`): the reader takes the "
                                  "LAST such line, so for such a document everything up to that line (colour table, page header/footer, paper geometry) is cut from later inputs")
            except _Gap as g_:
                ctx.gap("R17.1", f"{path}: {g_}")
            expect = close_line - idx[-1] + 1
            ctx.instance("R17.1", fi.where(), f"{path}: last line satisfying {marker!r}: {idx[-1]}, font table closes on line {close_line}: the writer needs +{expect}, the reader adds +{add}")
            if expect != add:
                ctx.violation("R17.1", path, f"offset writer {expect} reader {add}", rfi.where(),
                              f"{path}: the body starts {expect} line(s) after the last line satisfying {marker!r} but assemble_rtf skips {add}: "
                              + ("part of the preamble leaks into" if add < expect else "body lines are cut from") + " later inputs")
    ctx.floor("R17.1", 6)


# ---------------------------------------------------------------------------------------------- R17.3 ordering on the CFG, memoised readers
def _io_kind(pm, cg, fi, call: ast.Call, depth: int = 0):
    """'read' | 'write' | 'exists' | None for one call (following calls into the package)"""
    d = dotted(call.func)
    last = d.split(".")[-1]
    if d == "open" or (isinstance(call.func, ast.Attribute) and last == "open" and not d.startswith(("os.", "io.", "codecs."))) or d in ("io.open", "codecs.open"):
        pos = 1 if d in ("open", "io.open", "codecs.open") else 0
        m = call.args[pos] if len(call.args) > pos else next((k.value for k in call.keywords if k.arg == "mode"), None)
        if m is None:
            return "read"
        if isinstance(m, ast.Constant) and isinstance(m.value, str):
            return "write" if _is_write_mode(m.value) else "read"
        return "write"
    if isinstance(call.func, ast.Attribute) and last in ("write_text", "write_bytes", "touch", "unlink", "rename", "replace", "symlink_to"):
        return "write"
    if d in ("shutil.move", "shutil.copy", "shutil.copy2", "shutil.copyfile", "os.remove", "os.rename", "os.replace", "os.unlink"):
        return "write"
    if isinstance(call.func, ast.Attribute) and last in ("read_text", "read_bytes"):
        return "read"
    if last in EXIST_CALLS:
        return "exists"
    if depth < 3:
        kinds = set()
        for cand in cg.resolve_call(fi, call)[:4]:
            if cand.cls and id(call) in cg.imprecise:
                continue
            for c2 in walk_no_nested(cand.node):
                if isinstance(c2, ast.Call):
                    k = _io_kind(pm, cg, cand, c2, depth + 1)
                    if k in ("read", "write"):
                        kinds.add(k)
        if "write" in kinds:
            return "write"
        if "read" in kinds:
            return "read"
    return None


def r17_3(ctx: Ctx) -> None:
    pm = ctx.pm
    from ..callgraph import CallGraph
    from ..effects import memo_is_pure
    fi = pm.func("assemble_rtf")
    cg = CallGraph(pm)
    g = CFG(fi.node)
    live = g.reachable(g.entry)
    dom = g.dominators()
    kinds: dict[int, set] = {}
    sites: dict[int, list] = {}
    for nd in g.nodes:
        if nd.ast is None or id(nd) not in live:
            continue
        for part in own_parts(nd):
            for c in ast.walk(part):
                if isinstance(c, ast.Call):
                    k = _io_kind(pm, cg, fi, c)
                    if k:
                        kinds.setdefault(id(nd), set()).add(k)
                        sites.setdefault(id(nd), []).append((k, c))
    byid = {id(nd): nd for nd in g.nodes}
    reads = [byid[i] for i, ks in kinds.items() if "read" in ks]
    writes = [byid[i] for i, ks in kinds.items() if "write" in ks]
    ctx.instance("R17.3", fi.where(), f"assemble_rtf CFG: {len(reads)} node(s) reading files, {len(writes)} node(s) opening/writing files")
    if not writes:
        ctx.gap("R17.3", "no file-writing operation was re-identified in assemble_rtf")
    if not reads:
        ctx.gap("R17.3", "no file-reading operation was re-identified in assemble_rtf")
    for w in writes:
        after = g.reachable(w)
        late = [r for r in reads if id(r) in after and (r is not w or _in_loop(w.ast, fi.node))]
        ctx.instance("R17.3", fi.where(w.ast), f"write `{unparse([c for k, c in sites[id(w)] if k == 'write'][0])[:60]}`: input reads reachable afterwards: {len(late)}")
        if late:
            ctx.violation("R17.3", fi.short, "input read after output open", fi.where(late[0].ast),
                          f"an input file is read (`{unparse([c for k, c in sites[id(late[0])] if k == 'read'][0])[:60]}`) after the output has been opened for writing "
                          f"(`{unparse([c for k, c in sites[id(w)] if k == 'write'][0])[:60]}`): a missing or unreadable later input leaves a partial output / an existing output is destroyed")
    # explicit existence check: the test guarding `raise FileNotFoundError`
    checks = []
    for nd in g.nodes:
        if id(nd) in live and isinstance(nd.ast, ast.Raise) and nd.ast.exc is not None and "FileNotFoundError" in exc_mro(pm, dotted(nd.ast.exc.func if isinstance(nd.ast.exc, ast.Call) else nd.ast.exc)):
            gs = guards(nd.ast, fi.node)
            from ..astmatch import resolve
            tests = [t for t, _pol in gs if any(isinstance(c, ast.Call) and dotted(c.func).split(".")[-1] in EXIST_CALLS for c in ast.walk(resolve(t, fi.node)))]
            if not tests and gs:
                tests = [gs[0][0]]
            for t in g.nodes:
                if id(t) in live and t.kind == "test" and isinstance(t.ast, ast.If) and any(t.ast.test is x for x in tests):
                    checks.append((t, nd))
    if not checks:
        ctx.instance("R17.3", fi.where(), "no explicit existence check: a missing input surfaces as the FileNotFoundError of the read itself (all reads precede the first write)")
    for t, rz in checks:
        loop = next((a for a in _ancestors(t.ast, fi.node) if isinstance(a, (ast.For, ast.While))), None)
        tdom = t
        if loop is not None:
            tdom = next((nd for nd in g.nodes if nd.kind == "loop" and nd.ast is loop), t)
        for w in writes:
            dominated = id(tdom) in dom.get(id(w), set())
            same_loop = loop is not None and any(a is loop for a in _ancestors(w.ast, fi.node))
            ctx.instance("R17.3", fi.where(t.ast), f"existence check `{unparse(t.ast.test)[:50]}` dominates write at line {w.line}: {dominated}; write inside the checking loop: {same_loop}")
            if not dominated:
                ctx.violation("R17.3", fi.short, "write not dominated by existence check", fi.where(w.ast), "the output is opened for writing on a path that has not passed the existence check of the inputs")
            elif same_loop:
                ctx.violation("R17.3", fi.short, "write inside the existence-check loop", fi.where(w.ast), "the output is written while later inputs have not been checked for existence yet")
    # memoised functions that read files: a later call assembles stale content
    reach = cg.reachable(["assemble_rtf"])
    n_memo = 0
    for short in sorted(reach):
        f2 = pm.funcs.get(short)
        if f2 is None:
            continue
        memo = [d for d in f2.decorators if d.split(".")[-1] in ("lru_cache", "cache", "cached", "memoize")]
        if not memo:
            continue
        n_memo += 1
        pure, why = memo_is_pure(pm, f2)
        ctx.instance("R17.3", f2.where(), f"{short} is memoised ({memo[0]}): result depends only on its arguments: {pure} ({why})")
        if not pure:
            ctx.violation("R17.3", short, "memoised " + memo[0], f2.where(), f"{short} (used by assemble_rtf) is memoised ({memo[0]}) but {why}: a later call assembles the content a path had "
                          "the first time it was read")
    ctx.instance("R17.3", fi.where(), f"{len(reach)} function(s) on assemble_rtf's call graph, {n_memo} memoised")


def _ancestors(n, stop):
    p = getattr(n, "_parent", None)
    while p is not None and p is not stop:
        yield p
        p = getattr(p, "_parent", None)


def _in_loop(n, stop) -> bool:
    return any(isinstance(a, (ast.For, ast.While)) for a in _ancestors(n, stop))



def r17_2_content_skip(ctx: Ctx) -> None:
    """structural complement of R17.2: the index at which a later input's body starts may depend on the position of the
    font-table marker only.  An index that is ADVANCED under a condition on the content of the line it points at, where
    that condition does not mention the marker, drops lines of the input by what they contain (page geometry, margins,
    blank lines ...) - positive evidence that a later input no longer keeps its own body."""
    import ast as _ast
    from ..pm import unparse as _u, walk_no_nested as _walk
    pm = ctx.pm
    fns = [f for f in pm.funcs.values() if f.module.endswith(".assemble")]
    n_loops = 0
    for fi in fns:
        markers = {c.value for c in _ast.walk(fi.node) if isinstance(c, _ast.Compare) and any(isinstance(o, (_ast.In, _ast.NotIn)) for o in c.ops)
                   for c in [c.left] if isinstance(c, _ast.Constant) and isinstance(c.value, str)}
        for w in [n for n in _ast.walk(fi.node) if isinstance(n, _ast.While)]:
            n_loops += 1
            incs = {a.target.id for a in _ast.walk(w) if isinstance(a, _ast.AugAssign) and isinstance(a.target, _ast.Name) and isinstance(a.op, _ast.Add)}
            for idx in incs:
                reads = [sub for sub in _ast.walk(w.test) if isinstance(sub, _ast.Subscript) and isinstance(sub.slice, _ast.Name) and sub.slice.id == idx]
                if not reads:
                    continue
                lits = {c.value for c in _ast.walk(w.test) if isinstance(c, _ast.Constant) and isinstance(c.value, str)}
                used_as_start = any(isinstance(r, _ast.Return) and r.value is not None and any(isinstance(x, _ast.Name) and x.id == idx for x in _ast.walk(r.value)) for r in _ast.walk(fi.node)) \
                    or any(isinstance(sl, _ast.Slice) and sl.lower is not None and any(isinstance(x, _ast.Name) and x.id == idx for x in _ast.walk(sl.lower)) for sl in _ast.walk(fi.node))
                ctx.instance("R17.2", fi.where(w), f"{fi.short}: while loop advances `{idx}` under a test of `{_u(reads[0])}` (literals {sorted(lits)[:4]}); used as a start index: {used_as_start}")
                if used_as_start and not (lits & markers):
                    ctx.violation("R17.2", fi.short, "body start advanced by line content", fi.where(w),
                                  f"{fi.short}: the start index `{idx}` of an input's body is advanced while `{_u(w.test)[:100]}` holds - lines are skipped because of what they contain, "
                                  "not because they belong to the font table: a later input loses its own page geometry / leading lines")
    ctx.extra["r17_2_while_loops_inspected"] = n_loops


def check(ctx: Ctx) -> None:
    ctx.explain(
        "R17.1 layout agreement between writers and reader: from the abstract document shape of each encode path the literal preamble is taken; the line offset from the last line "
        "containing the reader's marker to the first body line must equal the constant the reader adds, the font-table closing line must carry nothing else and every alternative "
        "must end in a line that is exactly '}'. R17.2 assemble_rtf is evaluated once over a symbolic input list (length N, generic position K): the written stream is read off as "
        "position-quantified segments and judged for every position class (first/last) x every valuation of the consulted conditions: segments tile 0..N-1 in argument order, "
        "each piece is a slice of the lines read from its own input starting at 0 (first) or at last-marker-line + c found by scanning those same lines (later), ending before "
        "the closing line for non-last inputs, followed by a \\page line exactly for non-last inputs; valuations possible for the empty list open nothing; where an existence "
        "test of the generic input fails FileNotFoundError is raised before any write. R17.3 CFG: no input read is reachable from a write, an explicit existence check dominates "
        "the writes and is not interleaved with them; memoised file readers on the call graph.")
    declare_sdt(ctx)
    ctx.assume("inputs were written by this version of rtflite (the property's premise): R17.1 ties the reader's marker and offset to the writers' literal preamble")
    ctx.assume("conditions that are linear in the generic position K and the number of inputs N are decided exactly on the four position classes (K=0,N=1), (K=0,N>=2), (K=N-1,N>=2), "
               "(0<K<N-1); any other condition on the sequence as a whole is an analysis gap")
    ctx.undecided("that the assembled pages equal the concatenation for concrete inputs (content of body lines; lines that themselves contain the marker); colour tables of later inputs")
    ctx.undecided("I/O errors other than a missing input; interplay of more than one loop iteration beyond the generic inductive step")
    r17_2_content_skip(ctx)
    sm = r17_2(ctx)
    r17_1(ctx, sm.markers if sm else set(), sm.offsets if sm else set(), sm.char_strips if sm else ())
    r17_3(ctx)
