"""C03 - no page exceeds the nrow row budget (structural necessary conditions).

R03.1 budget ledger: every per-page row emitter of PageRenderer.render has a reservation term or a
per-row budget term whose guard is implied by the emitter's guard; R03.2 break guard normal form and
available rows (shared R04.1); R03.3 the width estimator receives the cell's own font and size and
its own column width, per cell; R03.4 sibling keyword agreement of the three strategies (shared
R04.2); R03.5 row height = data + page_by heading + subline heading, each >= 1 (shared R04.6);
R03.6 column width per displayed column from cumulative boundaries, removed columns skipped.
"""
from __future__ import annotations

import ast

from ..linform import linform, single_assign_env
from ..pm import dotted, unparse, walk_no_nested
from ..report import Ctx


def r03_1(ctx: Ctx) -> None:
    pm = ctx.pm
    res = pm.func("RTFDocumentService.calculate_additional_rows_per_page")
    tr = unparse(res.node)
    rend = pm.func("PageRenderer.render")
    hdr = pm.func("PageRenderer._render_column_headers")
    asg = pm.func("PageBreakCalculator._assign_pages")
    # (1) footnote / source / subline heading: reservation guard must be implied by (be at least as wide as) the emitter guard
    for comp, emit in (("rtf_footnote", "encode_footnote"), ("rtf_source", "encode_source")):
        term = f"if document.{comp} and document.{comp}.text:\n            additional_rows += 1" in tr.replace("    " * 2, "        ") or \
            f"document.{comp} and document.{comp}.text" in tr
        guards = [unparse(n.test) for n in walk_no_nested(rend.node) if isinstance(n, ast.If) and emit in unparse(n)]
        implied = bool(guards) and f"document.{comp} and document.{comp}.text" in guards[0]
        ctx.instance("R03.1", res.where(), f"ledger: {emit} (guard `{guards[0][:70] if guards else '?'}`) <-> reservation term on document.{comp}.text: {term}")
        if not term:
            ctx.violation("R03.1", res.short, f"no reservation for {comp}", res.where(), f"the {comp} row rendered on a page is not reserved in the per-page row budget")
        elif not guards:
            ctx.gap("R03.1", f"the call of {emit} could not be re-identified in PageRenderer.render")
        elif not implied:
            ctx.violation("R03.1", rend.short, f"{emit} guard wider than reservation", rend.where(), f"{emit} can be rendered when nothing was reserved for it")
    term = "if document.rtf_body.subline_by:" in tr
    eguard = [unparse(n.test) for n in walk_no_nested(rend.node) if isinstance(n, ast.If) and "_generate_subline_header" in unparse(n)]
    ctx.instance("R03.1", res.where(), f"ledger: subline heading (guard `{eguard[0] if eguard else '?'}`) <-> reservation term on rtf_body.subline_by: {term}")
    if not term:
        ctx.violation("R03.1", res.short, "no reservation for subline heading", res.where(), "the subline_by heading paragraph is not reserved in the per-page row budget")
    # (2) column headers: reserved iff text is not None; rendered also when text is auto-generated
    reserved_guard = "header.text is not None" in tr
    auto = [n for n in ast.walk(hdr.node) if isinstance(n, ast.If) and "header_copy.text is None" in unparse(n.test) and "as_colheader" in unparse(n.test)]
    auto_reserved = "as_colheader" in tr
    ctx.instance("R03.1", res.where(), f"ledger: column header rows: reserved when `header.text is not None`: {reserved_guard}; automatic headers (text None, as_colheader) rendered: {bool(auto)}, reserved: {auto_reserved}")
    if not reserved_guard:
        ctx.violation("R03.1", res.short, "no reservation for column headers", res.where(), "column header rows are not reserved in the per-page row budget")
    if auto and not auto_reserved:
        ctx.violation("R03.1", res.short, "automatic column header not reserved", res.where(),
                      "a column header whose text is generated from the column names (text=None, as_colheader=True - the default) is rendered on every header page "
                      "but the reservation only counts headers with explicit text: such pages carry one row more than nrow")
    # headers are rendered only on pages with needs_header, reservation is unconditional: fine (reservation wider)
    # every reservation term may only be conditioned on the presence of what it reserves for: a narrower
    # guard (e.g. only when pageby_header, only when as_table) leaves rendered rows unreserved
    allowed = {
        "subline": {"document.rtf_body.subline_by"},
        "header": {"document.rtf_column_header", "document.rtf_column_header[0]", "section_headers", "header", "header.text", "list"},
        "footnote": {"document.rtf_footnote", "document.rtf_footnote.text"},
        "source": {"document.rtf_source", "document.rtf_source.text"},
    }
    for aug in [a for a in ast.walk(res.node) if isinstance(a, ast.AugAssign) and unparse(a.target) == "additional_rows"]:
        tests = [t for t in _guards(aug, res.node)]
        txt = " and ".join(unparse(t) for t in tests)
        kind = "subline" if "subline_by" in txt else "footnote" if "rtf_footnote" in txt else "source" if "rtf_source" in txt else "header"
        used = set()
        for t in tests:
            for n in ast.walk(t):
                if isinstance(n, ast.Attribute) and not isinstance(getattr(n, "_parent", None), ast.Attribute):
                    used.add(unparse(n))
                elif isinstance(n, ast.Name) and not isinstance(getattr(n, "_parent", None), ast.Attribute) and n.id not in ("isinstance", "None", "len"):
                    used.add(n.id)
                elif isinstance(n, ast.Subscript) and isinstance(getattr(n, "_parent", None), ast.Call):
                    used.add(unparse(n))
        extra = sorted(u for u in used if u not in allowed[kind] and not any(u.startswith(a + "[") for a in allowed[kind]))
        ctx.instance("R03.1", res.where(aug), f"reservation term ({kind}) guarded by `{txt[:90]}`; atoms outside the component's presence: {extra}")
        if extra:
            ctx.violation("R03.1", res.short, f"{kind} reservation also depends on {extra}", res.where(aug),
                          f"the {kind} reservation is only made when {extra} hold(s); the {kind} row is rendered regardless, so such pages exceed nrow")
        if unparse(aug.value) != "1":
            ctx.violation("R03.1", res.short, f"{kind} reservation += {unparse(aug.value)}", res.where(aug), f"the {kind} reservation is `{unparse(aug.value)}` rows instead of one per rendered row")
    # (3) in-page spanning rows and data rows: per-row budget terms (R03.5)
    c = pm.func("PageBreakCalculator.calculate_row_metadata")
    tc = unparse(c.node)
    ok = "pageby_rows = self._calculate_header_rows(header_text, total_width, font_size=int(font_size))" in tc
    ctx.instance("R03.1", c.where(), f"ledger: in-page group heading rows <-> pageby_header_rows per group-start row: {ok}")
    if not ok:
        ctx.violation("R03.1", c.short, "no budget for in-page headings", c.where(), "spanning heading rows inside a page are not budgeted with the row that starts the group")
    # (4) page-top continuation headings: emitted at the top of EVERY page, budgeted only where the first row starts a group
    top = [n for n in walk_no_nested(rend.node) if isinstance(n, ast.If) and "pageby_header_info" in unparse(n.test) and "encode_spanning_row" in unparse(n)]
    tguard = unparse(top[0].test) if top else "?"
    depends_on_group_start = "is_group_start" in tguard or "continu" in tguard
    ta = unparse(asg.node)
    resets = [unparse(a.value) for n in ast.walk(asg.node) if isinstance(n, ast.If) for a in n.body if isinstance(a, ast.Assign) and unparse(a.targets[0]) == "current_rows"]
    budgeted_at_break = any(r != "0" for r in resets)
    ctx.instance("R03.1", rend.where(top[0]) if top else rend.where(), f"ledger: page-top group headings emitted under `{tguard[:80]}`; after a break current_rows restarts at {resets}")
    if top and not depends_on_group_start and not budgeted_at_break:
        ctx.violation("R03.1", asg.short, "page-top continuation heading not budgeted", asg.where(),
                      "the group heading is re-emitted at the top of every continuation page (render step 7) but a page that starts inside a group is budgeted with 0 heading rows "
                      "(current_rows restarts at 0 and only group-start rows carry pageby_header_rows): such pages hold nrow + heading rows")
    ctx.floor("R03.1", 6)


def _guards(node, stop):
    out = []
    child = node
    p = getattr(node, "_parent", None)
    while p is not None and p is not stop:
        if isinstance(p, ast.If):
            out.append(p.test)
        child = p
        p = getattr(p, "_parent", None)
    return list(reversed(out))


def r03_3_6(ctx: Ctx) -> None:
    pm = ctx.pm
    c = pm.func("PageBreakCalculator.calculate_row_metadata")
    env = single_assign_env(c.node)
    calls = [x for x in walk_no_nested(c.node) if isinstance(x, ast.Call) and dotted(x.func) == "get_string_width"]
    if len(calls) != 1:
        ctx.violation("R03.3", c.short, f"get_string_width x{len(calls)}", c.where(), "cell text is not measured exactly once per cell")
        return
    call = calls[0]
    kw = {k.arg: k.value for k in call.keywords}
    for arg, attr in (("font", "text_font"), ("font_size", "text_font_size")):
        v = kw.get(arg)
        name = v.id if isinstance(v, ast.Name) else None
        assigns = [unparse(a.value) for a in ast.walk(c.node) if isinstance(a, ast.Assign) and name and unparse(a.targets[0]) == name]
        src = assigns or [unparse(v)]
        dep = any(attr in s for s in src)
        ctx.instance("R03.3", c.where(call), f"estimator input {arg} <- {src}; depends on table_attrs.{attr}: {dep}")
        if not dep:
            ctx.violation("R03.3", c.short, f"estimator {arg} ignores {attr}", c.where(call),
                          f"the line estimator measures every cell with {arg}={src[-1]} regardless of the body's {attr}: a larger/wider font wraps into more lines than budgeted")
    a0 = unparse(call.args[0]) if call.args else "?"
    txt_src = unparse(env.get(a0)) if a0 in env else next((unparse(a.value) for a in ast.walk(c.node) if isinstance(a, ast.Assign) and unparse(a.targets[0]) == a0), "?")
    ok_txt = txt_src == "str(df[col_name][row_idx])"
    ctx.instance("R03.3", c.where(call), f"measured text {a0} = {txt_src}")
    if not ok_txt:
        ctx.violation("R03.3", c.short, "measured text " + txt_src, c.where(call), "the measured text is not the cell's own value")
    ln = [a for a in ast.walk(c.node) if isinstance(a, ast.Assign) and unparse(a.targets[0]) == "lines_needed"]
    forms = [unparse(a.value) for a in ln]
    ok_ln = forms == ["max(1, int(text_width / effective_width) + 1)"]
    tw = [unparse(a.value) for a in ast.walk(c.node) if isinstance(a, ast.Assign) and unparse(a.targets[0]) == "text_width"]
    ew = [unparse(a.value) for a in ast.walk(c.node) if isinstance(a, ast.Assign) and unparse(a.targets[0]) == "effective_width"]
    ctx.instance("R03.3", c.where(ln[0]) if ln else c.where(), f"lines_needed = {forms}; text_width assigned {len(tw)}x; effective_width = {ew}")
    if not ok_ln or len(tw) != 1 or ew != ["col_width"]:
        ctx.violation("R03.3", c.short, f"lines_needed {forms} text_width x{len(tw)} effective_width {ew}", c.where(),
                      "a cell's line count is not computed for that cell from its measured width and its own column width on every path (e.g. cached per text regardless of column)")
    caches = [n for n in ast.walk(c.node) if isinstance(n, ast.Subscript) and isinstance(n.ctx, ast.Store) and "cell_value" in unparse(n.slice)]
    for n in caches:
        ctx.violation("R03.3", c.short, "cache keyed by cell text " + unparse(n), c.where(n), "line counts are cached per cell text; the same text in a narrower column needs more lines")
    mx = "max_lines_in_row = max(max_lines_in_row, lines_needed)" in unparse(c.node)
    if not mx:
        ctx.violation("R03.3", c.short, "row height not max over cells", c.where(), "a row's data height is not the maximum line count over its cells")
    # R03.6 column width from cumulative boundaries, skipping removed columns
    t = unparse(c.node)
    cw = [a for a in ast.walk(c.node) if isinstance(a, ast.Assign) and unparse(a.targets[0]) == "col_width"]
    e2 = {unparse(a.targets[0]): a.value for a in ast.walk(c.node) if isinstance(a, ast.Assign) and len(a.targets) == 1}
    ok = len(cw) == 1 and linform(cw[0].value) == {"current_cumulative": 1, "prev_cumulative": -1} and \
        unparse(e2.get("current_cumulative")) == "col_widths[width_idx]" and unparse(e2.get("prev_cumulative")) == "col_widths[width_idx - 1] if width_idx > 0 else 0"
    skip = "if col_idx in removed_indices:\n                    continue" in t or "if col_idx in removed_indices:" in t
    adv = [a for a in ast.walk(c.node) if isinstance(a, ast.AugAssign) and unparse(a.target) == "width_idx"]
    ok_adv = len(adv) == 1 and unparse(adv[0].value) == "1" and "width_idx = 0" in t and "removed_indices = set(removed_column_indices or [])" in t
    ctx.instance("R03.6", c.where(cw[0]) if cw else c.where(), f"column width = boundary[k] - boundary[k-1] with k advancing over displayed columns only: {ok and skip and ok_adv}")
    if not (ok and skip and ok_adv):
        ctx.violation("R03.6", c.short, "column width derivation", c.where(), "the width used for wrapping is not the displayed column's own width (difference of consecutive cumulative boundaries, removed columns skipped)")
    u = pm.func("UnifiedRTFEncoder._encode_body_section")
    tu = unparse(u.node)
    ok = "if col not in processed_cols:\n                        removed_column_indices.append(i)" in tu or ("for i, col in enumerate(original_df.columns):" in tu and "removed_column_indices.append(i)" in tu)
    ok = ok and "processed_cols = set(processed_df.columns)" in tu and "removed_column_indices=removed_column_indices" in tu
    ctx.instance("R03.6", u.where(), f"removed column indices = positions in the original frame of columns absent from the reduced frame: {ok}")
    if not ok:
        ctx.violation("R03.6", u.short, "removed_column_indices", u.where(), "the indices of removed columns handed to the estimator are not their positions in the original frame")


def check(ctx: Ctx) -> None:
    ctx.explain(
        "R03.1 budget ledger: each per-page emitter of PageRenderer.render is paired with its reservation term in "
        "calculate_additional_rows_per_page or its per-row term in calculate_row_metadata, and the reservation's guard must be "
        "at least as wide as the emitter's; R03.2 break guard / available rows as linear forms and the break decision table "
        "(C04 R04.1); R03.3 dataflow of the estimator's font, size, text and width arguments, per cell, single assignment; "
        "R03.4 strategy keyword agreement (C04 R04.2); R03.5 row height composition (C04 R04.6); R03.6 displayed-column width "
        "from cumulative boundaries with removed columns skipped.")
    ctx.assume("get_string_width over-estimates nothing and under-estimates nothing systematically (FreeType metrics are not analysed)")
    ctx.undecided("that the estimated line count is >= the true wrapped line count; per-page sums for concrete frames")
    r03_1(ctx)
    from .c04 import r04_1, r04_2, r04_3_4, r04_6
    r04_1(ctx, mode="budget")      # only the over-filling direction concerns the row budget
    r04_2(ctx, only={"df", "col_widths", "table_attrs", "removed_column_indices", "additional_rows_per_page", "page_by", "subline_by"})
    r04_3_4(ctx, lookahead=False)   # heading rows are budgeted at rows flagged as group starts
    r04_6(ctx)
    r03_3_6(ctx)
