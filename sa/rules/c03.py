"""C03 - no page exceeds the nrow row budget (structural necessary conditions).

All rules follow the recognise-by-role / verify-strictly / gap-if-unrecognised policy.

R03.1 budget ledger: calculate_additional_rows_per_page is decomposed into counted terms (accumulator
increments, conditional expressions, int(bool(..)), sum(1 for ..)) each with the conditions under which
it counts; every per-page row emitter of PageRenderer.render must have a term, a term may only be
conditioned on the presence of what it reserves for, and its condition must be implied by the emitter's;
R03.2 break guard normal form and available rows (shared R04.1); R03.3 the width estimator receives the
cell's own text, font and size and its own column width, per displayed cell, and no line count is cached
per text; R03.4 sibling keyword agreement of the three strategies (shared R04.2); R03.5 row height =
data + page_by heading + subline heading, each >= 1 (shared R04.6); R03.6 column width per displayed
column from cumulative boundaries, removed columns skipped, removed positions taken in the frame that is
handed to the estimator.
"""
from __future__ import annotations

import ast

from ..astmatch import assignments, guard_atoms, guards, leaves, match, resolve, strip_wrappers
from ..pm import dotted, unparse, walk_no_nested
from ..report import Ctx
from .c04 import Unrecognised, _anc, _const, _enclosing_for, _params, _target_names, assign_loop, lin_local, meta_fields, subst


# ------------------------------------------------------------------------------------------------ reservation ledger

class Term:
    """one counted contribution to the per-page reservation"""

    def __init__(self, amount: ast.AST, conds: list, iters: list, node: ast.AST):
        self.amount, self.conds, self.iters, self.node = amount, conds, iters, node


def _loops_of(node, fn) -> list:
    return [p for p in _anc(node, fn) if isinstance(p, ast.For)]


def reservation_terms(fi, pm=None) -> list[Term]:
    """decompose the function's result into counted terms; raise Unrecognised when a part of the sum cannot be interpreted.
    A summand that is a call of another function of the package is followed (its parameters replaced by the arguments), so
    the terms are always expressed in the vocabulary of `fi`."""
    out: list[Term] = []

    def is_cond(e):
        return isinstance(e, (ast.BoolOp, ast.Compare)) or (isinstance(e, ast.UnaryOp) and isinstance(e.op, ast.Not))

    class Frame:
        def __init__(self, f, binding):
            self.fi, self.fn, self.binding = f, f.node, binding
            self.aug, self.plain = {}, {}
            for a in walk_no_nested(self.fn):
                if isinstance(a, ast.AugAssign) and isinstance(a.target, ast.Name):
                    self.aug.setdefault(a.target.id, []).append(a)
                elif isinstance(a, ast.Assign) and len(a.targets) == 1 and isinstance(a.targets[0], ast.Name):
                    self.plain.setdefault(a.targets[0].id, []).append(a)
                elif isinstance(a, ast.AnnAssign) and isinstance(a.target, ast.Name) and a.value is not None:
                    self.plain.setdefault(a.target.id, []).append(a)
            self.params = set(_params(self.fn))

        def out_expr(self, e):
            """expression of this frame in the caller's vocabulary: locals resolved, parameters replaced by the arguments"""
            if not self.binding:
                return e
            return subst(resolve(e, self.fn), self.binding)

    def emit(fr, amount, conds, iters, node):
        out.append(Term(amount, [(fr.out_expr(c), pol) for c, pol in conds], [(t, fr.out_expr(it)) for t, it in iters], node))

    def callee_of(fr, e):
        if pm is None or not isinstance(e, ast.Call):
            return None
        if isinstance(e.func, ast.Name):
            r = pm.resolve(fr.fi.module, e.func.id)
            return r[1] if r and r[0] == "func" else None
        if isinstance(e.func, ast.Attribute) and isinstance(e.func.value, ast.Name) and fr.fi.cls and e.func.value.id in ("self", "cls", fr.fi.cls):
            return pm.find_method(fr.fi.cls, e.func.attr)
        return None

    def dec(e, conds, iters, node, fr, depth=0):
        if depth > 14:
            raise Unrecognised("reservation expression too deep")
        if isinstance(e, ast.BinOp) and isinstance(e.op, ast.Add):
            dec(e.left, conds, iters, node, fr, depth + 1)
            dec(e.right, conds, iters, node, fr, depth + 1)
        elif isinstance(e, ast.Constant) and isinstance(e.value, (int, bool)):
            if e.value:
                emit(fr, e, conds, iters, node)
        elif isinstance(e, ast.IfExp):
            dec(e.body, conds + [(e.test, True)], iters, node, fr, depth + 1)
            dec(e.orelse, conds + [(e.test, False)], iters, node, fr, depth + 1)
        elif isinstance(e, ast.Call) and isinstance(e.func, ast.Name) and e.func.id in ("int", "bool") and len(e.args) == 1 and not e.keywords:
            inner = e.args[0]
            if isinstance(inner, ast.Call) and isinstance(inner.func, ast.Name) and inner.func.id == "bool" and len(inner.args) == 1:
                emit(fr, ast.Constant(value=1), conds + [(inner.args[0], True)], iters, node)
            elif e.func.id == "bool" or is_cond(inner):
                emit(fr, ast.Constant(value=1), conds + [(inner, True)], iters, node)
            else:
                dec(inner, conds, iters, node, fr, depth + 1)
        elif isinstance(e, ast.Call) and isinstance(e.func, ast.Name) and e.func.id in ("sum", "len") and len(e.args) == 1 \
                and isinstance(e.args[0], (ast.GeneratorExp, ast.ListComp)):
            g = e.args[0]
            c2, i2 = list(conds), list(iters)
            for gen in g.generators:
                i2.append((gen.target, gen.iter))
                c2.extend((t, True) for t in gen.ifs)
            if e.func.id == "len":
                emit(fr, ast.Constant(value=1), c2, i2, node)
            else:
                dec(g.elt, c2, i2, node, fr, depth + 1)
        elif isinstance(e, ast.Name) and e.id not in fr.params and (e.id in fr.aug or e.id in fr.plain):
            for a in fr.plain.get(e.id, []):
                dec(a.value, conds + guards(a, fr.fn), iters + [(lp.target, lp.iter) for lp in _loops_of(a, fr.fn)], a if not fr.binding else node, fr, depth + 1)
            for a in fr.aug.get(e.id, []):
                if not isinstance(a.op, ast.Add):
                    raise Unrecognised(f"`{unparse(a)}`")
                dec(a.value, conds + guards(a, fr.fn), iters + [(lp.target, lp.iter) for lp in _loops_of(a, fr.fn)], a if not fr.binding else node, fr, depth + 1)
        elif callee_of(fr, e) is not None:
            cal = callee_of(fr, e)
            ps = [p for p in _params(cal.node) if not (cal.cls and not cal.is_static and p in ("self", "cls"))]
            b = dict(zip(ps, e.args))
            b.update({k.arg: k.value for k in e.keywords if k.arg})
            a = cal.node.args
            allp = list(a.posonlyargs) + list(a.args)
            for prm, dflt in zip(allp[len(allp) - len(a.defaults):], a.defaults):
                b.setdefault(prm.arg, dflt)
            if set(ps) - set(b):
                raise Unrecognised(f"the call `{unparse(e)[:60]}`")
            b = {k: fr.out_expr(v) for k, v in b.items()}
            # conditions of the call site, already in the caller's vocabulary
            pre_c = [(fr.out_expr(c), pol) for c, pol in conds]
            pre_i = [(t, fr.out_expr(it)) for t, it in iters]
            sub = Frame(cal, b)
            rets = [r for r in walk_no_nested(cal.node) if isinstance(r, ast.Return) and r.value is not None]
            if not rets:
                raise Unrecognised(f"`{cal.short}` returns nothing countable")
            n0 = len(out)
            for r in rets:
                dec(r.value, guards(r, cal.node), [(lp.target, lp.iter) for lp in _loops_of(r, cal.node)], node, sub, depth + 1)
            for t in out[n0:]:
                t.conds = pre_c + t.conds
                t.iters = pre_i + t.iters
        else:
            raise Unrecognised(f"the summand `{unparse(e)[:60]}`")
    top = Frame(fi, {})
    rets = [r for r in walk_no_nested(fi.node) if isinstance(r, ast.Return) and r.value is not None]
    if len(rets) != 1:
        raise Unrecognised(f"{fi.short} has {len(rets)} value returns")
    dec(rets[0].value, [], [], rets[0], top)
    return out


def _term_atoms(t: Term, fn) -> tuple[set, set, str]:
    """(literal guard atoms with polarity, ingredients used by the conditions, text of conditions and iterated sources) - aliases resolved"""
    conds = [(_reparent(resolve(c, fn)), pol) for c, pol in t.conds]
    lits = {a.replace("bool(", "(") for a in guard_atoms(conds)}
    used = set()
    for c, _pol in conds:
        for n in ast.walk(c):
            par = getattr(n, "_parent", None)
            if isinstance(n, ast.Attribute) and not isinstance(par, ast.Attribute):
                used.add(unparse(n))
            elif isinstance(n, ast.Name) and not isinstance(par, ast.Attribute) and n.id not in _NOT_ATOMS:
                used.add(n.id)
            elif isinstance(n, ast.Subscript) and isinstance(par, ast.Call):
                used.add(unparse(n))
    text = " and ".join(unparse(c) for c, _ in conds) + " | " + " ".join(unparse(resolve(it, fn)) for _t, it in t.iters)
    return lits, used, text


_NOT_ATOMS = ("isinstance", "None", "len", "bool", "int", "getattr", "hasattr", "True", "False")


def _negated(atom: str) -> str:
    if atom.startswith("!"):
        return atom[1:]
    if atom.endswith(" is not None"):
        return atom[:-len(" is not None")] + " is None"
    if atom.endswith(" is None"):
        return atom[:-len(" is None")] + " is not None"
    return "!" + atom


def _reparent(e: ast.AST) -> ast.AST:
    for n in ast.walk(e):
        for ch in ast.iter_child_nodes(n):
            ch._parent = n          # type: ignore[attr-defined]
    return e


def r03_1(ctx: Ctx) -> None:
    pm = ctx.pm
    res = pm.func("RTFDocumentService.calculate_additional_rows_per_page")
    rend = pm.func("PageRenderer.render")
    hdr = pm.func("PageRenderer._render_column_headers")
    asg = pm.func("PageBreakCalculator._assign_pages")
    fn = res.node
    terms = None
    try:
        terms = reservation_terms(res, pm)
    except Unrecognised as e:
        ctx.gap("R03.1", f"the reservation computed by {res.short} could not be decomposed into counted terms: {e}")
    kinds: dict[str, list] = {"subline": [], "footnote": [], "source": [], "header": [], "?": []}
    info = {}
    for t in terms or []:
        lits, used, text = _term_atoms(t, fn)
        kind = "subline" if "subline_by" in text else "footnote" if "rtf_footnote" in text else "source" if "rtf_source" in text \
            else "header" if "rtf_column_header" in text else "?"
        kinds[kind].append(t)
        info[id(t)] = (lits, used, text)
    if terms is not None:
        # every reservation term may only be conditioned on the presence of what it reserves for: a narrower
        # guard (e.g. only when pageby_header, only when as_table) leaves rendered rows unreserved
        for kind, ts in kinds.items():
            for t in ts:
                lits, used, text = info[id(t)]
                bound = {nme for tg, _it in t.iters for nme in _target_names(tg)}
                allowed = {
                    "subline": {"document.rtf_body.subline_by"},
                    "header": {"document.rtf_column_header", "document.rtf_column_header[0]", "list"} | bound | {b + ".text" for b in bound},
                    "footnote": {"document.rtf_footnote", "document.rtf_footnote.text"},
                    "source": {"document.rtf_source", "document.rtf_source.text"},
                    "?": set(),
                }[kind]
                extra = sorted(u for u in used if u not in allowed and not any(u.startswith(a + "[") for a in allowed))
                ctx.instance("R03.1", res.where(t.node), f"reservation term ({kind}) counted when `{text[:90]}`; atoms outside the component's presence: {extra}")
                if kind == "?":
                    ctx.gap("R03.1", f"a reservation term counted when `{text[:80]}` could not be attributed to a page component")
                    continue
                if extra:
                    ctx.violation("R03.1", res.short, f"{kind} reservation also depends on {extra}", res.where(t.node),
                                  f"the {kind} reservation is only made when {extra} hold(s); the {kind} row is rendered regardless, so such pages exceed nrow")
                if not _const(t.amount, 1) and not _const(t.amount, True):
                    ctx.violation("R03.1", res.short, f"{kind} reservation += {unparse(t.amount)}", res.where(t.node), f"the {kind} reservation is `{unparse(t.amount)}` rows instead of one per rendered row")
    # (1) footnote / source: the reservation's condition must be implied by (be at least as wide as) the emitter's
    for comp, emit, kind in (("rtf_footnote", "encode_footnote", "footnote"), ("rtf_source", "encode_source", "source")):
        calls = [n for n in walk_no_nested(rend.node) if isinstance(n, ast.Call) and isinstance(n.func, ast.Attribute) and n.func.attr == emit]
        eg = guard_atoms(guards(calls[0], rend.node), rend.node) if calls else set()
        ts = kinds[kind]
        ctx.instance("R03.1", res.where(), f"ledger: {emit} (guard `{sorted(eg) if calls else '?'}`) <-> {len(ts)} reservation term(s) on document.{comp}")
        if terms is None:
            continue
        if not ts:
            ctx.violation("R03.1", res.short, f"no reservation for {comp}", res.where(), f"the {comp} row rendered on a page is not reserved in the per-page row budget")
            continue
        if not calls:
            ctx.gap("R03.1", f"the call of {emit} could not be re-identified in PageRenderer.render")
            continue
        eleaves = {x for t, _p in guards(calls[0], rend.node) for x in leaves(resolve(t, rend.node))}
        for t in ts:
            lits, used, _text = info[id(t)]
            egn = {a.replace("bool(", "(") for a in eg}
            if lits <= egn:
                continue
            tl = {x for c, _p in t.conds for x in leaves(resolve(c, fn))}
            if any(_negated(a) in egn for a in lits):
                ctx.violation("R03.1", rend.short, f"{emit} guard contradicts reservation", rend.where(calls[0]),
                              f"the {kind} row is reserved when {sorted(lits)} but rendered when {sorted(egn)}: whenever it is rendered nothing was reserved for it")
            elif tl <= eleaves:
                ctx.gap("R03.1", f"the {kind} reservation condition {sorted(lits)} could not be compared with the guard {sorted(eg)} of {emit}")
            else:
                ctx.violation("R03.1", rend.short, f"{emit} guard wider than reservation", rend.where(calls[0]), f"{emit} can be rendered when nothing was reserved for it")
    # subline heading: rendered on every page of a subline_by document
    sub_calls = [n for n in walk_no_nested(rend.node) if isinstance(n, ast.Call) and isinstance(n.func, ast.Attribute) and n.func.attr == "_generate_subline_header"]
    eguard = sorted(guard_atoms(guards(sub_calls[0], rend.node), rend.node)) if sub_calls else "?"
    ctx.instance("R03.1", res.where(), f"ledger: subline heading (guard `{eguard}`) <-> {len(kinds['subline'])} reservation term(s) on rtf_body.subline_by")
    if terms is not None and not kinds["subline"]:
        ctx.violation("R03.1", res.short, "no reservation for subline heading", res.where(), "the subline_by heading paragraph is not reserved in the per-page row budget")
    # (2) column headers: reserved iff text is not None; rendered also when text is auto-generated
    text_guarded = [t for t in kinds["header"] if any(a.endswith(".text is not None") for a in info[id(t)][0])]
    auto = [n for n in ast.walk(hdr.node) if isinstance(n, ast.If) and any(x.endswith(".text is None") for x in guard_atoms([(n.test, True)]))
            and any(x.endswith(".as_colheader") for x in leaves(n.test))]
    auto_reserved = any("as_colheader" in info[id(t)][2] for t in kinds["header"])
    ctx.instance("R03.1", res.where(), f"ledger: column header rows: {len(kinds['header'])} reservation term(s), {len(text_guarded)} only for headers with explicit text; "
                 f"automatic headers (text None, as_colheader) rendered: {bool(auto)}, reserved: {auto_reserved}")
    if terms is not None:
        if not kinds["header"]:
            ctx.violation("R03.1", res.short, "no reservation for column headers", res.where(), "column header rows are not reserved in the per-page row budget")
        elif auto and not auto_reserved and len(text_guarded) == len(kinds["header"]):
            ctx.violation("R03.1", res.short, "automatic column header not reserved", res.where(),
                          "a column header whose text is generated from the column names (text=None, as_colheader=True - the default) is rendered on every header page "
                          "but the reservation only counts headers with explicit text: such pages carry one row more than nrow")
    # headers are rendered only on pages with needs_header, reservation is unconditional: fine (reservation wider)
    # (3) in-page spanning rows and data rows: per-row budget terms (R03.5)
    c = pm.func("PageBreakCalculator.calculate_row_metadata")
    try:
        _node, md = meta_fields(c)
        pv = md.get("pageby_header_rows")
        if not isinstance(pv, ast.Name):
            raise Unrecognised(f"the page_by heading rows of a row (`{unparse(pv)}`) are not a local variable")
        vals = assignments(c.node).get(pv.id, [])
        from_estimator = [v for v in vals if isinstance(v, ast.Call) and dotted(v.func).endswith("_calculate_header_rows")]
        ctx.instance("R03.1", c.where(), f"ledger: in-page group heading rows <-> `{pv.id}` per group-start row, assigned {[unparse(v)[:50] for v in vals]}")
        if not from_estimator:
            if vals and all(isinstance(v, ast.Constant) and not v.value for v in vals):
                ctx.violation("R03.1", c.short, "no budget for in-page headings", c.where(), "spanning heading rows inside a page are not budgeted with the row that starts the group")
            else:
                ctx.gap("R03.1", f"how the in-page heading rows `{pv.id}` are estimated could not be re-identified")
    except Unrecognised as e:
        ctx.gap("R03.1", str(e))
    # (4) page-top continuation headings: emitted at the top of EVERY page, budgeted only where the first row starts a group
    span = [n for n in walk_no_nested(rend.node) if isinstance(n, ast.Call) and isinstance(n.func, ast.Attribute) and n.func.attr == "encode_spanning_row"]
    tg = sorted(guard_atoms(guards(span[0], rend.node), rend.node)) if span else []
    top = bool(span) and any("pageby_header_info" in a for a in tg)
    tguard = " and ".join(tg)
    depends_on_group_start = "is_group_start" in tguard or "continu" in tguard
    try:
        L = assign_loop(pm)
        hkey = f"{L.rv}['total_rows']"
        forms = []
        for a in ast.walk(L.lp):
            if isinstance(a, ast.Assign) and any(isinstance(t, ast.Name) and t.id == L.R for t in a.targets):
                forms.append(lin_local(a.value, L.lp, L.fn))
            elif isinstance(a, ast.AugAssign) and isinstance(a.target, ast.Name) and a.target.id == L.R:
                lf = lin_local(a.value, L.lp, L.fn)
                lf[L.R] = lf.get(L.R, 0) + 1
                forms.append(lf)
        names = {k: unparse(v) for k, v in getattr(L, "bind", {}).items()}       # loop names that stand for a field of the generic row
        forms = [{names.get(k, k): v for k, v in lf.items()} for lf in forms]
        budgeted_at_break = any(lf not in ({}, {hkey: 1}, {L.R: 1, hkey: 1}) for lf in forms)
        ctx.instance("R03.1", rend.where(span[0]) if span else rend.where(), f"ledger: page-top group headings emitted under `{tguard[:80]}`; the fill counter is updated by {forms}")
        if top and not depends_on_group_start and not budgeted_at_break:
            ctx.violation("R03.1", asg.short, "page-top continuation heading not budgeted", asg.where(),
                          "the group heading is re-emitted at the top of every continuation page (render step 7) but a page that starts inside a group is budgeted with 0 heading rows "
                          "(current_rows restarts at 0 and only group-start rows carry pageby_header_rows): such pages hold nrow + heading rows")
    except Unrecognised as e:
        ctx.gap("R03.1", str(e))
    ctx.floor("R03.1", 6)


# ------------------------------------------------------------------------------------------------ estimator

def _positional_width_pairing(ctx: Ctx, c) -> None:
    """col_widths has one entry per DISPLAYED column.  Pairing a sequence derived from it positionally (zip) with ALL columns of the
    frame - removed ones filtered only afterwards - gives every displayed column right of a removed one its neighbour's width and
    leaves the last displayed columns unmeasured."""
    fn = c.node
    if "removed_column_indices" not in _params(fn):
        return
    asg = assignments(fn)
    removed = {nme for nme, vals in asg.items() if any("removed_column_indices" in unparse(v) for v in vals)} | {"removed_column_indices"}

    def names(e):
        return {n.id for n in ast.walk(e) if isinstance(n, ast.Name)}
    for z in ast.walk(fn):
        if not (isinstance(z, ast.Call) and dotted(z.func) == "zip" and len(z.args) >= 2):
            continue
        res = [resolve(a, fn) for a in z.args]
        from_widths = [a for a, r in zip(z.args, res) if "col_widths" in names(r) | names(a)]
        all_cols = []
        for a, r in zip(z.args, res):
            if "col_widths" in names(r) | names(a):
                continue
            x = r
            while isinstance(x, ast.Call) and dotted(x.func) in ("enumerate", "list", "tuple", "iter") and x.args:
                x = x.args[0]
            whole = unparse(x) in ("df.columns", "range(df.width)", "range(len(df.columns))", "df.get_columns()", "range(df.shape[1])")
            if whole and not (names(r) | names(a)) & removed:
                all_cols.append(a)
        if from_widths and all_cols:
            ctx.instance("R03.6", c.where(z), f"positional pairing `{unparse(z)[:80]}` of displayed-column widths with the columns of the frame")
            ctx.violation("R03.6", c.short, "column width derivation", c.where(z),
                          f"`{unparse(z)[:80]}` pairs the widths (one per displayed column) by position with ALL columns of the frame (`{unparse(all_cols[0])}`), removed columns "
                          "included: a displayed column to the right of a removed one is wrapped with its neighbour's width and the last displayed columns are not measured at all")


def r03_3_6(ctx: Ctx) -> None:
    pm = ctx.pm
    c = pm.func("PageBreakCalculator.calculate_row_metadata")
    fn = c.node
    _positional_width_pairing(ctx, c)
    calls = [x for x in walk_no_nested(fn) if isinstance(x, ast.Call) and dotted(x.func).split(".")[-1] == "get_string_width"]
    if len(calls) != 1:
        ctx.gap("R03.3", f"the per-cell width measurement could not be re-identified in {c.short} ({len(calls)} calls of get_string_width)")
        return
    call = calls[0]
    sig = ("text", "font", "font_size")
    kw = {k.arg: k.value for k in call.keywords if k.arg}
    for nme, a in zip(sig, call.args):
        kw.setdefault(nme, a)
    asg = assignments(fn)
    for arg, attr in (("font", "text_font"), ("font_size", "text_font_size")):
        v = kw.get(arg)
        if v is None:
            src = ["<default>"]
        else:
            name = v.id if isinstance(v, ast.Name) else None
            src = [unparse(x) for x in asg.get(name, [])] if name else []
            src = src or [unparse(v)]
        dep = any(attr in s for s in src)
        ctx.instance("R03.3", c.where(call), f"estimator input {arg} <- {src}; depends on table_attrs.{attr}: {dep}")
        if not dep:
            ctx.violation("R03.3", c.short, f"estimator {arg} ignores {attr}", c.where(call),
                          f"the line estimator measures every cell with {arg}={src[-1]} regardless of the body's {attr}: a larger/wider font wraps into more lines than budgeted")
    loops = [p for p in _anc(call, fn) if isinstance(p, ast.For)]
    if len(loops) < 2:
        ctx.gap("R03.3", "the row loop / cell loop around the width measurement could not be re-identified")
        return
    cell_lp, row_lp = loops[0], loops[1]
    cv, rv = _target_names(cell_lp.target), _target_names(row_lp.target)
    # measured text = str(df[<column of this cell>][<this row>])
    txt = kw.get("text")
    txt_r = resolve(txt, fn) if txt is not None else None
    ctx.instance("R03.3", c.where(call), f"measured text {unparse(txt)} = {unparse(txt_r)}")
    m = match("str(_D[_D.columns[_C]][_R])", txt_r) if txt_r is not None else None
    if m is None:
        ctx.gap("R03.3", f"the measured text `{unparse(txt_r)}` could not be recognised as the cell's own value")
    elif not (isinstance(m["_C"], ast.Name) and m["_C"].id in cv and isinstance(m["_R"], ast.Name) and m["_R"].id in rv and unparse(m["_D"]) == "df"):
        ctx.violation("R03.3", c.short, "measured text " + unparse(txt_r), c.where(call), "the measured text is not the cell's own value")
    text_names = {n.id for n in ast.walk(txt) if isinstance(n, ast.Name)} if txt is not None else set()
    # every displayed cell is measured: the measurement may only be skipped for removed columns / exhausted widths
    removed_sets = {nme for nme, vals in asg.items() if any("removed_column_indices" in unparse(v) for v in vals)} | {"removed_column_indices"}
    gs = guards(call, cell_lp)
    extra = []
    for t, pol in gs:
        lv = {n.id for n in ast.walk(t) if isinstance(n, ast.Name)} - {"len", "set", "frozenset", "list", "tuple"}
        if lv & removed_sets and lv <= removed_sets | set(cv):
            continue            # removed columns are not displayed
        if "col_widths" in lv and lv <= {"col_widths"} | _width_index_names(fn, cell_lp):
            continue            # no boundary left
        extra.append((t, pol, lv))
    ctx.instance("R03.3", c.where(call), f"the measurement runs for every displayed cell; further conditions: {[unparse(t) for t, _p, _l in extra]}")
    for t, pol, lv in extra:
        own = {n.id for n in ast.walk(t) if isinstance(n, ast.Name)}
        if own and own <= text_names:
            ctx.gap("R03.3", f"the measurement is skipped depending on the cell text (`{unparse(t)}`)")
        else:
            shown = " and ".join(sorted(guard_atoms([(t, pol)])))
            ctx.violation("R03.3", c.short, f"measurement conditioned on {shown}", c.where(call),
                          f"a displayed cell is only measured when `{shown}`: cells for which it is skipped are budgeted with one line however long their text is")
    # the row's data height is the maximum over the cells of max(1, int(text_width / own column width) + 1)
    try:
        _node, md = meta_fields(c)
    except Unrecognised as e:
        ctx.gap("R03.3", str(e))
        return
    d = md.get("data_rows")
    upd = [v for v in asg.get(d.id, []) if isinstance(v, ast.Call) and dotted(v.func) == "max" and len(v.args) == 2
           and any(isinstance(x, ast.Name) and x.id == d.id for x in v.args)] if isinstance(d, ast.Name) else []
    if len(upd) != 1:
        ctx.gap("R03.3", "the max-over-cells update of the row's data height could not be re-identified")
        return
    ln = next(x for x in upd[0].args if not (isinstance(x, ast.Name) and x.id == d.id))
    alts = [ln] if not isinstance(ln, ast.Name) else list(asg.get(ln.id, []))
    widths = []
    for v in alts:
        m = match("max(1, int(_T / _W) + 1)", v) or match("max(int(_T / _W) + 1, 1)", v)
        tw = resolve(m["_T"], fn) if m is not None else None
        if m is None or not (isinstance(tw, ast.Call) and dotted(tw.func).split(".")[-1] == "get_string_width"):
            ctx.gap("R03.3", f"a line count `{unparse(v)[:60]}` that enters the row height could not be recognised as max(1, int(measured width / column width) + 1)")
            continue
        widths.append(m["_W"])
    ctx.instance("R03.3", c.where(upd[0]), f"row data height = max over cells of {[unparse(v)[:60] for v in alts]}")
    # no line count may be remembered per cell text alone (the same text in a narrower column needs more lines)
    for n in ast.walk(fn):
        if isinstance(n, ast.Subscript) and isinstance(n.ctx, ast.Store):
            ks = {x.id for x in ast.walk(n.slice) if isinstance(x, ast.Name)}
            if ks and ks <= text_names:
                ctx.violation("R03.3", c.short, "cache keyed by cell text " + unparse(n), c.where(n), "line counts are cached per cell text; the same text in a narrower column needs more lines")
    # R03.6 column width from cumulative boundaries, skipping removed columns
    for w in widths:
        wr = resolve(w, fn)
        ctx.instance("R03.6", c.where(call), f"column width used for wrapping = {unparse(wr)}")
        m = match("_B[_K] - (_B[_K - 1] if _K > 0 else 0)", wr)
        if m is not None and isinstance(m["_B"], ast.Name) and m["_B"].id == "col_widths" and isinstance(m["_K"], ast.Name):
            _width_cursor(ctx, c, cell_lp, row_lp, m["_K"].id, cv, removed_sets)
            continue
        m1 = match("_B[_K]", wr)
        if m1 is not None and isinstance(m1["_B"], ast.Name) and m1["_B"].id == "col_widths":
            ctx.violation("R03.6", c.short, "column width derivation", c.where(call),
                          f"the width used for wrapping is the cumulative boundary `{unparse(wr)}`, not the displayed column's own width (difference of consecutive boundaries)")
        else:
            ctx.gap("R03.6", f"the column width `{unparse(wr)[:70]}` used for wrapping could not be recognised as a difference of consecutive cumulative boundaries")
    _removed_positions(ctx)


def _width_index_names(fn, cell_lp) -> set:
    return {a.target.id for a in ast.walk(cell_lp) if isinstance(a, ast.AugAssign) and isinstance(a.target, ast.Name)}


def _width_cursor(ctx: Ctx, c, cell_lp, row_lp, K: str, cv: list, removed_sets: set) -> None:
    """the boundary index K starts at 0 for every row, advances by one per displayed column and not for removed columns"""
    fn = c.node
    adv = [a for a in ast.walk(cell_lp) if isinstance(a, ast.AugAssign) and isinstance(a.target, ast.Name) and a.target.id == K]
    init = [a for a in ast.walk(row_lp) if isinstance(a, ast.Assign) and any(isinstance(t, ast.Name) and t.id == K for t in a.targets)]
    ctx.instance("R03.6", c.where(cell_lp), f"boundary index `{K}`: {len(init)} reset(s) per row, advanced by {[unparse(a.value) for a in adv]} in the cell loop")
    if not adv or not init:
        ctx.gap("R03.6", f"the reset / advance of the boundary index `{K}` could not be re-identified")
        return
    if any(not _const(a.value, 0) for a in init) or any(_enclosing_for(a, fn) is not row_lp for a in init):
        ctx.violation("R03.6", c.short, "column width derivation", c.where(init[0]), f"the boundary index `{K}` does not restart at 0 for every row")
    if any(not (isinstance(a.op, ast.Add) and _const(a.value, 1)) for a in adv):
        ctx.violation("R03.6", c.short, "column width derivation", c.where(adv[0]), f"the boundary index `{K}` does not advance by exactly one per displayed column")
    # removed columns: skipped before the index advances
    skips = [s for s in cell_lp.body if isinstance(s, ast.If) and s.body and isinstance(s.body[-1], ast.Continue)
             and {n.id for n in ast.walk(s.test) if isinstance(n, ast.Name)} & removed_sets]
    consults = any(isinstance(n, ast.Name) and n.id in removed_sets for n in ast.walk(cell_lp))
    if not skips:
        if not consults:
            ctx.violation("R03.6", c.short, "column width derivation", c.where(cell_lp), "removed columns are not skipped: the cell loop never consults the removed column indices, so boundaries and columns fall out of step")
        else:
            ctx.gap("R03.6", "how removed columns are skipped in the cell loop could not be re-identified")
        return
    for s in skips:
        t = resolve(s.test, fn)
        ok = isinstance(t, ast.Compare) and len(t.ops) == 1 and isinstance(t.ops[0], ast.In) and isinstance(t.left, ast.Name) and t.left.id in cv
        if isinstance(t, ast.Compare) and len(t.ops) == 1 and isinstance(t.ops[0], ast.NotIn):
            ctx.violation("R03.6", c.short, "column width derivation", c.where(s), f"`{unparse(s.test)}` skips the displayed columns and measures the removed ones")
        elif not ok:
            ctx.gap("R03.6", f"the removed-column test `{unparse(s.test)}` could not be interpreted")
        if any(a for a in adv if any(p is s for p in _anc(a, cell_lp))):
            ctx.violation("R03.6", c.short, "column width derivation", c.where(s), f"the boundary index `{K}` advances for a removed column")
    last = cell_lp.body[-1]
    if not any(a is last for a in adv) and not any(a for a in adv if a in cell_lp.body):
        ctx.gap("R03.6", f"the boundary index `{K}` is not advanced unconditionally at the end of the cell loop body")


def _removed_positions(ctx: Ctx) -> None:
    """_encode_body_section: the removed column indices handed to the estimator are positions in the frame handed over as df"""
    pm = ctx.pm
    u = pm.func("UnifiedRTFEncoder._encode_body_section")
    fn = u.node
    ctor = [x for x in walk_no_nested(fn) if isinstance(x, ast.Call) and dotted(x.func).split(".")[-1] == "PaginationContext"
            and any(k.arg == "removed_column_indices" for k in x.keywords)]
    if len(ctor) != 1:
        ctx.gap("R03.6", f"the PaginationContext that carries removed_column_indices could not be re-identified in {u.short} ({len(ctor)} candidates)")
        return
    kws = {k.arg: k.value for k in ctor[0].keywords if k.arg}
    V, frame = kws["removed_column_indices"], kws.get("df")
    if not isinstance(V, ast.Name) or frame is None:
        ctx.gap("R03.6", f"removed_column_indices=`{unparse(V)}` / df=`{unparse(frame)}` of the PaginationContext could not be interpreted")
        return
    sites = []      # (node, index var, enumerate source, filter tests with polarity, yielded element)
    for v in assignments(fn).get(V.id, []):
        if isinstance(v, (ast.List, ast.Tuple)) and not v.elts:
            continue
        if isinstance(v, ast.Call) and dotted(v.func) == "list" and not v.args:
            continue
        if isinstance(v, ast.ListComp) and len(v.generators) == 1:
            g = v.generators[0]
            sites.append((v, g.target, g.iter, [(t, True) for t in g.ifs], v.elt))
        else:
            ctx.gap("R03.6", f"`{V.id} = {unparse(v)[:60]}` could not be interpreted")
    for x in walk_no_nested(fn):
        if isinstance(x, ast.Call) and isinstance(x.func, ast.Attribute) and x.func.attr == "append" and isinstance(x.func.value, ast.Name) \
                and x.func.value.id == V.id and len(x.args) == 1:
            lp = _enclosing_for(x, fn)
            if lp is None:
                ctx.gap("R03.6", f"`{unparse(x)}` outside a loop could not be interpreted")
                continue
            sites.append((x, lp.target, lp.iter, guards(x, lp), x.args[0]))
    if not sites:
        ctx.gap("R03.6", f"how `{V.id}` is filled could not be re-identified")
        return
    for node, target, it, tests, elt in sites:
        ok_shape = isinstance(it, ast.Call) and dotted(it.func) == "enumerate" and len(it.args) == 1 and isinstance(target, ast.Tuple) and len(target.elts) == 2 \
            and all(isinstance(e, ast.Name) for e in target.elts)
        if not ok_shape:
            ctx.gap("R03.6", f"the loop `{unparse(target)} in {unparse(it)}` that collects removed column positions could not be interpreted")
            continue
        iv, colv = target.elts[0].id, target.elts[1].id
        src = strip_wrappers(resolve(it.args[0], fn))
        src_frame = src.value if isinstance(src, ast.Attribute) and src.attr == "columns" else None
        member = [(t, pol) for t, pol in tests if isinstance(t, ast.Compare) and len(t.ops) == 1 and isinstance(t.ops[0], (ast.In, ast.NotIn))
                  and isinstance(t.left, ast.Name) and t.left.id == colv]
        ctx.instance("R03.6", u.where(node), f"removed column positions: index of `{unparse(it.args[0])}` where {[('' if p else 'not ') + unparse(t) for t, p in tests]}, "
                     f"handed over with df={unparse(frame)}")
        if src_frame is None or len(member) != 1 or len(tests) != 1:
            ctx.gap("R03.6", f"the selection of removed columns in `{unparse(node)[:70]}` could not be interpreted")
            continue
        t, pol = member[0]
        absent = isinstance(t.ops[0], ast.NotIn) == pol
        kept = strip_wrappers(resolve(t.comparators[0], fn))
        kept_frame = kept.value if isinstance(kept, ast.Attribute) and kept.attr == "columns" else None
        if kept_frame is None:
            ctx.gap("R03.6", f"the set `{unparse(t.comparators[0])}` the columns are tested against could not be interpreted")
            continue
        if unparse(src_frame) != unparse(frame):
            if unparse(src_frame) == unparse(kept_frame):
                ctx.violation("R03.6", u.short, "removed_column_indices", u.where(node),
                              f"the indices of removed columns are positions in the reduced frame `{unparse(src_frame)}` but the estimator indexes `{unparse(frame)}` with them")
            else:
                ctx.gap("R03.6", f"removed column positions are taken in `{unparse(src_frame)}`, whose relation to the frame `{unparse(frame)}` handed to the estimator could not be established")
            continue
        if unparse(kept_frame) == unparse(frame):
            ctx.violation("R03.6", u.short, "removed_column_indices", u.where(node), "the columns are tested against the frame they are enumerated from: nothing (or everything) counts as removed")
        elif not absent:
            ctx.violation("R03.6", u.short, "removed_column_indices", u.where(node), "the positions collected are those of the columns that are still displayed, not of the removed ones")
        if not (isinstance(elt, ast.Name) and elt.id == iv):
            ctx.violation("R03.6", u.short, "removed_column_indices", u.where(node), f"`{unparse(elt)}` is collected instead of the column's position `{iv}`")


def check(ctx: Ctx) -> None:
    ctx.explain(
        "R03.1 budget ledger: calculate_additional_rows_per_page is decomposed into counted terms with their conditions; each per-page emitter "
        "of PageRenderer.render is paired with its terms (or its per-row term in calculate_row_metadata), a term's condition may only mention the "
        "presence of its component and must be at least as wide as the emitter's; R03.2 break guard / available rows as linear forms and the break "
        "decision table (C04 R04.1); R03.3 dataflow of the estimator's font, size, text and width arguments, per displayed cell, no per-text cache; "
        "R03.4 strategy keyword agreement (C04 R04.2); R03.5 row height composition (C04 R04.6); R03.6 displayed-column width "
        "from cumulative boundaries with removed columns skipped, removed positions relative to the frame handed to the estimator.")
    ctx.assume("get_string_width over-estimates nothing and under-estimates nothing systematically (FreeType metrics are not analysed)")
    ctx.undecided("that the estimated line count is >= the true wrapped line count; per-page sums for concrete frames")
    r03_1(ctx)
    from .c04 import r04_1, r04_2, r04_3_4, r04_6
    r04_1(ctx, mode="budget")      # only the over-filling direction concerns the row budget
    r04_2(ctx, only={"df", "col_widths", "table_attrs", "removed_column_indices", "additional_rows_per_page", "page_by", "subline_by"})
    r04_3_4(ctx, lookahead=False)   # heading rows are budgeted at rows flagged as group starts
    r04_6(ctx)
    r03_3_6(ctx)
