"""C18 - exports are all-or-nothing and leave no debris.  (structural: control-flow graph with exceptional edges + dataflow of paths)

For each writer (write_rtf, write_docx, write_html, write_pdf) the file-system operations are recognised by role (open for
writing, write_text/bytes, touch/unlink/rename, shutil.move/copy, os.replace ...; directory creation apart) and the
*location* of the path each one acts on is derived by dataflow through locals, with-targets and path algebra (`a / b`,
`.parent`, `.with_name`, `Path(x)`, `str(x)`, `os.path.join(a, ..)`): the requested target (the path parameter), a temporary
directory (with-target / enter_context result of tempfile.TemporaryDirectory, mkdtemp ...), the converter's result.

R18.1 write_rtf: every operation on the target location is preceded on every path by the *completed* rtf_encode() call
      (CFG with exceptional edges), the written value is that call's result unmodified, missing parent directories are created
      with mkdir(parents=True) before the write.
R18.2 every temporary resource is released on all exits: acquired as a with-item, through `<ExitStack in a with>.enter_context`,
      or followed by a clean-up that lies on every path (normal and exceptional) from the acquisition to the function's exits;
      a context-manager helper of the package must protect its yield by try/finally or a with-block.
R18.3 converters: every operation on the target location is preceded on every path by the completed rtf_encode(), the completed
      converter.convert(...) and, where the code tests the result's type, that test; what reaches the target derives from the
      converter's result; the intermediate file and the converter's output directory lie in temporary directories and nothing
      else is written outside them; the intermediate RTF is rtf_encode()'s result unmodified.
R18.4 the format handed to the converter is the writer's own (docx / html / pdf).
"""
from __future__ import annotations

import ast

from ..astmatch import alternatives, assignments
from ..cfg import CFG, own_parts
from ..pm import AnalysisError, dotted, unparse, walk_no_nested
from ..report import Ctx

CONVERTERS = (("RTFDocument.write_docx", "docx"), ("RTFDocument.write_html", "html"), ("RTFDocument.write_pdf", "pdf"))
TEMP_CTORS = {"TemporaryDirectory", "mkdtemp", "mkstemp", "NamedTemporaryFile", "TemporaryFile", "SpooledTemporaryFile"}
AUTO_CLEAN = {"TemporaryDirectory", "NamedTemporaryFile", "TemporaryFile", "SpooledTemporaryFile"}      # clean up when used as context managers
CLEANERS = {"rmtree", "cleanup", "unlink", "remove", "rmdir", "close"}
WRITE_ATTRS = {"write_text", "write_bytes", "touch", "unlink", "rename", "replace", "rmdir", "symlink_to", "hardlink_to"}
WRITE_FUNCS = {"shutil.move": 1, "shutil.copy": 1, "shutil.copy2": 1, "shutil.copyfile": 1, "shutil.copytree": 1, "shutil.rmtree": 0, "os.remove": 0, "os.rename": 1,
               "os.replace": 1, "os.unlink": 0, "os.rmdir": 0}
PATH_PASS = {"parent", "with_name", "with_suffix", "with_stem", "expanduser", "resolve", "absolute", "joinpath", "name", "stem", "as_posix", "parents"}


class Flow:
    """dataflow of path values inside one function"""

    def __init__(self, pm, fi):
        self.pm, self.fi, self.fn = pm, fi, fi.node
        self.asg = assignments(self.fn)
        self.withvars: dict[str, ast.AST] = {}
        for w in walk_no_nested(self.fn):
            if isinstance(w, (ast.With, ast.AsyncWith)):
                for it in w.items:
                    if isinstance(it.optional_vars, ast.Name):
                        self.withvars[it.optional_vars.id] = it.context_expr
        a = self.fn.args
        self.params = [x.arg for x in list(a.posonlyargs) + list(a.args) + list(a.kwonlyargs)]
        self.encode_calls = [c for c in walk_no_nested(self.fn) if isinstance(c, ast.Call) and dotted(c.func).split(".")[-1] == "rtf_encode"]
        self.convert_calls = [c for c in walk_no_nested(self.fn) if isinstance(c, ast.Call) and isinstance(c.func, ast.Attribute) and c.func.attr == "convert"
                              and any(k.arg in ("input_files", "output_dir", "format") for k in c.keywords)]

    def is_temp_ctor(self, e) -> str | None:
        if isinstance(e, ast.Call):
            last = dotted(e.func).split(".")[-1]
            if last in TEMP_CTORS:
                return last
            if last == "enter_context" and e.args:
                return self.is_temp_ctor(e.args[0])
            if last == "gettempdir":
                return "gettempdir"
        return None

    def values(self, name: str, seen) -> list[ast.AST]:
        if name in seen:
            return []
        out = []
        if name in self.withvars:
            out.append(self.withvars[name])
        for v in self.asg.get(name, []):
            if isinstance(v, ast.Constant) and isinstance(v.value, str) and v.value.startswith("<"):
                continue
            out.append(v)
        return out

    def location(self, e: ast.AST, seen=frozenset(), depth: int = 0) -> set[str]:
        """where the path denoted by e lies: subset of {'target', 'temp', 'converted', 'const', 'unknown'}"""
        if depth > 10 or e is None:
            return {"unknown"}
        if isinstance(e, ast.Constant):
            return {"const"} if isinstance(e.value, (str, bytes)) else {"unknown"}
        if isinstance(e, ast.JoinedStr):
            return {"const"}
        if isinstance(e, ast.Name):
            if e.id in self.params and e.id not in self.asg:
                return {"target"} if e.id not in ("self", "converter", "cls") else {"unknown"}
            vals = self.values(e.id, seen)
            if not vals:
                return {"target"} if e.id in self.params and e.id not in ("self", "converter") else {"unknown"}
            out = set()
            for v in vals:
                out |= self.location(v, seen | {e.id}, depth + 1)
            if e.id in self.params and e.id not in ("self", "converter"):
                out.add("target")
            return out
        if isinstance(e, ast.BinOp) and isinstance(e.op, ast.Div):
            return self.location(e.left, seen, depth + 1)
        if isinstance(e, ast.BinOp) and isinstance(e.op, ast.Add):
            return self.location(e.left, seen, depth + 1)
        if isinstance(e, ast.Attribute):
            if e.attr in PATH_PASS or e.attr == "name":
                return self.location(e.value, seen, depth + 1)
            return {"unknown"}
        if isinstance(e, ast.Subscript):
            return self.location(e.value, seen, depth + 1)
        if isinstance(e, ast.IfExp):
            return self.location(e.body, seen, depth + 1) | self.location(e.orelse, seen, depth + 1)
        if isinstance(e, ast.Call):
            if self.is_temp_ctor(e):
                return {"temp"}
            if any(e is c for c in self.convert_calls):
                return {"converted"}
            d = dotted(e.func)
            last = d.split(".")[-1]
            if isinstance(e.func, ast.Attribute) and last in PATH_PASS:
                return self.location(e.func.value, seen, depth + 1)
            if last in ("Path", "PurePath", "str", "fspath", "abspath", "realpath", "expanduser", "normpath", "join", "cast") and e.args:
                return self.location(e.args[-1] if last == "cast" else e.args[0], seen, depth + 1)
            if last == "open" and isinstance(e.func, ast.Attribute):
                return self.location(e.func.value, seen, depth + 1)
            if last == "open" and e.args:
                return self.location(e.args[0], seen, depth + 1)
            return {"unknown"}
        return {"unknown"}

    def name_parts(self, e: ast.AST, seen=frozenset(), depth: int = 0) -> list[ast.AST]:
        """the expressions that give the last path component(s) of a derived path: the argument of with_name/with_stem/joinpath, the right
        operand of `/`, the later arguments of os.path.join (through locals and str()/Path() wrappers)"""
        if depth > 8 or e is None:
            return []
        if isinstance(e, ast.Name):
            out = []
            for v in self.values(e.id, seen):
                out += self.name_parts(v, seen | {e.id}, depth + 1)
            return out
        if isinstance(e, ast.BinOp) and isinstance(e.op, ast.Div):
            return [e.right]
        if isinstance(e, ast.IfExp):
            return self.name_parts(e.body, seen, depth + 1) + self.name_parts(e.orelse, seen, depth + 1)
        if isinstance(e, ast.Call):
            last = dotted(e.func).split(".")[-1]
            if isinstance(e.func, ast.Attribute) and last in ("with_name", "with_stem", "joinpath") and e.args:
                return list(e.args)
            if last == "join" and len(e.args) > 1:
                return list(e.args[1:])
            if last in ("Path", "PurePath", "str", "fspath", "abspath", "realpath", "expanduser", "normpath") and e.args:
                return self.name_parts(e.args[0], seen, depth + 1)
            if isinstance(e.func, ast.Attribute) and last in ("expanduser", "resolve", "absolute", "with_suffix"):
                return self.name_parts(e.func.value, seen, depth + 1)
        return []

    def depends_on(self, e: ast.AST, seen=frozenset(), depth: int = 0) -> set[str]:
        """which roots a value is computed from: 'target' (the path parameter), 'converted' (the converter's result), 'temp'"""
        out: set[str] = set()
        if depth > 10 or e is None:
            return out
        for x in ast.walk(e):
            if isinstance(x, ast.Call) and any(x is c for c in self.convert_calls):
                out.add("converted")
            elif isinstance(x, ast.Call) and self.is_temp_ctor(x):
                out.add("temp")
            elif isinstance(x, ast.Name) and isinstance(x.ctx, ast.Load):
                if x.id in seen:
                    continue
                vals = self.values(x.id, seen)
                if x.id in self.params and x.id not in ("self", "converter", "cls"):
                    out.add("target")
                for v in vals:
                    out |= self.depends_on(v, seen | {x.id}, depth + 1)
        return out

    def value_origin(self, e: ast.AST, depth: int = 0) -> list[ast.AST]:
        """the expressions a value may stand for (temporaries expanded)"""
        return alternatives(e, self.fn)


def fs_ops(fl: Flow):
    """[(call, kind, path expression)] for every file-system modifying operation of the function"""
    out = []
    for c in walk_no_nested(fl.fn):
        if not isinstance(c, ast.Call):
            continue
        d = dotted(c.func)
        last = d.split(".")[-1]
        if d in WRITE_FUNCS:
            i = WRITE_FUNCS[d]
            out.append((c, d, c.args[i] if len(c.args) > i else (c.args[0] if c.args else None)))
        elif d == "open" or d in ("io.open", "codecs.open"):
            m = c.args[1] if len(c.args) > 1 else next((k.value for k in c.keywords if k.arg == "mode"), None)
            if m is not None and not (isinstance(m, ast.Constant) and isinstance(m.value, str) and not any(ch in m.value for ch in "wax+")):
                out.append((c, "open:" + (m.value if isinstance(m, ast.Constant) else "?"), c.args[0] if c.args else None))
        elif isinstance(c.func, ast.Attribute) and last == "open" and not d.startswith(("os.", "io.", "codecs.", "webbrowser.")):
            m = c.args[0] if c.args else next((k.value for k in c.keywords if k.arg == "mode"), None)
            if m is not None and not (isinstance(m, ast.Constant) and isinstance(m.value, str) and not any(ch in m.value for ch in "wax+")):
                out.append((c, ".open:" + (m.value if isinstance(m, ast.Constant) else "?"), c.func.value))
        elif isinstance(c.func, ast.Attribute) and last in WRITE_ATTRS and not d.startswith(("shutil.", "os.")):
            if last == "replace" and not ({"target", "temp", "converted"} & fl.location(c.func.value)):
                continue                # str.replace
            out.append((c, last, c.func.value))
            if last in ("rename", "replace") and c.args:
                out.append((c, last + "->", c.args[0]))
    return out


def _node_of(g: CFG, sub: ast.AST):
    live = g.reachable(g.entry)
    for nd in g.node_containing(sub):
        if id(nd) in live:
            return nd
    return None


def completed_before(g: CFG, e_node, t_node) -> bool:
    """every path from the entry to t_node leaves e_node through a normal edge (the call in e_node has returned)"""
    if e_node is None or t_node is None or e_node is t_node:
        return False
    seen, st = set(), [g.entry]
    while st:
        x = st.pop()
        if id(x) in seen:
            continue
        seen.add(id(x))
        if x is t_node:
            return False
        if x is e_node:
            st.extend(x.xsucc)          # only the exceptional continuation: the call did not complete
            continue
        st.extend(x.succ + x.xsucc)
    return True


def _same_value(fl: Flow, arg: ast.AST, calls: list[ast.Call]) -> bool | None:
    """is `arg` exactly the result of one of the calls (through single-assignment temporaries)? None: cannot tell"""
    alts = fl.value_origin(arg)
    if not alts:
        return None
    res = []
    for a in alts:
        if isinstance(a, ast.Call) and dotted(a.func) == dotted(calls[0].func) and unparse(a) in {unparse(c) for c in calls}:
            res.append(True)
        elif isinstance(a, ast.Name):
            res.append(None)
        else:
            res.append(False)
    if any(r is False for r in res):
        return False
    if all(r is True for r in res):
        return True
    return None


def r18_1(ctx: Ctx) -> None:
    pm = ctx.pm
    fi = pm.func("RTFDocument.write_rtf")
    fl = Flow(pm, fi)
    g = CFG(fi.node)
    if not fl.encode_calls:
        ctx.gap("R18.1", "no rtf_encode() call was re-identified in write_rtf")
        return
    enc_nodes = [_node_of(g, c) for c in fl.encode_calls]
    n_target = 0
    mk = []
    for c in walk_no_nested(fi.node):
        if isinstance(c, ast.Call) and isinstance(c.func, ast.Attribute) and c.func.attr in ("mkdir", "makedirs") or (isinstance(c, ast.Call) and dotted(c.func) == "os.makedirs"):
            parents = dotted(c.func) == "os.makedirs" or any(k.arg == "parents" and isinstance(k.value, ast.Constant) and k.value.value is True for k in c.keywords) \
                or (c.args and isinstance(c.args[0], ast.Constant) and c.args[0].value is True and dotted(c.func) != "os.makedirs" and len(c.args) > 1)
            mk.append((c, parents))
    for c, kind, pexpr in fs_ops(fl):
        loc = fl.location(pexpr) if pexpr is not None else {"unknown"}
        nd = _node_of(g, c)
        if "target" not in loc:
            ctx.instance("R18.1", fi.where(c), f"write_rtf: {kind} on `{unparse(pexpr)[:50]}` (location {sorted(loc)}): not the target")
            if loc <= {"unknown"}:
                ctx.gap("R18.1", f"write_rtf: the location of `{unparse(pexpr)[:60]}` ({kind}) could not be derived")
            continue
        n_target += 1
        ok = any(completed_before(g, en, nd) for en in enc_nodes if en is not None)
        ctx.instance("R18.1", fi.where(c), f"write_rtf: {kind} on target `{unparse(pexpr)[:50]}` preceded on every path by the completed rtf_encode(): {ok}")
        if not ok:
            ctx.violation("R18.1", fi.short, "target touched before encode", fi.where(c),
                          f"write_rtf touches the target (`{unparse(c)[:60]}`) on a path on which rtf_encode() has not completed: a failing encode leaves a truncated/empty target")
        # written value
        val = None
        if kind in ("write_text", "write_bytes") and c.args:
            val = c.args[0]
        elif kind.startswith(("open:", ".open:")):
            # the handle's write calls
            p = getattr(c, "_parent", None)
            hv = p.optional_vars.id if isinstance(p, ast.withitem) and isinstance(p.optional_vars, ast.Name) else None
            if hv is None and isinstance(p, ast.Assign) and isinstance(p.targets[0], ast.Name):
                hv = p.targets[0].id
            for w in walk_no_nested(fi.node):
                if isinstance(w, ast.Call) and isinstance(w.func, ast.Attribute) and w.func.attr in ("write", "writelines") and isinstance(w.func.value, ast.Name) and w.func.value.id == hv and w.args:
                    val = w.args[0]
        if val is not None:
            same = _same_value(fl, val, fl.encode_calls)
            ctx.instance("R18.1", fi.where(c), f"write_rtf: written value `{unparse(val)[:50]}` is rtf_encode()'s result itself: {same}")
            if same is False:
                ctx.violation("R18.1", fi.short, "written value " + unparse(val)[:60], fi.where(c), f"write_rtf writes `{unparse(val)[:80]}` instead of exactly the string rtf_encode() returned")
            elif same is None:
                ctx.gap("R18.1", f"write_rtf: the written value `{unparse(val)[:60]}` could not be traced to rtf_encode()")
        # parent directories
        if kind in ("write_text", "write_bytes") or kind.startswith(("open:", ".open:")):
            okm = any(par and (mn := _node_of(g, m)) is not None and completed_before(g, mn, nd) for m, par in mk)
            ctx.instance("R18.1", fi.where(c), f"write_rtf: missing parent directories are created (mkdir(parents=True)) before the write: {okm}")
            if not okm:
                ctx.violation("R18.1", fi.short, "no mkdir(parents=True)", fi.where(c), "write_rtf writes the target without having created missing parent directories")
    if n_target == 0:
        ctx.gap("R18.1", "no operation on the target path was re-identified in write_rtf")
    ctx.floor("R18.1", 3)


def _cm_helper_ok(pm, fi) -> tuple[bool, str]:
    """a @contextmanager generator of the package: every yield is protected by try/finally with a clean-up, or lies in a with-block of an auto-cleaning resource"""
    ys = [n for n in walk_no_nested(fi.node) if isinstance(n, (ast.Yield, ast.YieldFrom))]
    if not ys:
        return False, "no yield"
    acquires = [c for c in walk_no_nested(fi.node) if isinstance(c, ast.Call) and dotted(c.func).split(".")[-1] in TEMP_CTORS]
    if not acquires:
        return True, "acquires no temporary resource"
    for y in ys:
        ok = False
        p, child = getattr(y, "_parent", None), y
        while p is not None and p is not fi.node:
            if isinstance(p, ast.Try) and p.finalbody and any(x is y for s in p.body for x in ast.walk(s)):
                if any(isinstance(c, ast.Call) and dotted(c.func).split(".")[-1] in CLEANERS for s in p.finalbody for c in ast.walk(s)):
                    ok = True
            if isinstance(p, (ast.With, ast.AsyncWith)) and any(isinstance(i.context_expr, ast.Call) and dotted(i.context_expr.func).split(".")[-1] in AUTO_CLEAN for i in p.items):
                ok = True
            p = getattr(p, "_parent", None)
        if not ok:
            return False, "its yield is not protected by try/finally clean-up (an exception in the with-body skips the clean-up)"
    return True, "clean-up in finally / with"


def r18_2(ctx: Ctx, fi, fl: Flow, g: CFG) -> None:
    pm = ctx.pm
    short = fi.short
    n = 0
    for c in walk_no_nested(fi.node):
        if not isinstance(c, ast.Call):
            continue
        last = dotted(c.func).split(".")[-1]
        p = getattr(c, "_parent", None)
        if last in TEMP_CTORS:
            n += 1
            how = None
            if isinstance(p, ast.withitem) and last in AUTO_CLEAN:
                how = "with-item"
            elif isinstance(p, ast.Call) and dotted(p.func).split(".")[-1] in ("enter_context", "push", "callback") and last in AUTO_CLEAN:
                stack = p.func.value if isinstance(p.func, ast.Attribute) else None
                sname = stack.id if isinstance(stack, ast.Name) else None
                if sname and sname in fl.withvars and dotted(fl.withvars[sname].func if isinstance(fl.withvars[sname], ast.Call) else fl.withvars[sname]).split(".")[-1] in ("ExitStack", "AsyncExitStack"):
                    how = "enter_context of an ExitStack used as with-item"
            if how is None:
                # explicit clean-up must lie on every path from the acquisition to the exits
                var = None
                st = p
                while st is not None and not isinstance(st, ast.stmt):
                    st = getattr(st, "_parent", None)
                if isinstance(st, ast.Assign):
                    t = st.targets[0]
                    var = t.id if isinstance(t, ast.Name) else (t.elts[-1].id if isinstance(t, ast.Tuple) and isinstance(t.elts[-1], ast.Name) else None)
                elif isinstance(p, ast.withitem) and isinstance(p.optional_vars, ast.Name):
                    var = p.optional_vars.id
                a_node = _node_of(g, c)
                cleaners = []
                for c2 in walk_no_nested(fi.node):
                    if isinstance(c2, ast.Call) and dotted(c2.func).split(".")[-1] in CLEANERS:
                        tgt = c2.args[0] if c2.args and dotted(c2.func).split(".")[0] in ("shutil", "os") else (c2.func.value if isinstance(c2.func, ast.Attribute) else None)
                        if tgt is not None and var and any(isinstance(x, ast.Name) and (x.id == var or var in _roots(fl, x.id)) for x in ast.walk(tgt)):
                            nd2 = _node_of(g, c2)
                            if nd2 is not None:
                                cleaners.append(nd2)
                            # copies of the finally block
                            cleaners.extend(nd for nd in g.node_containing(c2) if nd is not nd2)
                ok = False
                if a_node is not None and cleaners:
                    ok = all(g.must_pass(s, cleaners, [g.exit, g.xexit]) for s in a_node.succ)
                how = "explicit clean-up on every exit" if ok else None
                if not ok:
                    ctx.instance("R18.2", fi.where(c), f"{short}: `{unparse(c)[:50]}` -> NOT released on every exit ({len(cleaners)} clean-up site(s) found, none on all paths)")
                    ctx.violation("R18.2", short, dotted(c.func), fi.where(c),
                                  f"{short}: the temporary resource from `{unparse(c)[:50]}` is not removed when a later step raises "
                                  + ("(its clean-up is not on the exceptional paths)" if cleaners else "(no context manager, no clean-up)"))
                    continue
            ctx.instance("R18.2", fi.where(c), f"{short}: `{unparse(c)[:50]}` released by {how}")
        elif isinstance(p, ast.withitem):
            # a context-manager helper of the package
            r = pm.resolve(fi.module, dotted(c.func)) if isinstance(c.func, ast.Name) else None
            cand = r[1] if r and r[0] == "func" else (pm.find_method(fi.cls, c.func.attr) if isinstance(c.func, ast.Attribute) and isinstance(c.func.value, ast.Name) and c.func.value.id == "self" and fi.cls else None)
            if cand is not None and any(x.endswith("contextmanager") for x in cand.decorators):
                n += 1
                ok, why = _cm_helper_ok(pm, cand)
                ctx.instance("R18.2", fi.where(c), f"{short}: with {cand.short}() -> {why}")
                if not ok:
                    ctx.violation("R18.2", short, f"with {cand.short}", fi.where(c), f"{short}: the temporary resource of `{cand.short}()` is not removed when the body raises: {why}")
    if n == 0:
        ctx.gap("R18.2", f"{short}: no temporary resource was re-identified")


def _roots(fl: Flow, name: str, depth: int = 0) -> set[str]:
    out = set()
    if depth > 6:
        return out
    for v in fl.values(name, frozenset()):
        for x in ast.walk(v):
            if isinstance(x, ast.Name) and x.id != name:
                out.add(x.id)
                out |= _roots(fl, x.id, depth + 1)
    return out


def r18_3(ctx: Ctx, fi, fl: Flow, g: CFG, fmt: str) -> None:
    pm = ctx.pm
    short = fi.short
    if not fl.convert_calls:
        ctx.gap("R18.3", f"{short}: no converter.convert(...) call was re-identified")
        return
    if not fl.encode_calls:
        ctx.gap("R18.3", f"{short}: no rtf_encode() call was re-identified")
        return
    conv = fl.convert_calls[0]
    conv_node = _node_of(g, conv)
    enc_nodes = [_node_of(g, c) for c in fl.encode_calls]
    # the test of the converter result's type: an `if` whose condition applies isinstance to the result and whose failing branch raises
    conv_names = set()
    p = getattr(conv, "_parent", None)
    if isinstance(p, ast.Assign):
        conv_names |= {t.id for t in p.targets if isinstance(t, ast.Name)}
    checks = []
    for n in walk_no_nested(fi.node):
        if isinstance(n, ast.If) and any(isinstance(c, ast.Call) and dotted(c.func) == "isinstance" and c.args and "converted" in fl.location(c.args[0]) for c in ast.walk(n.test)):
            if any(isinstance(s, ast.Raise) for s in ast.walk(n)):
                checks.append(n)
    check_nodes = [nd for n in checks for nd in g.nodes if nd.kind == "test" and nd.ast is n]
    ctx.instance("R18.3", fi.where(conv), f"{short}: convert call `{unparse(conv)[:60]}`; result type test(s): {[unparse(c.test)[:40] for c in checks]}")
    # ---- arguments of the converter
    kw = {k.arg: k.value for k in conv.keywords if k.arg}
    src = kw.get("input_files", conv.args[0] if conv.args else None)
    odir = kw.get("output_dir", conv.args[1] if len(conv.args) > 1 else None)
    for label, e in (("input file", src), ("output directory", odir)):
        if e is None:
            ctx.gap("R18.3", f"{short}: the converter's {label} argument was not re-identified")
            continue
        loc = fl.location(e)
        ctx.instance("R18.3", fi.where(conv), f"{short}: converter {label} `{unparse(e)[:50]}` lies in {sorted(loc)}")
        if "temp" in loc and not (loc & {"target", "const"}):
            continue
        if loc & {"target", "const"}:
            ctx.violation("R18.3", short, f"converter {label} outside temp dir: {unparse(e)[:50]}", fi.where(conv),
                          f"{short}: the converter's {label} `{unparse(e)[:60]}` lies {'next to the requested target' if 'target' in loc else 'at a fixed path'}, not in a temporary directory: "
                          "a failed export leaves it behind")
        else:
            ctx.gap("R18.3", f"{short}: the location of the converter's {label} `{unparse(e)[:60]}` could not be derived")
    # ---- file-system operations
    n_target = 0
    for c, kind, pexpr in fs_ops(fl):
        loc = fl.location(pexpr) if pexpr is not None else {"unknown"}
        nd = _node_of(g, c)
        is_src_arg = kind in ("shutil.move", "os.rename", "os.replace") and False
        if "target" in loc and "temp" not in loc:
            n_target += 1
            e_ok = any(completed_before(g, en, nd) for en in enc_nodes if en is not None)
            c_ok = completed_before(g, conv_node, nd)
            t_ok = all(_dominated_by_test(g, tn, nd) for tn in check_nodes) if check_nodes else None
            ctx.instance("R18.3", fi.where(c), f"{short}: {kind} -> target `{unparse(pexpr)[:40]}` after completed encode: {e_ok}, after completed convert: {c_ok}, after the result type test: {t_ok}")
            if not e_ok or not c_ok:
                ctx.violation("R18.3", short, f"{kind} on target before " + ("encode" if not e_ok else "convert"), fi.where(c),
                              f"{short}: the target is touched by `{unparse(c)[:60]}` on a path on which {'rtf_encode()' if not e_ok else 'converter.convert()'} has not completed: "
                              "a failing export modifies / creates the target")
            elif t_ok is False:
                ctx.violation("R18.3", short, f"{kind} on target before the result type test", fi.where(c),
                              f"{short}: `{unparse(c)[:60]}` runs before the converter's result has been checked to be a Path: a malformed result is moved to / destroys the target")
            # what reaches the target derives from the converter's result
            if kind in WRITE_FUNCS and WRITE_FUNCS[kind] == 1 and c.args:
                sl = fl.location(c.args[0])
                ctx.instance("R18.3", fi.where(c), f"{short}: source of {kind} `{unparse(c.args[0])[:40]}` derives from {sorted(sl)}")
                # a sibling of the converter's output (companion folder ...): its NAME must come from the converter's result as well
                for part in fl.name_parts(c.args[0]):
                    dep = fl.depends_on(part)
                    ctx.instance("R18.3", fi.where(c), f"{short}: the name `{unparse(part)[:40]}` of the moved source is computed from {sorted(dep) or ['constants']}")
                    if "converted" in sl and "target" in dep and "converted" not in dep:
                        ctx.violation("R18.3", short, "source name derived from the target: " + unparse(part)[:40], fi.where(c),
                                      f"{short}: what is moved to the target area is looked up in the converter's output directory under the name `{unparse(part)[:50]}`, which is computed "
                                      "from the requested target path, not from the converter's result: for a target whose name differs from the converter's output name it is never "
                                      "found (it is not moved and is lost with the temporary directory)")
                if "converted" not in sl:
                    if sl <= {"unknown"}:
                        ctx.gap("R18.3", f"{short}: the source `{unparse(c.args[0])[:50]}` moved to the target could not be traced")
                    else:
                        ctx.violation("R18.3", short, "source of the final move " + unparse(c.args[0])[:50], fi.where(c), f"{short}: what is moved to the target (`{unparse(c.args[0])[:60]}`) is not the converter's output")
        elif "temp" in loc or "converted" in loc:
            ctx.instance("R18.3", fi.where(c), f"{short}: {kind} -> `{unparse(pexpr)[:40]}` inside {sorted(loc & {'temp', 'converted'})}")
            if kind in ("write_text", "write_bytes") and c.args:
                same = _same_value(fl, c.args[0], fl.encode_calls)
                ctx.instance("R18.3", fi.where(c), f"{short}: intermediate file content `{unparse(c.args[0])[:40]}` is rtf_encode()'s result itself: {same}")
                if same is False:
                    ctx.violation("R18.3", short, "intermediate RTF " + unparse(c.args[0])[:50], fi.where(c), f"{short}: the intermediate RTF file holds `{unparse(c.args[0])[:60]}`, not exactly rtf_encode()'s result")
        elif "const" in loc:
            ctx.violation("R18.3", short, f"{kind} outside temp dir: {unparse(pexpr)[:50]}", fi.where(c), f"{short}: `{unparse(c)[:70]}` writes to a fixed path outside the temporary directories")
        else:
            ctx.gap("R18.3", f"{short}: the location of `{unparse(pexpr)[:60]}` ({kind}) could not be derived")
    if n_target == 0:
        ctx.violation("R18.3", short, "no operation on the target", fi.where(), f"{short}: the converter output never reaches the requested path (no move/copy/write to the target was found after the conversion)") \
            if False else ctx.gap("R18.3", f"{short}: no operation that brings the converter's output to the requested path was re-identified")
    # ---- R18.4 format
    f = kw.get("format")
    vals = []
    if f is not None:
        for a in fl.value_origin(f):
            vals.append(a.value if isinstance(a, ast.Constant) else None)
    ctx.instance("R18.4", fi.where(conv), f"{short}: convert(format={vals})")
    if f is None or any(v is None for v in vals) or not vals:
        ctx.gap("R18.4", f"{short}: the format handed to the converter is not a constant of the source")
    elif set(vals) != {fmt}:
        ctx.violation("R18.4", short, f"format {vals}", fi.where(conv), f"{short} converts to {vals}, expected '{fmt}'")


def _dominated_by_test(g: CFG, test_node, nd) -> bool:
    """every path to nd passes the test node (and therefore its raise-guard)"""
    if test_node is None or nd is None:
        return False
    r = g.reachable(g.entry, blocked=[test_node])
    return id(nd) not in r


def check(ctx: Ctx) -> None:
    pm = ctx.pm
    ctx.explain(
        "Structural rules on the control-flow graph (with exceptional edges) of each writer, with dataflow of path locations. R18.1 write_rtf: every operation on the target "
        "location is preceded on every path by the completed rtf_encode() call, the written value is that result, parents are created. R18.2 every temporary resource is a "
        "with-item / enter_context of an ExitStack in a with / followed by clean-up on every exit path; package context-manager helpers protect their yield. R18.3 converters: "
        "every operation on the target location is preceded by completed encode, completed convert and the result type test; the moved source derives from the converter's "
        "result; converter input and output directory lie in temporary directories; nothing is written to fixed paths. R18.4 format constant per writer.")
    ctx.assume("shutil.move is atomic enough for the property (same file system); TemporaryDirectory / NamedTemporaryFile remove their resource when used as context managers; "
               "contextlib.ExitStack unwinds on every exit of its with-block")
    ctx.assume("'completed before' = on the control-flow graph every path from the entry to the operation leaves the call's node through a normal (non-exceptional) edge")
    ctx.undecided("atomicity of shutil.move across file systems; LibreOffice's own temporary files; failures inside shutil.move itself")
    r18_1(ctx)
    for short, fmt in CONVERTERS:
        fi = pm.func(short)
        fl = Flow(pm, fi)
        g = CFG(fi.node)
        r18_2(ctx, fi, fl, g)
        r18_3(ctx, fi, fl, g, fmt)
    ctx.floor("R18.2", 3)
    ctx.floor("R18.3", 9)
    ctx.floor("R18.4", 3)
