"""C18 - exports are all-or-nothing and leave no debris.

R18.1 write_rtf: encode dominates every touch of the target, the written value is the encode
result unmodified; R18.2 temporary resources only through `with tempfile.TemporaryDirectory()`
(or a repo context manager whose cleanup is in a finally); R18.3 the target is touched only by the
final shutil.move, dominated by convert and by the result type check, inside the with blocks;
R18.4 the three converters are the same function modulo the format.
"""
from __future__ import annotations

import ast
import re

from ..cfg import CFG, own_parts
from ..pm import AnalysisError, dotted, unparse, walk_no_nested
from ..report import Ctx

WRITERS = ("RTFDocument.write_docx", "RTFDocument.write_html", "RTFDocument.write_pdf")
FS_WRITE_ATTRS = {"write_text", "write_bytes", "touch", "unlink", "rename", "replace", "rmdir", "open", "symlink_to", "hardlink_to"}
FS_WRITE_FUNCS = {"shutil.move", "shutil.copy", "shutil.copy2", "shutil.copyfile", "shutil.rmtree", "os.remove", "os.rename",
                  "os.replace", "os.unlink"}


def _derives(fn, expr: ast.AST, base_names: set[str], depth: int = 0) -> bool:
    """does `expr` derive (through locals) from one of base_names?"""
    for n in ast.walk(expr):
        if isinstance(n, ast.Name):
            if n.id in base_names:
                return True
            if depth < 6:
                for a in walk_no_nested(fn):
                    if isinstance(a, ast.Assign) and any(isinstance(t, ast.Name) and t.id == n.id for t in a.targets):
                        if _derives(fn, a.value, base_names, depth + 1):
                            return True
    return False


def _node_of(g: CFG, sub: ast.AST):
    live = g.reachable(g.entry)
    for nd in g.node_containing(sub):
        if id(nd) in live:
            return nd
    return None


def _fs_touches(fi):
    """(call, kind, path-expr) for every filesystem-modifying operation in the function"""
    out = []
    for c in walk_no_nested(fi.node):
        if not isinstance(c, ast.Call):
            continue
        d = dotted(c.func)
        if isinstance(c.func, ast.Attribute) and c.func.attr in FS_WRITE_ATTRS and not d.startswith(("shutil.", "os.")):
            if c.func.attr == "open":
                mode = c.args[0].value if c.args and isinstance(c.args[0], ast.Constant) else next((k.value.value for k in c.keywords if k.arg == "mode" and isinstance(k.value, ast.Constant)), "r")
                if not any(ch in str(mode) for ch in "wax+"):
                    continue
            out.append((c, c.func.attr, c.func.value))
        elif d in FS_WRITE_FUNCS:
            dst = c.args[1] if len(c.args) > 1 and d.startswith("shutil.") and d != "shutil.rmtree" else (c.args[0] if c.args else None)
            out.append((c, d, dst))
        elif d == "open" and c.args:
            mode = c.args[1].value if len(c.args) > 1 and isinstance(c.args[1], ast.Constant) else next((k.value.value for k in c.keywords if k.arg == "mode" and isinstance(k.value, ast.Constant)), "r")
            if any(ch in str(mode) for ch in "wax+"):
                out.append((c, "open:" + str(mode), c.args[0]))
    return out


def r18_1(ctx: Ctx) -> None:
    pm = ctx.pm
    fi = pm.func("RTFDocument.write_rtf")
    g = CFG(fi.node)
    enc = [c for c in walk_no_nested(fi.node) if isinstance(c, ast.Call) and dotted(c.func).endswith("rtf_encode")]
    if len(enc) != 1:
        ctx.violation("R18.1", fi.short, f"{len(enc)} encode calls", fi.where(), "write_rtf must encode exactly once")
        return
    enc_node = _node_of(g, enc[0])
    dom = g.dominators()
    # variable holding the encoded string
    p = getattr(enc[0], "_parent", None)
    var = p.targets[0].id if isinstance(p, ast.Assign) and isinstance(p.targets[0], ast.Name) else None
    target_names = {a.arg for a in fi.node.args.args if a.arg != "self"}
    touches = _fs_touches(fi)
    n_target = 0
    for c, kind, pexpr in touches:
        if kind == "mkdir":
            continue
        nd = _node_of(g, c)
        is_target = pexpr is not None and _derives(fi.node, pexpr, target_names)
        dominated = nd is not None and enc_node is not None and id(enc_node) in dom.get(id(nd), set()) and nd is not enc_node
        ctx.instance("R18.1", fi.where(c), f"write_rtf: {kind} on `{unparse(pexpr)}` (target: {is_target}) dominated by rtf_encode: {dominated}")
        if is_target:
            n_target += 1
            if not dominated:
                ctx.violation("R18.1", fi.short, f"{kind} before encode", fi.where(c),
                              f"write_rtf touches the target (`{unparse(c)[:60]}`) before rtf_encode() has succeeded; a failing encode leaves a truncated/empty target")
            if kind in ("write_text", "write_bytes"):
                val = c.args[0] if c.args else None
                ok = isinstance(val, ast.Name) and val.id == var and _single_assign(fi.node, var)
                if not ok and not (isinstance(val, ast.Call) and dotted(val.func).endswith("rtf_encode")):
                    ctx.violation("R18.1", fi.short, "written value " + unparse(val), fi.where(c),
                                  f"write_rtf writes `{unparse(val)}` instead of exactly the string rtf_encode() returned")
    if n_target == 0:
        ctx.violation("R18.1", fi.short, "no target write", fi.where(), "write_rtf no longer writes the target path")
    # with-statement opening the target around the encode
    for w in [n for n in walk_no_nested(fi.node) if isinstance(n, ast.With)]:
        for it in w.items:
            if isinstance(it.context_expr, ast.Call) and any(x is enc[0] for s in w.body for x in ast.walk(s)):
                d = unparse(it.context_expr)
                if "open" in d and re.search(r"['\"][wax]", d):
                    ctx.violation("R18.1", fi.short, "encode inside open(target)", fi.where(w), "rtf_encode() runs while the target is already open for writing")
    mk = [c for c in walk_no_nested(fi.node) if isinstance(c, ast.Call) and isinstance(c.func, ast.Attribute) and c.func.attr == "mkdir"]
    ok_mk = any(any(k.arg == "parents" and getattr(k.value, "value", None) is True for k in c.keywords) for c in mk)
    ctx.instance("R18.1", fi.where(), f"write_rtf creates missing parent directories: {ok_mk}")
    if not ok_mk:
        ctx.violation("R18.1", fi.short, "no mkdir(parents=True)", fi.where(), "write_rtf no longer creates missing parent directories")


def _single_assign(fn, name) -> bool:
    n = 0
    for a in walk_no_nested(fn):
        if isinstance(a, ast.Assign) and any(isinstance(t, ast.Name) and t.id == name for t in a.targets):
            n += 1
        if isinstance(a, ast.AugAssign) and isinstance(a.target, ast.Name) and a.target.id == name:
            n += 2
    return n == 1


def _cm_cleanup_ok(pm, fi) -> tuple[bool, str]:
    """a @contextmanager generator: every yield sits in a try whose finally cleans up"""
    ys = [n for n in walk_no_nested(fi.node) if isinstance(n, (ast.Yield, ast.YieldFrom))]
    if not ys:
        return False, "no yield"
    for y in ys:
        p = getattr(y, "_parent", None)
        ok = False
        while p is not None and p is not fi.node:
            if isinstance(p, ast.Try) and p.finalbody and any(x is y for s in p.body for x in ast.walk(s)):
                if any(isinstance(c, ast.Call) and dotted(c.func).split(".")[-1] in ("rmtree", "cleanup", "unlink", "remove") for s in p.finalbody for c in ast.walk(s)):
                    ok = True
            if isinstance(p, ast.With) and any("TemporaryDirectory" in unparse(i.context_expr) for i in p.items):
                ok = True
            p = getattr(p, "_parent", None)
        if not ok:
            return False, "yield is not protected by try/finally cleanup"
    return True, "cleanup in finally"


def r18_2_3(ctx: Ctx) -> None:
    pm = ctx.pm
    for short in WRITERS:
        fi = pm.func(short)
        g = CFG(fi.node)
        dom = g.dominators()
        target_names = {a.arg for a in fi.node.args.args if a.arg not in ("self",)} - {"converter"}
        # ---- R18.2 temp resources
        tmp_vars: set[str] = set()
        withs = [n for n in walk_no_nested(fi.node) if isinstance(n, ast.With)]
        for w in withs:
            for it in w.items:
                d = dotted(it.context_expr.func) if isinstance(it.context_expr, ast.Call) else unparse(it.context_expr)
                ok = d in ("tempfile.TemporaryDirectory", "TemporaryDirectory")
                why = "tempfile.TemporaryDirectory"
                if not ok and isinstance(it.context_expr, ast.Call):
                    r = pm.resolve(fi.module, d.split(".")[-1]) if "." not in d else None
                    cand = r[1] if r and r[0] == "func" else pm.funcs.get(d.split(".")[-1])
                    if cand is not None and any(x.endswith("contextmanager") for x in cand.decorators):
                        ok, why = _cm_cleanup_ok(pm, cand)
                        why = f"{cand.short}: {why}"
                ctx.instance("R18.2", fi.where(w), f"{short}: with {d}() as {unparse(it.optional_vars) if it.optional_vars else '_'} -> {why if ok else 'NOT a guaranteed-cleanup temp dir: ' + why}")
                if isinstance(it.optional_vars, ast.Name):
                    tmp_vars.add(it.optional_vars.id)
                if not ok:
                    ctx.violation("R18.2", short, f"with {d}", fi.where(w), f"{short}: temporary directory from `{d}()` is not removed when the body raises ({why})")
        for c in walk_no_nested(fi.node):
            if isinstance(c, ast.Call):
                d = dotted(c.func)
                if d.split(".")[-1] in ("mkdtemp", "mkstemp", "NamedTemporaryFile", "TemporaryFile", "SpooledTemporaryFile", "gettempdir"):
                    in_with = isinstance(getattr(c, "_parent", None), ast.withitem)
                    ctx.violation("R18.2", short, d, fi.where(c), f"{short}: `{d}` creates a temporary resource that is not removed automatically on failure")
                if d in ("tempfile.TemporaryDirectory", "TemporaryDirectory") and not isinstance(getattr(c, "_parent", None), ast.withitem):
                    ctx.violation("R18.2", short, "TemporaryDirectory outside with", fi.where(c), f"{short}: TemporaryDirectory() not used as a context manager")
        if len(withs) < 2:
            ctx.violation("R18.2", short, f"{len(withs)} with blocks", fi.where(), f"{short}: intermediate RTF and converter output must live in temporary-directory context managers")
        # ---- R18.3 filesystem touches
        conv = [c for c in walk_no_nested(fi.node) if isinstance(c, ast.Call) and isinstance(c.func, ast.Attribute) and c.func.attr == "convert"]
        enc = [c for c in walk_no_nested(fi.node) if isinstance(c, ast.Call) and dotted(c.func).endswith("rtf_encode")]
        conv_node = _node_of(g, conv[0]) if conv else None
        checks = [n for n in walk_no_nested(fi.node) if isinstance(n, ast.If) and "isinstance" in unparse(n.test) and "Path" in unparse(n.test)
                  and n.body and isinstance(n.body[-1], ast.Raise)]
        check_node = _node_of(g, checks[0].test) if checks else None
        if not conv:
            ctx.violation("R18.3", short, "no convert call", fi.where(), f"{short}: converter.convert is no longer called")
        if not checks:
            ctx.violation("R18.3", short, "no result type check", fi.where(), f"{short}: the converter result is no longer checked to be a Path before it is moved")
        moves = 0
        for c, kind, pexpr in _fs_touches(fi):
            nd = _node_of(g, c)
            to_target = pexpr is not None and _derives(fi.node, pexpr, target_names) and not _derives(fi.node, pexpr, tmp_vars)
            to_tmp = pexpr is not None and _derives(fi.node, pexpr, tmp_vars)
            if kind == "mkdir":
                continue
            inside_withs = sum(1 for a in _anc(c, fi.node) if isinstance(a, ast.With))
            dominated = nd is not None and conv_node is not None and id(conv_node) in dom.get(id(nd), set()) and \
                (check_node is None or id(check_node) in dom.get(id(nd), set()))
            ctx.instance("R18.3", fi.where(c), f"{short}: {kind} -> `{unparse(pexpr)}` target={to_target} temp={to_tmp} after convert+check={dominated} depth(with)={inside_withs}")
            if to_target:
                if kind != "shutil.move":
                    ctx.violation("R18.3", short, f"{kind} on target", fi.where(c), f"{short}: the target is touched by `{unparse(c)[:60]}`, not only by the final move")
                else:
                    moves += 1
                    if not dominated:
                        ctx.violation("R18.3", short, "move not dominated", fi.where(c), f"{short}: the move to the target is not preceded on every path by a successful conversion and the result type check")
                    if inside_withs < 2:
                        ctx.violation("R18.3", short, "move outside temp scope", fi.where(c), f"{short}: the move to the target happens outside the temporary-directory blocks (source may already be deleted)")
                    src_e = c.args[0] if c.args else None
                    if src_e is None or not _derives(fi.node, src_e, {"converted"}):
                        ctx.violation("R18.3", short, "move source " + unparse(src_e), fi.where(c), f"{short}: what is moved to the target is not the converter's output")
            elif not to_tmp and kind not in ("mkdir",):
                ctx.violation("R18.3", short, f"{kind} outside temp dir: {unparse(pexpr)}", fi.where(c),
                              f"{short}: `{unparse(c)[:70]}` writes to a path that derives neither from a temporary directory nor from the final move")
        if moves < 1:
            ctx.violation("R18.3", short, "no final move", fi.where(), f"{short}: the converter output never reaches the requested path")
        # encode result written unmodified into the temp dir
        for e in enc:
            p = getattr(e, "_parent", None)
            var = p.targets[0].id if isinstance(p, ast.Assign) and isinstance(p.targets[0], ast.Name) else None
            wr = [c for c in walk_no_nested(fi.node) if isinstance(c, ast.Call) and isinstance(c.func, ast.Attribute) and c.func.attr == "write_text"]
            ok = any(c.args and isinstance(c.args[0], ast.Name) and c.args[0].id == var for c in wr) and var and _single_assign(fi.node, var)
            if not ok:
                ctx.violation("R18.3", short, "intermediate RTF", fi.where(e), f"{short}: the intermediate RTF file is not exactly rtf_encode()'s result")
    ctx.floor("R18.2", 6)
    ctx.floor("R18.3", 7)


def _anc(n, stop):
    p = getattr(n, "_parent", None)
    while p is not None and p is not stop:
        yield p
        p = getattr(p, "_parent", None)


def _skeleton(fi, fmt: str) -> list[str]:
    out = []
    for n in ast.walk(fi.node):
        if isinstance(n, ast.Expr) and isinstance(n.value, ast.Constant):
            continue
        if isinstance(n, ast.Call):
            out.append("call:" + dotted(n.func).replace(fmt, "FMT"))
        elif isinstance(n, (ast.With, ast.If, ast.Raise, ast.Return, ast.For, ast.Try)):
            out.append(type(n).__name__)
        elif isinstance(n, ast.Constant) and isinstance(n.value, str) and n.value == fmt:
            out.append("const:FMT")
    return sorted(out)


def r18_4(ctx: Ctx) -> None:
    pm = ctx.pm
    sk = {}
    for short, fmt in zip(WRITERS, ("docx", "html", "pdf")):
        fi = pm.func(short)
        fmts = [k.value.value for c in walk_no_nested(fi.node) if isinstance(c, ast.Call) and isinstance(c.func, ast.Attribute) and c.func.attr == "convert"
                for k in c.keywords if k.arg == "format" and isinstance(k.value, ast.Constant)]
        ctx.instance("R18.4", fi.where(), f"{short}: convert(format={fmts})")
        if fmts != [fmt]:
            ctx.violation("R18.4", short, f"format {fmts}", fi.where(), f"{short} converts to {fmts}, expected ['{fmt}']")
        sk[short] = _skeleton(fi, fmt)
    a, b = sk[WRITERS[0]], sk[WRITERS[2]]
    if a != b:
        diff = sorted(set(a) ^ set(b))
        ctx.violation("R18.4", "write_docx/write_pdf", "skeleton differs " + ",".join(diff)[:80], pm.func(WRITERS[2]).where(),
                      f"write_docx and write_pdf are no longer the same function modulo the format ({diff[:6]}); a safeguard present in one is missing in the other")
    h = sk[WRITERS[1]]
    from collections import Counter
    missing = Counter(a) - Counter(h)
    if missing:
        ctx.violation("R18.4", "write_html", "lacks " + ",".join(sorted(missing))[:80], pm.func(WRITERS[1]).where(),
                      f"write_html lacks steps that write_docx has: {sorted(missing)[:6]}")


def check(ctx: Ctx) -> None:
    ctx.explain(
        "R18.1 CFG of write_rtf: the rtf_encode() call dominates every filesystem operation on the target path and the written "
        "value is that call's single-assigned result. R18.2 in write_docx/html/pdf every temporary resource is a "
        "`with tempfile.TemporaryDirectory()` item (or a repo context manager whose yield is protected by try/finally cleanup); "
        "no mkdtemp/mkstemp/NamedTemporaryFile. R18.3 every filesystem write goes to a path derived from a temp-dir variable, "
        "except shutil.move(<converter output>, <target>), which is dominated by converter.convert and the isinstance(Path) "
        "raise-guard and lies inside both with blocks. R18.4 sibling agreement of the three converters.")
    ctx.assume("shutil.move is atomic enough for the property (same file system) and TemporaryDirectory removes its tree on exit")
    ctx.undecided("atomicity of shutil.move across file systems; LibreOffice's own temporary files")
    r18_1(ctx)
    r18_2_3(ctx)
    r18_4(ctx)
