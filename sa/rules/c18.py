"""C18 - exports are all-or-nothing and leave no debris.

The four writers are interpreted (sa/rules/c17.py: model interpreter) over an in-memory file system with a model
document (rtf_encode returns a fixed string or fails) and a model converter (writes `<stem>.<format>` into the output
directory it is given and returns its path; or fails before / after producing output; or returns something that is not
a path).  Besides those failures an exception is injected, run by run, at every call boundary of repository code.
Observed per run:

R18.1 write_rtf: a normal return leaves exactly rtf_encode()'s string at the target (missing parent directories
      created); a raise leaves the target as it was.
R18.2 no temporary file or directory survives a run, whether it returns or raises.
R18.3 write_docx/html/pdf: a normal return leaves the converter's output (and the HTML resource folder) at the requested
      path and nowhere else, the converter was given exactly rtf_encode()'s string; a raise leaves the target as it was
      and no other file behind.
R18.4 each writer asks the converter for its own format.
"""
from __future__ import annotations

from ..report import Ctx
from .c17 import FS, Bound, ClassVal, Func, Interp, NeedChoice, Obj, Unknown, Unsupported, _Model, is_artefact, interp_pm, cover, METHOD

WRITERS = (("RTFDocument.write_docx", "docx"), ("RTFDocument.write_html", "html"), ("RTFDocument.write_pdf", "pdf"))
ENCODED = "{\\rtf1\\ansi model document\n\\pard text\\par\n}"
OLD = "PRE-EXISTING TARGET CONTENT\n"


class _Lib:
    """a model standing for a repository function: a call boundary at which faults are injected"""

    def __init__(self, name, f):
        self.name, self.f = name, f

    def __call__(self, *a, **k):
        return self.f(*a, **k)

    def __repr__(self):
        return f"<model {self.name}>"


class Converter(_Model):
    """model of LibreOfficeConverter: convert() reads the input file, writes `<stem>.<format>` into output_dir"""

    def __init__(self, run):
        self.run = run
        self.convert = _Lib("converter.convert", self._convert)

    def _convert(self, input_files=None, output_dir=None, format="pdf", overwrite=False, **k):
        run, fs = self.run, self.run.fs
        if k:
            raise Unsupported(f"converter.convert called with unknown arguments {sorted(k)}")
        if isinstance(input_files, (list, tuple)):
            raise Unsupported("converter.convert called with several input files")
        if isinstance(format, Unknown) or isinstance(output_dir, Unknown) or isinstance(input_files, Unknown):
            raise Unsupported("converter.convert called with unknown arguments")
        src = fs.norm(input_files)
        run.convert_calls.append({"format": format, "input": src, "input_content": fs.files.get(src), "output_dir": fs.norm(output_dir)})
        if run.conv_mode == "raise-before":
            run.it.throw("RuntimeError", "model converter failed before producing output")
        if src not in fs.files:
            run.it.throw("FileNotFoundError", f"converter input {src} does not exist")
        out_dir = fs.norm(output_dir)
        if out_dir not in fs.dirs:
            fs.mkdir(out_dir, parents=True, exist_ok=True)
        stem = src.rsplit("/", 1)[-1].rsplit(".", 1)[0]
        out = f"{out_dir}/{stem}.{format}"
        content = f"CONVERTED[{format}] of <<{fs.files[src]}>>"
        fs.write_file(out, content, "create")
        run.converted = (out, content)
        if format == "html" and run.resources:
            fs.mkdir(f"{out}_files", exist_ok=True)
            fs.write_file(f"{out}_files/image1.png", "PNG", "create")
        if run.conv_mode == "raise-after":
            run.it.throw("RuntimeError", "model converter failed after producing output")
        if run.conv_mode == "returns-list":
            return [fs.Path(out)]
        if run.conv_mode == "returns-none":
            return None
        if run.conv_mode == "returns-str":
            return out
        return fs.Path(out)


class Run:
    """one interpreted export call on a fresh model world"""

    def __init__(self, pm, *, target, existing, enc_ok=True, conv_mode="ok", resources=False, fault_at=None, valuation=None):
        self.pm, self.target, self.existing = pm, target, existing
        self.enc_ok, self.conv_mode, self.resources, self.fault_at = enc_ok, conv_mode, resources, fault_at
        self.it = it = Interp(pm)
        files = {target: OLD} if existing else {}
        self.fs = fs = FS(it, files, dirs=("/", "/tmp", "/work", "/work/out"))
        it.externals.update(fs.externals())
        self.before = fs.snapshot()
        self.convert_calls, self.converted, self.lib_calls, self.encodes = [], None, [], 0
        self.converter = Converter(self)
        it.overrides["LibreOfficeConverter"] = _Lib("LibreOfficeConverter()", lambda *a, **k: self.converter)
        self.doc = Obj(it.class_val(pm.cls("RTFDocument")), {})
        self.doc.attrs["rtf_encode"] = _Lib("rtf_encode", self._encode)
        it.before_call = self._before_call
        it.valuation = dict(valuation or {})

    def _encode(self, *a, **k):
        self.encodes += 1
        if not self.enc_ok:
            self.it.throw("ValueError", "model rtf_encode failed")
        return ENCODED

    def _before_call(self, node, f, args, kwargs):
        if isinstance(f, (Func, Bound, ClassVal, _Lib)):
            name = f.name if isinstance(f, (Func, ClassVal, _Lib)) else f.func.name
            self.lib_calls.append(name)
            if self.fault_at is not None and len(self.lib_calls) == self.fault_at:
                self.it.throw("RuntimeError", f"fault injected at call #{self.fault_at} ({name})")

    def call(self, short, path_arg, pass_converter):
        fi = self.pm.func(short)
        f = Bound(self.it.func_val(fi), self.doc)
        kw = {"converter": self.converter} if pass_converter else {}
        return self.it.outcome(lambda: self.it.call(f, [path_arg], kw))

    # ---- observations
    def target_now(self):
        return self.fs.files.get(self.target)

    def debris(self):
        fs = self.fs
        left = [p for p in fs.temp_created if p in fs.dirs or p in fs.files]
        left += [p for p in list(fs.files) + list(fs.dirs) if p.startswith("/tmp/") and p not in left and p not in self.before[1]]
        return sorted(set(left))

    def strays(self, allowed=()):
        """files created outside /tmp other than the target (and explicitly allowed paths)"""
        return sorted(p for p in self.fs.files if p not in self.before[0] and p != self.target and not p.startswith("/tmp/")
                      and not any(p == a or p.startswith(a + "/") for a in allowed))


_STATS = {"scenarios": 0, "runs": 0, "forks": 0, "fault_points": {}}


def _runs(pm, short, path_kind, pass_converter, **kw):
    """run one scenario under every valuation of unknown conditions -> [(outcome, Run)]"""
    out, pending = [], [dict()]
    while pending:
        v = pending.pop()
        r = Run(pm, valuation=v, **kw)
        arg = r.fs.Path(kw["target"]) if path_kind == "Path" else kw["target"]
        try:
            o = r.call(short, arg, pass_converter)
        except NeedChoice as e:
            if len(v) > 6:
                raise Unsupported(f"too many unknown conditions in {short}")
            pending.extend({**v, e.key: x} for x in e.domain)
            continue
        out.append((o, r))
    _STATS["scenarios"] += 1
    _STATS["runs"] += len(out)
    _STATS["forks"] += len(out) - 1
    return out


def _exc_name(o):
    return o[1].cls.mro_names()[0] if o[0] == "raise" and o[1].cls is not None else ""


def _artefact(ctx, rule, o, label) -> bool:
    return o[0] == "raise" and is_artefact(o[1])


def r18_1(ctx: Ctx) -> None:
    pm = interp_pm(ctx.pm)
    short = "RTFDocument.write_rtf"
    fi = pm.func(short)
    for target, existing in (("/work/out/report.rtf", True), ("/work/out/report.rtf", False), ("/work/new/sub/report.rtf", False)):
        for path_kind in ("str", "Path"):
            where = f"target {'exists' if existing else 'absent'}{' in a missing directory' if '/new/' in target else ''}, given as {path_kind}"
            # ---- success
            for o, r in _runs(pm, short, path_kind, False, target=target, existing=existing):
                got = r.target_now()
                ctx.instance("R18.1", fi.where(), f"write_rtf ({where}): {o[0]} {_exc_name(o)}; target holds rtf_encode()'s string: {got == ENCODED}; "
                             f"rtf_encode called {r.encodes}x; library calls {r.lib_calls}")
                if o[0] == "raise":
                    if _artefact(ctx, "R18.1", o, where):
                        ctx.gap("R18.1", f"write_rtf ({where}): interpretation ended with {o[1]!r}")
                    elif "/new/" in target and _exc_name(o) in ("FileNotFoundError", "OSError", "NotADirectoryError"):
                        ctx.violation("R18.1", short, "no mkdir(parents=True)", fi.where(), f"write_rtf no longer creates missing parent directories ({o[1]!r})")
                    else:
                        ctx.violation("R18.1", short, f"raises {_exc_name(o)}", fi.where(), f"write_rtf raises {o[1]!r} although encoding succeeds ({where})")
                    continue
                if got is None:
                    ctx.violation("R18.1", short, "no target write", fi.where(), f"write_rtf no longer writes the target path ({where})")
                elif got != ENCODED:
                    ctx.violation("R18.1", short, "written value differs", fi.where(),
                                  f"write_rtf stores {got[:60]!r} instead of exactly the string rtf_encode() returned ({where})")
                if r.strays() or r.debris():
                    ctx.violation("R18.1", short, "other files written", fi.where(), f"write_rtf leaves other files behind: {(r.strays() + r.debris())[:3]} ({where})")
                n_calls = len(r.lib_calls)
            # ---- encode fails / a fault at every call boundary
            _STATS["fault_points"][f"write_rtf ({where})"] = n_calls
            variants = [("rtf_encode raises", dict(enc_ok=False))] + [(f"fault at call #{k}", dict(fault_at=k)) for k in range(1, n_calls + 1)]
            for vlabel, kw in variants:
                for o, r in _runs(pm, short, path_kind, False, target=target, existing=existing, **kw):
                    got, want = r.target_now(), (OLD if existing else None)
                    ctx.instance("R18.1", fi.where(), f"write_rtf ({where}; {vlabel}): {o[0]} {_exc_name(o)}; target afterwards "
                                 f"{'unchanged' if got == want else ('absent' if got is None else repr(got[:30]))}")
                    if o[0] != "raise":
                        ctx.violation("R18.1", short, "failure swallowed", fi.where(), f"write_rtf returns normally although {vlabel} ({where})")
                    if got != want:
                        ctx.violation("R18.1", short, "target touched before encode", fi.where(),
                                      f"write_rtf ({where}; {vlabel}): the target is {'created' if want is None else 'modified'} "
                                      f"({'empty' if got == '' else repr((got or '')[:40])}) although the call fails; "
                                      "the target must only be written once rtf_encode() has succeeded")
                    if r.strays() or r.debris():
                        ctx.violation("R18.1", short, "files left after failure", fi.where(), f"write_rtf ({where}; {vlabel}) leaves {(r.strays() + r.debris())[:3]} behind")
    ctx.floor("R18.1", 6)


def r18_2_3(ctx: Ctx) -> None:
    pm = interp_pm(ctx.pm)
    for short, fmt in WRITERS:
        fi = pm.func(short)
        nm = short.split(".")[-1]
        cases = [("/work/out/report." + fmt, True, "str", False, False), ("/work/new/sub/report." + fmt, False, "Path", True, fmt == "html"),
                 ("/work/out/report." + fmt, False, "str", True, fmt == "html")]
        for target, existing, path_kind, pass_conv, resources in cases:
            where = (f"target {'exists' if existing else 'absent'}{' in a missing directory' if '/new/' in target else ''}, {path_kind}, "
                     f"{'converter passed' if pass_conv else 'default converter'}{', converter writes a resource folder' if resources else ''}")
            base = dict(target=target, existing=existing, resources=resources)
            n_calls = 0
            # ---- success
            for o, r in _runs(pm, short, path_kind, pass_conv, **base):
                got = r.target_now()
                conv = r.converted
                n_calls = max(n_calls, len(r.lib_calls))
                ctx.instance("R18.3", fi.where(), f"{nm} ({where}): {o[0]} {_exc_name(o)}; target holds the converter output: {conv is not None and got == conv[1]}; "
                             f"library calls {r.lib_calls}")
                if o[0] == "raise":
                    if _artefact(ctx, "R18.3", o, where):
                        ctx.gap("R18.3", f"{nm} ({where}): interpretation ended with {o[1]!r}")
                    else:
                        ctx.violation("R18.3", short, f"raises {_exc_name(o)}", fi.where(), f"{nm} raises {o[1]!r} although encoding and conversion succeed ({where})")
                    continue
                # R18.4 format
                fmts = [c["format"] for c in r.convert_calls]
                ctx.instance("R18.4", fi.where(), f"{nm}: convert(format={fmts})")
                if not r.convert_calls:
                    ctx.violation("R18.3", short, "no convert call", fi.where(), f"{nm}: converter.convert is never called ({where})")
                    continue
                if fmts != [fmt]:
                    ctx.violation("R18.4", short, f"format {fmts}", fi.where(), f"{nm} converts to {fmts}, expected ['{fmt}']")
                for c in r.convert_calls:
                    if c["input_content"] != ENCODED:
                        ctx.violation("R18.3", short, "intermediate RTF", fi.where(),
                                      f"{nm}: the file handed to the converter holds {str(c['input_content'])[:50]!r}, not exactly rtf_encode()'s result")
                    if not c["input"].startswith("/tmp/") or not c["output_dir"].startswith("/tmp/"):
                        ctx.violation("R18.3", short, "conversion outside a temporary directory", fi.where(),
                                      f"{nm}: the converter works on {c['input']} -> {c['output_dir']}, not inside temporary directories")
                if conv is None or got != conv[1]:
                    ctx.violation("R18.3", short, "no final move", fi.where(),
                                  f"{nm} ({where}): after a successful call the requested path holds {('nothing' if got is None else repr(got[:40]))}, not the converter's output")
                allowed = []
                if resources and conv is not None:
                    res_dir = target.rsplit("/", 1)[0] + "/" + conv[0].rsplit("/", 1)[-1] + "_files"
                    allowed.append(res_dir)
                    ok_res = f"{res_dir}/image1.png" in r.fs.files
                    ctx.instance("R18.3", fi.where(), f"{nm}: HTML resource folder moved next to the target ({res_dir}): {ok_res}")
                    if not ok_res:
                        ctx.violation("R18.3", short, "resource folder not moved", fi.where(), f"{nm}: the converter's `{conv[0].rsplit('/', 1)[-1]}_files` folder does not end up next to the requested path")
                _after(ctx, r, short, nm, fi, where, "successful call", allowed)
            # ---- failures: encode, converter modes, injected faults
            _STATS["fault_points"][f"{nm} ({where})"] = n_calls
            variants = [("rtf_encode raises", dict(enc_ok=False))]
            variants += [(f"converter {m}", dict(conv_mode=m)) for m in ("raise-before", "raise-after", "returns-list", "returns-none", "returns-str")]
            variants += [(f"fault at call #{k}", dict(fault_at=k)) for k in range(1, n_calls + 1)]
            for vlabel, kw in variants:
                for o, r in _runs(pm, short, path_kind, pass_conv, **base, **kw):
                    got, want = r.target_now(), (OLD if existing else None)
                    conv = r.converted
                    ctx.instance("R18.3", fi.where(), f"{nm} ({where}; {vlabel}): {o[0]} {_exc_name(o)}; target afterwards "
                                 f"{'unchanged' if got == want else ('absent' if got is None else repr(got[:30]))}")
                    if o[0] == "raise" and _artefact(ctx, "R18.3", o, where):
                        ctx.gap("R18.3", f"{nm} ({where}; {vlabel}): interpretation ended with {o[1]!r}")
                        continue
                    if o[0] != "raise":
                        if conv is not None and got == conv[1] and vlabel == "converter returns-str":
                            pass        # a writer that also accepts a str result delivered the output: all-or-nothing holds
                        else:
                            ctx.violation("R18.3", short, "failure swallowed: " + vlabel.split(" #")[0], fi.where(),
                                          f"{nm} returns normally although {vlabel} ({where}); target holds {('nothing' if got is None else repr(got[:30]))}")
                        _after(ctx, r, short, nm, fi, where, vlabel, [target.rsplit("/", 1)[0]])
                        continue
                    if got != want:
                        ctx.violation("R18.3", short, "target changed although the call fails", fi.where(),
                                      f"{nm} ({where}; {vlabel}): the call raises {_exc_name(o)} but the target was "
                                      f"{'created' if want is None else 'replaced'} ({repr((got or '')[:40])}); a failed export must leave the target as it was")
                    _after(ctx, r, short, nm, fi, where, vlabel, [])
    ctx.floor("R18.2", 6)
    ctx.floor("R18.3", 7)


def _after(ctx, r, short, nm, fi, where, vlabel, allowed) -> None:
    """R18.2 / R18.3: what is left on the file system after a run"""
    deb = r.debris()
    ctx.instance("R18.2", fi.where(), f"{nm} ({where}; {vlabel}): temporaries created {r.fs.temp_created}, left behind {deb}")
    if deb:
        ctx.violation("R18.2", short, "temporary files survive" + ("" if vlabel == "successful call" else " a failure"), fi.where(),
                      f"{nm} ({where}; {vlabel}): temporary files/directories are not removed: {deb[:3]}")
    st = r.strays(allowed)
    if st:
        ctx.violation("R18.3", short, "files outside temporary directories", fi.where(),
                      f"{nm} ({where}; {vlabel}): files other than the target are left outside temporary directories: {st[:3]}")


def check(ctx: Ctx) -> None:
    ctx.explain(
        "The writers' syntax trees are interpreted over an in-memory file system with a model document and a model converter; "
        "besides failing encode / convert (before output, after output, non-path results) an exception is injected at every call "
        "boundary of repository code, one run each. R18.1 write_rtf: return => target == rtf_encode() string, raise => target as "
        "before. R18.2 nothing created through tempfile survives any run. R18.3 converters: return => target == converter output "
        "(+ HTML resource folder), the converter was given exactly the encoded string inside temporary directories, no other file "
        "left; raise => target as before, nothing else left. R18.4 each writer requests its own format.")
    ctx.explain("Method: " + METHOD + ". Fault injection is exhaustive over the call boundaries of repository code (repository functions, "
                "classes and their models rtf_encode / LibreOfficeConverter() / converter.convert) that the fault-free run of the same scenario "
                "reaches: one run per boundary, the exception is raised on entry instead of the call. Scenarios: 3 target situations (exists / "
                "absent / absent in a missing directory) x str or Path argument x default or passed converter; converter behaviours: succeeds, "
                "raises before output, raises after output, returns a list, None, a str (counts in coverage.interpretation).")
    ctx.assume("shutil.move is atomic enough for the property (same file system) and TemporaryDirectory removes its tree on exit")
    ctx.assume("the document is a model whose rtf_encode returns a fixed string or raises; the converter is a model that writes `<stem>.<format>` "
               "(and for HTML a `<name>_files` folder) into the output directory it is given; the file system is an in-memory model")
    ctx.undecided("atomicity of shutil.move across file systems; LibreOffice's own temporary files")
    ctx.undecided("failures inside standard-library calls (shutil.move, Path.write_text, mkdir) are not injected; call boundaries that are only "
                  "reached on error paths; concurrent writers")
    for k in ("scenarios", "runs", "forks"):
        _STATS[k] = 0
    _STATS["fault_points"] = {}
    r18_1(ctx)
    r18_2_3(ctx)
    cover(ctx, scenarios=_STATS["scenarios"], interpreted_runs=_STATS["runs"], forks_on_unknown_conditions=_STATS["forks"],
          fault_points_per_scenario=dict(_STATS["fault_points"]), fault_injection="exhaustive over the repository call boundaries reached in the "
          "fault-free run of each scenario (exception on entry)", converter_behaviours=["ok", "raise-before", "raise-after", "returns-list", "returns-none", "returns-str"],
          fork_enumeration="all valuations of the unknown conditions consulted (at most 2^7 per scenario, else analysis gap)")
