"""C08 - all rows of a table share one right edge and proportional columns.

R08.1 provenance of every Cell.width and of the table width W handed to Utils._col_widths;
R08.2 column-space agreement between frames and width vectors (FULL = original columns,
REDUCED = displayed columns); R08.3 width slicing with the removed index set of the original frame;
R08.4 normal form of Utils._col_widths and of the twip conversion of boundaries; R08.5 default /
broadcast / inherited col_rel_width in RTFDocument.__init__.
"""
from __future__ import annotations

import ast

from ..linform import linform, single_assign_env
from ..pm import dotted, unparse, walk_no_nested
from ..report import Ctx
from . import tablecore as T

PAGE_W = ("document.rtf_page.col_width", "document.rtf_page.col_width or 8.5")


def r08_1(ctx: Ctx) -> None:
    pm = ctx.pm
    # (a) Cell(width=…) sites
    n = 0
    for fi in pm.iter_funcs():
        for c in walk_no_nested(fi.node):
            if isinstance(c, ast.Call) and dotted(c.func) == "Cell":
                w = next((unparse(k.value) for k in c.keywords if k.arg == "width"), None)
                n += 1
                ok = (fi.short == "TableAttributes._encode" and w == "col_widths[j]") or (fi.short == "RTFEncodingService.encode_spanning_row" and w == "page_width")
                ctx.instance("R08.1", fi.where(c), f"{fi.short}: Cell(width={w})")
                if not ok:
                    ctx.violation("R08.1", fi.short, f"Cell width {w}", fi.where(c), f"{fi.short}: a cell's right boundary is `{w}`, not the cumulative column width of its column / the table width of a spanning row")
    # (b) width argument at the call sites of the row encoders
    sites = {
        "encode_column_header": (2, "page_col_width"), "encode_footnote": (2, "page_col_width"), "encode_source": (2, "page_col_width"),
        "encode_spanning_row": (None, "page_width"),
    }
    for fi in pm.iter_funcs():
        if fi.cls not in ("PageRenderer", "UnifiedRTFEncoder"):
            continue
        for c in walk_no_nested(fi.node):
            if isinstance(c, ast.Call) and dotted(c.func).split(".")[-1] in sites:
                nm = dotted(c.func).split(".")[-1]
                pos, kwname = sites[nm]
                arg = next((k.value for k in c.keywords if k.arg == kwname), None)
                if arg is None and pos is not None and len(c.args) > pos:
                    arg = c.args[pos]
                txt = unparse(arg) if arg is not None else "<missing>"
                ctx.instance("R08.1", fi.where(c), f"{fi.short}: {nm}(…, {kwname}={txt})")
                if txt not in PAGE_W:
                    ctx.violation("R08.1", fi.short, f"{nm} width {txt}", fi.where(c), f"{fi.short}: {nm} is laid out in `{txt}`, not in rtf_page.col_width of the document being encoded")
    # (c) inside the encoders the width reaches _col_widths / Cell unchanged
    es = pm.func("RTFEncodingService")  if False else None
    for short, wparam in (("RTFEncodingService.encode_column_header", "page_col_width"), ("RTFEncodingService.encode_footnote", "page_col_width"),
                          ("RTFEncodingService.encode_source", "page_col_width")):
        fi = pm.func(short)
        env = single_assign_env(fi.node)
        calls = [c for c in walk_no_nested(fi.node) if isinstance(c, ast.Call) and dotted(c.func).endswith("_col_widths")]
        for c in calls:
            w = c.args[1] if len(c.args) > 1 else None
            while isinstance(w, ast.Name) and w.id in env:
                w = env[w.id]
            rel = unparse(c.args[0])
            ctx.instance("R08.1", fi.where(c), f"{short}: _col_widths({rel}, {unparse(w)})")
            if unparse(w) != wparam:
                ctx.violation("R08.1", short, f"_col_widths width {unparse(w)}", fi.where(c), f"{short}: column boundaries are scaled to `{unparse(w)}` instead of the table width it was given")
            if rel != "rtf_attrs.col_rel_width":
                ctx.violation("R08.1", short, f"_col_widths rel {rel}", fi.where(c), f"{short}: boundaries are not derived from the component's own col_rel_width")
        if not calls:
            ctx.violation("R08.1", short, "no _col_widths", fi.where(), f"{short} no longer derives boundaries from relative widths and the table width")
    T.body_section_widths(ctx, "R08.1")
    ctx.floor("R08.1", 13)


def r08_2(ctx: Ctx) -> None:
    """auto-populated header text lives in REDUCED column space; its widths must too"""
    pm = ctx.pm
    fi = pm.func("PageRenderer._render_column_headers")
    branches = [n for n in ast.walk(fi.node) if isinstance(n, ast.If) and "header_copy.text is None" in unparse(n.test) and "as_colheader" in unparse(n.test)]
    if len(branches) != 1:
        ctx.gap("R08.2", "the automatic column header branch (`text is None and as_colheader`) could not be re-identified in _render_column_headers")
        return
    br = branches[0]
    src = [unparse(a.value) for a in ast.walk(br) if isinstance(a, ast.Assign) and unparse(a.targets[0]) in ("page_df", "columns")]
    reduced = any("page.data" in s for s in src)
    width_fix = [a for a in ast.walk(br) if isinstance(a, ast.Assign) and unparse(a.targets[0]) == "header_copy.col_rel_width"]
    wsrc = unparse(width_fix[0].value) if width_fix else None
    if width_fix:
        local = {unparse(a.targets[0]): unparse(a.value) for a in ast.walk(br) if isinstance(a, ast.Assign) and len(a.targets) == 1 and isinstance(a.targets[0], ast.Name)}
        for nm in [x.id for x in ast.walk(width_fix[0].value) if isinstance(x, ast.Name)]:
            if nm in local:
                wsrc += " <- " + local[nm]
    ctx.instance("R08.2", fi.where(br), f"auto header text from {src} (reduced column space: {reduced}); header widths re-based in the same branch: {wsrc}")
    if reduced and not width_fix:
        ctx.violation("R08.2", fi.short, "auto header widths stay in full column space", fi.where(br),
                      "the automatic header takes its texts from the page's displayed columns (page_by/subline_by columns removed) but keeps the col_rel_width it "
                      "inherited from the body for ALL columns: after column removal the header cells no longer line up with the data columns and end at a different right edge")
    elif width_fix and not any(k in wsrc for k in ("page.table_attrs", "page.col_widths", "final_body_attrs")):
        ctx.violation("R08.2", fi.short, "auto header widths from " + wsrc, fi.where(width_fix[0]), f"automatic header widths are taken from `{wsrc}`, not from the page's reduced attributes")
    # header encoding uses the header copy's own widths and the page width
    call = [c for c in walk_no_nested(fi.node) if isinstance(c, ast.Call) and dotted(c.func).endswith("encode_column_header")]
    args = [unparse(a) for a in call[0].args] if call else []
    if args != ["header_copy.text", "header_copy", "document.rtf_page.col_width"]:
        ctx.violation("R08.2", fi.short, "encode_column_header args " + str(args), fi.where(), "a header row is not encoded from its per-page copy and the document's table width")


def r08_4(ctx: Ctx) -> None:
    pm = ctx.pm
    fi = pm.func("Utils._col_widths")
    t = unparse(fi.node)
    ok = "total_width = sum(rel_widths)" in t and "cumulative_sum = 0.0" in t and \
        "[(cumulative_sum := (cumulative_sum + width * col_width / total_width)) for width in rel_widths]" in t
    comp = [n for n in walk_no_nested(fi.node) if isinstance(n, ast.ListComp)]
    lf_ok = False
    if comp and isinstance(comp[0].elt, ast.NamedExpr):
        v = comp[0].elt.value
        lf = linform(v)
        lf_ok = lf == linform(ast.parse("cumulative_sum + width * col_width / total_width", mode="eval").body) and unparse(comp[0].generators[0].iter) == "rel_widths" \
            and not comp[0].generators[0].ifs and comp[0].elt.target.id == "cumulative_sum"
    ctx.instance("R08.4", fi.where(), f"_col_widths: cumulative sum of width*col_width/sum(rel_widths) over rel_widths in order: {lf_ok}")
    if not (lf_ok and "total_width = sum(rel_widths)" in t):
        ctx.violation("R08.4", fi.short, "formula", fi.where(), "_col_widths is no longer the running sum of rel_width_i * col_width / sum(rel_widths) in column order (last boundary = col_width)")
    c = pm.func("Cell._as_rtf")
    tc = unparse(c.node)
    ok = "f'\\\\cellx{Utils._inch_to_twip(self.width)}'" in tc
    ctx.instance("R08.4", c.where(), f"\\cellx <- shared inch->twip conversion of the cell's width: {ok}")
    if not ok:
        ctx.violation("R08.4", c.short, "cellx conversion", c.where(), "\\cellx is not the shared inch->twip conversion of the cell's cumulative width")


def r08_5(ctx: Ctx) -> None:
    pm = ctx.pm
    fi = pm.func("RTFDocument.__init__")
    t = unparse(fi.node)
    checks = {
        "default": "self.rtf_body.col_rel_width = [1] * dim[1]" in t and "section_body.col_rel_width = [1] * dim[1]" in t,
        "broadcast": "self.rtf_body.col_rel_width = self.rtf_body.col_rel_width * dim[1]" in t and "len(self.rtf_body.col_rel_width) == 1 and dim[1] > 1" in t,
        "inherit": "header.col_rel_width = self.rtf_body.col_rel_width.copy()" in t and "if header.col_rel_width is None:" in t,
        "dim": "dim = self.df.shape" in t and "dim = section_df.shape" in t,
    }
    ctx.instance("R08.5", fi.where(), f"RTFDocument.__init__ col_rel_width handling: {checks}")
    for k, ok in checks.items():
        if not ok:
            ctx.violation("R08.5", fi.short, "col_rel_width " + k, fi.where(), f"RTFDocument.__init__: {k} handling of col_rel_width changed (default [1]*ncol, scalar broadcast to ncol, headers inherit a copy of the body's widths)")
    # every store of an inherited width sits in a loop that binds BOTH the header(s) and the body it inherits from
    for a in ast.walk(fi.node):
        if isinstance(a, ast.Assign) and unparse(a.targets[0]) == "header.col_rel_width":
            src = a.value
            names = {n.id for n in ast.walk(src) if isinstance(n, ast.Name)} - {"self"}
            loops = [x for x in T.anc(a, fi.node) if isinstance(x, ast.For)]
            bound = set()
            for lp2 in loops:
                bound |= {n.id for n in ast.walk(lp2.target) if isinstance(n, ast.Name)}
            stale = sorted(n for n in names if n not in bound)
            ctx.instance("R08.5", fi.where(a), f"`{unparse(a)}` inside loops binding {sorted(bound)}; names bound elsewhere: {stale}")
            if stale:
                ctx.violation("R08.5", fi.short, f"stale loop variable {stale} in {unparse(a)}", fi.where(a),
                              f"`{unparse(a)}` reads {stale}, which is not bound by the loop(s) around it (a variable left over from an earlier loop): "
                              "every section's header inherits the widths of one fixed section")
    order_ok = t.find("self.rtf_body.col_rel_width = [1] * dim[1]") < t.find("header.col_rel_width = self.rtf_body.col_rel_width.copy()")
    if not order_ok:
        ctx.violation("R08.5", fi.short, "inherit before default", fi.where(), "headers inherit the body's widths before the body's default/broadcast widths are established")


def check(ctx: Ctx) -> None:
    ctx.explain(
        "R08.1 every Cell(width=…) is col_widths[j] (data/header/footnote rows) or the table width (spanning row); every row "
        "encoder receives document.rtf_page.col_width (15 call sites) and hands it unchanged to Utils._col_widths together with "
        "the component's own col_rel_width; the body's widths come from the reduced attributes and the same table width. "
        "R08.2 column-space agreement for automatic headers. R08.3 widths and attribute matrices are cut with the removed "
        "index set computed on the original frame. R08.4 normal form of _col_widths (running sum, last boundary = col_width) "
        "and of the \\cellx conversion. R08.5 default/broadcast/inherit handling in RTFDocument.__init__.")
    ctx.assume("rtf_page.col_width is always set by RTFPage._set_default (the `or 8.5` fallbacks are dead)")
    ctx.undecided("proportionality to within one twip and equality of the last boundary with col_width for concrete widths (float arithmetic)")
    r08_1(ctx)
    r08_2(ctx)
    T.column_removal(ctx, "R08.3")
    r08_4(ctx)
    r08_5(ctx)
